#!/usr/bin/env python3
"""Translator (T): regenerate lean/EraVerif/Gen/*.lean from /repo's current sources.

Deliberately tiny: it understands
  * `fn name(a: u64, ..) -> u64 { <one tail expression> }` with the expression grammar
    literals, identifiers, + - * / %, parentheses, free-function calls;
  * `const NAME: ty = <const expr>;` with literals (dec / 0b / 0x), other constants,
    `Self::X.0`, `| & + - *`, `as ty`, `size_of::<u16>()`, `u16::MAX`;
  * .proto files (messages, fields, oneofs, enums) for the wire schemas.
Anything outside the grammar aborts the translation (fail closed): the caller reports that the
tie between model and source no longer checks.

Usage: translate.py [--repo /repo] [--out /verif/lean/EraVerif/Gen] [target ...]
"""
import os
import re
import sys
import json

REPO = "/repo"
OUT = os.path.join(os.path.dirname(os.path.abspath(__file__)), "..", "lean", "EraVerif", "Gen")


class TranslateError(Exception):
    pass


def read(path):
    with open(os.path.join(REPO, path), encoding="utf-8") as f:
        return f.read()


def strip_comments(src):
    src = re.sub(r"/\*.*?\*/", "", src, flags=re.S)
    src = re.sub(r"//[^\n]*", "", src)
    return src


# ---------------------------------------------------------------- expression parser

TOK = re.compile(r"\s*(?:(0b[01_]+|0x[0-9a-fA-F_]+|[0-9][0-9_]*)|([A-Za-z_][A-Za-z0-9_]*(?:::[A-Za-z_<>][A-Za-z0-9_<>]*)*)|(<<|>>|[-+*/%()|&,.]))")


def tokenize(s):
    pos, out = 0, []
    s = s.strip()
    while pos < len(s):
        m = TOK.match(s, pos)
        if not m:
            raise TranslateError(f"cannot tokenize {s[pos:pos+30]!r}")
        if m.group(1) is not None:
            out.append(("num", int(m.group(1).replace("_", ""), 0)))
        elif m.group(2) is not None:
            out.append(("id", m.group(2)))
        else:
            out.append(("op", m.group(3)))
        pos = m.end()
    return out


class Parser:
    """Pratt parser producing a small AST: ('num',n) ('var',x) ('bin',op,a,b) ('call',f,[args])
    ('field',e,name) ('cast',e,ty)"""

    PREC = {"|": 1, "&": 2, "<<": 3, ">>": 3, "+": 4, "-": 4, "*": 5, "/": 5, "%": 5}

    def __init__(self, toks):
        self.t, self.i = toks, 0

    def peek(self):
        return self.t[self.i] if self.i < len(self.t) else (None, None)

    def next(self):
        tok = self.peek()
        self.i += 1
        return tok

    def expect(self, op):
        k, v = self.next()
        if k != "op" or v != op:
            raise TranslateError(f"expected {op!r}, got {v!r}")

    def parse(self):
        e = self.expr(0)
        if self.i != len(self.t):
            raise TranslateError(f"trailing tokens {self.t[self.i:]}")
        return e

    def expr(self, minprec):
        lhs = self.postfix()
        while True:
            k, v = self.peek()
            if k == "id" and v == "as":
                self.next()
                k2, ty = self.next()
                if k2 != "id":
                    raise TranslateError("bad cast")
                lhs = ("cast", lhs, ty)
                continue
            if k != "op" or v not in self.PREC or self.PREC[v] < minprec:
                return lhs
            self.next()
            rhs = self.expr(self.PREC[v] + 1)
            lhs = ("bin", v, lhs, rhs)

    def postfix(self):
        e = self.atom()
        while True:
            k, v = self.peek()
            if k == "op" and v == ".":
                self.next()
                k2, name = self.next()
                if k2 == "num":
                    e = ("field", e, str(name))
                elif k2 == "id":
                    k3, v3 = self.peek()
                    if k3 == "op" and v3 == "(":
                        self.next()
                        args = self.args()
                        e = ("mcall", e, name, args)
                    else:
                        e = ("field", e, name)
                else:
                    raise TranslateError("bad field access")
            else:
                return e

    def args(self):
        args = []
        k, v = self.peek()
        if k == "op" and v == ")":
            self.next()
            return args
        while True:
            args.append(self.expr(0))
            k, v = self.next()
            if k == "op" and v == ")":
                return args
            if not (k == "op" and v == ","):
                raise TranslateError("bad argument list")

    def atom(self):
        k, v = self.next()
        if k == "num":
            return ("num", v)
        if k == "id":
            k2, v2 = self.peek()
            if k2 == "op" and v2 == "(":
                self.next()
                return ("call", v, self.args())
            return ("var", v)
        if k == "op" and v == "(":
            e = self.expr(0)
            self.expect(")")
            return e
        raise TranslateError(f"unexpected token {v!r}")


def parse_expr(s):
    return Parser(tokenize(s)).parse()


# ---------------------------------------------------------------- u64 functions -> Lean

def find_fn(src, name):
    ms = [m for m in re.finditer(r"\bfn\s+" + re.escape(name) + r"\s*\(([^)]*)\)\s*->\s*(\w+)\s*\{", src)
          if "self" not in m.group(1)]
    if len(ms) != 1:
        raise TranslateError(f"free fn {name}: expected exactly one definition, found {len(ms)}")
    m = ms[0]
    depth, i = 1, m.end()
    while depth and i < len(src):
        depth += {"{": 1, "}": -1}.get(src[i], 0)
        i += 1
    body = strip_comments(src[m.end():i - 1]).strip()
    params = []
    for p in m.group(1).split(","):
        p = p.strip()
        if not p:
            continue
        pn, pt = [x.strip() for x in p.split(":")]
        params.append((pn, pt))
    return params, m.group(2), body


def lean_u64(e, params, fns):
    k = e[0]
    if k == "num":
        return str(e[1])
    if k == "var":
        if e[1] not in params:
            raise TranslateError(f"unknown variable {e[1]}")
        return e[1]
    if k == "bin":
        if e[1] not in "+-*/%":
            raise TranslateError(f"operator {e[1]} not supported in u64 fn")
        return f"({lean_u64(e[2], params, fns)} {e[1]} {lean_u64(e[3], params, fns)})"
    if k == "call":
        if e[1] not in fns:
            raise TranslateError(f"call to unknown fn {e[1]}")
        return "(" + e[1] + "".join(" " + lean_u64(a, params, fns) for a in e[2]) + ")"
    raise TranslateError(f"unsupported expression {e}")


def lean_chk(e, params, fns):
    """Checked evaluation in `Option Nat`: none = the Rust expression would overflow, underflow or
    divide by zero on u64 (a panic with overflow checks, a silent wrap without)."""
    k = e[0]
    if k == "num":
        return f"(some {e[1]})"
    if k == "var":
        return f"(some {e[1]})"
    if k == "bin":
        op = {"+": "cAdd", "-": "cSub", "*": "cMul", "/": "cDiv", "%": "cMod"}[e[1]]
        return f"({op} {lean_chk(e[2], params, fns)} {lean_chk(e[3], params, fns)})"
    if k == "call":
        # single-argument calls only
        if len(e[2]) != 1:
            raise TranslateError("checked translation supports unary calls only")
        return f"(({lean_chk(e[2][0], params, fns)}).bind {e[1]}_chk)"
    raise TranslateError(f"unsupported expression {e}")


def gen_thresholds():
    path = "node/libs/roles/src/validator/messages/schedule.rs"
    src = read(path)
    names = ["max_faulty_weight", "quorum_threshold", "subquorum_threshold"]
    out = [HEADER.format(src=path), "namespace EraVerif.Gen.Thresholds", "",
           "/-- u64 `a + b` with overflow detection (`none` = would overflow). -/",
           "def cAdd (a b : Option Nat) : Option Nat := a.bind fun x => b.bind fun y => if x + y < 2^64 then some (x + y) else none",
           "def cSub (a b : Option Nat) : Option Nat := a.bind fun x => b.bind fun y => if y ≤ x then some (x - y) else none",
           "def cMul (a b : Option Nat) : Option Nat := a.bind fun x => b.bind fun y => if x * y < 2^64 then some (x * y) else none",
           "def cDiv (a b : Option Nat) : Option Nat := a.bind fun x => b.bind fun y => if y = 0 then none else some (x / y)",
           "def cMod (a b : Option Nat) : Option Nat := a.bind fun x => b.bind fun y => if y = 0 then none else some (x % y)",
           ""]
    fns = []
    for n in names:
        params, ret, body = find_fn(src, n)
        if ret != "u64" or any(t != "u64" for _, t in params) or len(params) != 1:
            raise TranslateError(f"{n}: signature is not (u64) -> u64")
        if ";" in body or "{" in body:
            raise TranslateError(f"{n}: body is not a single expression: {body!r}")
        e = parse_expr(body)
        pn = [p for p, _ in params]
        out.append(f"/-- `{n}` of schedule.rs, wrapping `UInt64` semantics (release profile). Source: `{body}` -/")
        out.append(f"def {n} ({pn[0]} : UInt64) : UInt64 := {lean_u64(e, pn, fns)}")
        out.append(f"/-- `{n}` evaluated with overflow / underflow / division-by-zero detection. -/")
        out.append(f"def {n}_chk ({pn[0]} : Nat) : Option Nat := {lean_chk(e, pn, fns)}")
        out.append("")
        fns.append(n)
    out.append("end EraVerif.Gen.Thresholds")
    return "\n".join(out) + "\n"


# ---------------------------------------------------------------- constants

def find_const(src, name):
    m = re.search(r"\bconst\s+" + re.escape(name) + r"\s*:\s*([^=]+?)\s*=\s*([^;]+);", strip_comments(src))
    if not m:
        raise TranslateError(f"const {name} not found")
    return m.group(1).strip(), m.group(2).strip()


BUILTIN = {"u16::MAX": 65535, "u32::MAX": 2**32 - 1, "u64::MAX": 2**64 - 1, "usize::MAX": 2**64 - 1,
           "u8::MAX": 255}
SIZEOF = {"u8": 1, "u16": 2, "u32": 4, "u64": 8}


def const_eval(e, env):
    k = e[0]
    if k == "num":
        return e[1]
    if k == "var":
        if e[1] in env:
            return env[e[1]]
        if e[1] in BUILTIN:
            return BUILTIN[e[1]]
        raise TranslateError(f"unknown constant {e[1]}")
    if k == "field":
        if e[2] == "0":
            return const_eval(e[1], env)
        raise TranslateError(f"field {e[2]}")
    if k == "cast":
        v = const_eval(e[1], env)
        bits = {"u8": 8, "u16": 16, "u32": 32, "u64": 64, "usize": 64}.get(e[2])
        if bits is None:
            raise TranslateError(f"cast to {e[2]}")
        return v % (1 << bits)
    if k == "call":
        m = re.fullmatch(r"(?:std::mem::|mem::)?size_of::<(\w+)>", e[1])
        if m and not e[2] and m.group(1) in SIZEOF:
            return SIZEOF[m.group(1)]
        # tuple-struct constructor `Self(x)` / `Name(x)`
        if len(e[2]) == 1 and re.fullmatch(r"[A-Z]\w*", e[1]):
            return const_eval(e[2][0], env)
        raise TranslateError(f"call {e[1]} in const expr")
    if k == "bin":
        a, b = const_eval(e[2], env), const_eval(e[3], env)
        return {"+": a + b, "-": a - b, "*": a * b, "/": a // b if b else None, "%": a % b if b else None,
                "|": a | b, "&": a & b, "<<": a << b, ">>": a >> b}[e[1]]
    raise TranslateError(f"unsupported const expr {e}")


def gen_consts(modname, specs):
    """specs: list of (lean_name, path, rust_const_name, scope_prefix) evaluated in order; a constant may
    refer to earlier ones by its Rust name or `Self::NAME` / `<scope>::NAME`."""
    out = [HEADER.format(src=", ".join(sorted({s[1] for s in specs}))), f"namespace EraVerif.Gen.{modname}", ""]
    env = {}
    for lean_name, path, rust_name, scope in specs:
        src = read(path)
        if scope:
            # restrict to the `impl <scope> { ... }` block
            m = re.search(r"\bimpl\s+" + re.escape(scope) + r"\s*\{", src)
            if not m:
                raise TranslateError(f"impl {scope} not found in {path}")
            depth, i = 1, m.end()
            while depth and i < len(src):
                depth += {"{": 1, "}": -1}.get(src[i], 0)
                i += 1
            src = src[m.end():i - 1]
        ty, expr = find_const(src, rust_name)
        local = dict(env)
        if scope:
            for (k, v) in list(env.items()):
                if k.startswith(scope + "::"):
                    local["Self::" + k[len(scope) + 2:]] = v
        val = const_eval(parse_expr(expr), local)
        if val is None or val < 0:
            raise TranslateError(f"{rust_name}: bad value")
        key = (scope + "::" if scope else "") + rust_name
        env[key] = val
        env[rust_name] = val if not scope else env.get(rust_name, val)
        out.append(f"/-- `{key}` in {path}: `{expr}` -/")
        out.append(f"def {lean_name} : Nat := {val}")
    out.append("")
    out.append(f"end EraVerif.Gen.{modname}")
    return "\n".join(out) + "\n"


def gen_noise_const():
    p = "node/components/network/src/noise/stream.rs"
    return gen_consts("NoiseConst", [
        ("MAX_TRANSPORT_MSG_LEN", p, "MAX_TRANSPORT_MSG_LEN", None),
        ("AUTHDATA_LEN", p, "AUTHDATA_LEN", None),
        ("MAX_PAYLOAD_LEN", p, "MAX_PAYLOAD_LEN", None),
        ("LENGTH_FIELD_LEN", p, "LENGTH_FIELD_LEN", None),
        ("MAX_FRAME_LEN", p, "MAX_FRAME_LEN", None),
    ]) .replace("\nend EraVerif.Gen.NoiseConst", gen_noise_handshake_buf(p) + "\nend EraVerif.Gen.NoiseConst")


def gen_noise_handshake_buf(p):
    """Length of the scratch buffer of `Stream::handshake`, into which a peer-announced u16 number of bytes is read
    (`&mut buf[..n]`, `n = u16::from_le_bytes(..) as usize`) before any authentication."""
    _, body = find_method_body(read(p), "handshake")
    if not re.search(r"let n = u16::from_le_bytes\(msg_size\) as usize; io::read_exact\(ctx, &mut stream, &mut buf\[\.\.n\]\)", body):
        raise TranslateError("handshake: the read `n = u16::from_le_bytes(msg_size) as usize; read_exact(.., &mut buf[..n])` was not found")
    m = re.search(r"let mut buf = (?:vec!)?\[0(?:u8)?; ([^\]]+)\];", body)
    if not m:
        raise TranslateError("handshake: declaration of the scratch buffer `buf` not found")
    e = m.group(1).strip()
    if re.fullmatch(r"[0-9_]+", e):
        val = int(e.replace("_", ""))
    else:
        ty, ce = find_const(read(p), e)
        val = const_eval(parse_expr(ce), {})
    return (f"/-- length of the scratch buffer of `Stream::handshake` (`{m.group(0)}`) -/\n"
            f"def HANDSHAKE_BUF_LEN : Nat := {val}\n")


def gen_mux_const():
    h = "node/components/network/src/mux/header.rs"
    return gen_consts("MuxConst", [
        ("FRAME_OPEN", h, "OPEN", "FrameKind"),
        ("FRAME_DATA", h, "DATA", "FrameKind"),
        ("FRAME_CLOSE", h, "CLOSE", "FrameKind"),
        ("FRAME_MASK", h, "MASK", "FrameKind"),
        ("STREAM_ACCEPT", h, "ACCEPT", "StreamKind"),
        ("STREAM_CONNECT", h, "CONNECT", "StreamKind"),
        ("STREAM_MASK", h, "MASK", "StreamKind"),
        ("ID_MASK", h, "MASK", "StreamId"),
    ])


def gen_store_const():
    p = "node/libs/engine/src/block_store.rs"
    return gen_consts("StoreConst", [("CACHE_CAPACITY", p, "CACHE_CAPACITY", "BlockStore")])


# ---------------------------------------------------------------- leader selection (C11)
#
# Three expressions of schedule.rs are translated into terms over the combinators of
# lean/EraVerif/Model/LeaderOps.lean (`none` = the Rust expression panics):
#   * `let turn = <e>;`                      in Schedule::view_leader
#   * `let index = self.leaders[<e>];`       in Schedule::view_leader (round-robin arm)
#   * LeaderSelection::leader_weighted_eligibility: the fixed `let` chain (Keccak of the 8 big-endian bytes of the
#     input, reduced modulo the weight as BigUint) and its tail expression.
# Types tracked: u64 | opt (Option<u64>) | vec (Vec<u64> of digits) | big (BigUint).

def find_method_body(src, name):
    """Body of the unique `fn <name>(...) ... {` (methods included), comments stripped, whitespace collapsed."""
    ms = list(re.finditer(r"\bfn\s+" + re.escape(name) + r"\s*\(", src))
    if len(ms) != 1:
        raise TranslateError(f"fn {name}: expected exactly one definition, found {len(ms)}")
    i = src.index("{", ms[0].end())
    depth, j = 1, i + 1
    while depth and j < len(src):
        depth += {"{": 1, "}": -1}.get(src[j], 0)
        j += 1
    if depth:
        raise TranslateError(f"fn {name}: unbalanced braces")
    sig = " ".join(strip_comments(src[ms[0].start():i]).split())
    return sig, " ".join(strip_comments(src[i + 1:j - 1]).split())


def lsel_parse(s):
    """parse_expr plus a trailing index `base[idx]` (the shared tokenizer has no brackets)."""
    s = s.strip()
    if s.endswith("]"):
        depth = 0
        for i in range(len(s) - 1, -1, -1):
            depth += {"]": 1, "[": -1}.get(s[i], 0)
            if depth == 0:
                return ("index", lsel_parse(s[:i]), lsel_parse(s[i + 1:-1]))
        raise TranslateError("unbalanced brackets")
    if "[" in s or "]" in s:
        raise TranslateError(f"brackets inside expression not supported: {s!r}")
    return parse_expr(s)


def lsel_path(e):
    if e[0] == "var":
        return e[1]
    if e[0] == "field":
        b = lsel_path(e[1])
        return None if b is None else b + "." + e[2]
    if e[0] == "mcall" and not e[3]:
        b = lsel_path(e[1])
        return None if b is None else b + "." + e[2] + "()"
    return None


def lsel(e, env):
    """-> (lean term, type). env: rust path -> (lean variable, type)."""
    path = lsel_path(e)
    if path is not None and path in env:
        return f"(some {env[path][0]})", env[path][1]
    k = e[0]
    if k == "num":
        return f"(some {e[1]})", "u64"
    if k == "cast":
        a, ta = lsel(e[1], env)
        if ta != "u64" or e[2] not in ("usize", "u64"):
            raise TranslateError(f"cast {ta} as {e[2]}")
        return f"(pCast64 {a})", "u64"
    if k == "bin":
        a, ta = lsel(e[2], env)
        b, tb = lsel(e[3], env)
        if ta == tb == "u64" and e[1] in "+-*/%":
            op = {"+": "pAdd", "-": "pSub", "*": "pMul", "/": "pDiv", "%": "pRem"}[e[1]]
            return f"({op} {a} {b})", "u64"
        if ta == tb == "big" and e[1] == "%":
            return f"(pRem {a} {b})", "big"
        raise TranslateError(f"operator {e[1]} on {ta},{tb}")
    if k == "index":
        a, ta = lsel(e[1], env)
        b, tb = lsel(e[2], env)
        if ta != "vec" or tb != "u64":
            raise TranslateError(f"index {ta}[{tb}]")
        return f"(pIndex {a} {b})", "u64"
    if k == "mcall":
        recv, tr = lsel(e[1], env)
        args = [lsel(a, env) for a in e[3]]
        sig = (tr, e[2], tuple(t for _, t in args))
        if sig == ("u64", "checked_div", ("u64",)):
            return f"(pCheckedDiv {recv} {args[0][0]})", "opt"
        if sig == ("u64", "checked_rem", ("u64",)):
            return f"(pCheckedRem {recv} {args[0][0]})", "opt"
        if sig == ("opt", "unwrap_or", ("u64",)):
            return f"(pUnwrapOr {recv} {args[0][0]})", "u64"
        if sig == ("opt", "unwrap", ()):
            return f"(pUnwrap {recv})", "u64"
        if sig == ("opt", "copied", ()) or sig == ("opt", "cloned", ()):
            return recv, "opt"
        if sig == ("big", "to_u64_digits", ()):
            return f"(pDigits {recv})", "vec"
        if sig == ("vec", "first", ()):
            return f"(pFirst {recv})", "opt"
        if sig == ("vec", "last", ()):
            return f"(pLast {recv})", "opt"
        raise TranslateError(f"method {e[2]} on {tr} with {sig[2]}")
    raise TranslateError(f"unsupported expression {e}")


def gen_leader_sel():
    path = "node/libs/roles/src/validator/messages/schedule.rs"
    src = read(path)
    out = [HEADER.format(src=path), "import EraVerif.Model.LeaderOps", "", "namespace EraVerif.Gen.LeaderSel",
           "open EraVerif.Model.LeaderOps", ""]
    # --- view_leader: turn and round-robin index
    sig, body = find_method_body(src, "view_leader")
    if not re.fullmatch(r"fn view_leader\s*\(\s*&self\s*,\s*view_number\s*:\s*ViewNumber\s*\)\s*->\s*validator::PublicKey", sig):
        raise TranslateError(f"view_leader: unexpected signature {sig!r}")
    ms = re.findall(r"\blet turn\b[^=;]*=([^;]*);", body)
    if len(ms) != 1 or len(re.findall(r"\bturn\s*[-+*/%|&^]?=[^=]", body)) != 1:
        raise TranslateError("view_leader: expected exactly one binding of `turn` and no reassignment")
    turn_src = ms[0].strip()
    env = {"view_number.0": ("view", "u64"), "self.leader_selection.frequency": ("freq", "u64")}
    t, ty = lsel(lsel_parse(turn_src), env)
    if ty != "u64":
        raise TranslateError(f"turn has type {ty}")
    out += [f"/-- `let turn = …;` of `Schedule::view_leader`. Source: `{turn_src}` -/",
            f"def turn (view freq : Nat) : Option Nat := {t}", ""]
    ms = re.findall(r"self\s*\.\s*leaders\s*\[(.*?)\]\s*;", body)
    if len(ms) != 1 or body.count("self.leaders[") + body.count("self .leaders [") != 1:
        raise TranslateError("view_leader: expected exactly one `self.leaders[…];`")
    idx_src = ms[0].strip()
    env = {"turn": ("turn", "u64"), "self.leaders.len()": ("len", "u64")}
    t, ty = lsel(lsel_parse(idx_src), env)
    if ty != "u64":
        raise TranslateError(f"round-robin index has type {ty}")
    out += [f"/-- the index in `self.leaders[…]` (round-robin arm). Source: `{idx_src}` -/",
            f"def rrIndex (turn len : Nat) : Option Nat := {t}", ""]
    # --- leader_weighted_eligibility
    sig, body = find_method_body(src, "leader_weighted_eligibility")
    if not re.fullmatch(r"fn leader_weighted_eligibility\s*\(\s*input\s*:\s*u64\s*,\s*total_weight\s*:\s*u64\s*\)\s*->\s*u64", sig):
        raise TranslateError(f"leader_weighted_eligibility: unexpected signature {sig!r}")
    stmts = [x.strip() for x in body.split(";")]
    tail = stmts.pop()
    fixed = [r"let (\w+) = input\.to_be_bytes\(\)",
             r"let (\w+) = Keccak256::new\(&(\w+)\)",
             r"let (\w+) = BigUint::from_bytes_be\((\w+)\.as_bytes\(\)\)",
             r"let (\w+) = BigUint::from\(total_weight\)"]
    if len(stmts) != 5:
        raise TranslateError(f"leader_weighted_eligibility: expected 5 statements and a tail, found {len(stmts)}")
    g = [re.fullmatch(rx, st) for rx, st in zip(fixed, stmts)]
    if not all(g):
        raise TranslateError("leader_weighted_eligibility: the hash / BigUint prologue changed: " + "; ".join(stmts[:4]))
    if g[1].group(2) != g[0].group(1) or g[2].group(2) != g[1].group(1):
        raise TranslateError("leader_weighted_eligibility: the hash is not taken over the big-endian bytes of the input")
    m5 = re.fullmatch(r"let (\w+) = (.*)", stmts[4])
    if not m5 or not tail:
        raise TranslateError("leader_weighted_eligibility: fifth statement is not a let / no tail expression")
    names = [g[0].group(1), g[1].group(1), g[2].group(1), g[3].group(1), m5.group(1)]
    if len(set(names)) != 5 or {"input", "total_weight"} & set(names):
        raise TranslateError("leader_weighted_eligibility: shadowed bindings")
    env = {g[2].group(1): ("hash", "big"), g[3].group(1): ("totalWeight", "big")}
    r, ty = lsel(lsel_parse(m5.group(2)), env)
    if ty != "big":
        raise TranslateError(f"{m5.group(1)} has type {ty}")
    env2 = {m5.group(1): ("r", "big")}
    t, ty = lsel(lsel_parse(tail), env2)
    if ty != "u64":
        raise TranslateError(f"eligibility has type {ty}")
    out += [f"/-- `{m5.group(1)}` of `leader_weighted_eligibility`, `hash` = Keccak256 of the 8 big-endian bytes of the",
            f"input read as a big-endian integer. Source: `{m5.group(2)}` -/",
            f"def reduce (hash totalWeight : Nat) : Option Nat := {r}", "",
            f"/-- tail expression of `leader_weighted_eligibility`. Source: `{tail}` -/",
            f"def lowDigit (r : Nat) : Option Nat := {t}", "",
            "/-- `LeaderSelection::leader_weighted_eligibility` given the hash of the input. -/",
            "def eligibility (hash totalWeight : Nat) : Option Nat := (reduce hash totalWeight).bind lowDigit", "",
            "end EraVerif.Gen.LeaderSel"]
    return "\n".join(out) + "\n"


# ---------------------------------------------------------------- .proto schemas
#
# Reader for the subset of the protobuf language the repository uses: `syntax`, `package`, `import [public]`,
# file/message/field/enum `option`s, `message` (nested), `enum`, `oneof`, `reserved`, fields with the labels
# `optional` / `repeated` / `required` or none, `map<K, V>` fields, field options `[...]`.
# Everything else (`extend`, `service`, `group`, `extensions`, `stream`, unknown tokens) raises TranslateError:
# the schema table is what the C09 theorems are instantiated on, so a construct this reader does not understand
# must stop the check rather than be skipped.

# scalar type -> wire kind used by `impl From<prost_reflect::Kind> for Wire` (proto_fmt.rs)
SCALARS = {"uint64": "varint", "uint32": "varint", "int64": "varint", "int32": "varint", "bool": "varint",
           "sint32": "varint", "sint64": "varint", "bytes": "len", "string": "len",
           "fixed64": "i64", "sfixed64": "i64", "double": "i64", "fixed32": "i32", "sfixed32": "i32", "float": "i32"}

PROTO_TOK = re.compile(r"""\s*(?:
      (?P<str>"(?:[^"\\\n]|\\.)*"|'(?:[^'\\\n]|\\.)*')
    | (?P<id>\.?[A-Za-z_][A-Za-z0-9_]*(?:\.[A-Za-z_][A-Za-z0-9_]*)*)
    | (?P<num>-?(?:0[xX][0-9a-fA-F]+|[0-9]+(?:\.[0-9]+)?(?:[eE][-+]?[0-9]+)?))
    | (?P<sym>[{}=;\[\]<>,()])
    )""", re.X)


def proto_tokens(text):
    text = strip_comments(text)
    pos, out = 0, []
    n = len(text)
    while True:
        while pos < n and text[pos].isspace():
            pos += 1
        if pos >= n:
            return out
        m = PROTO_TOK.match(text, pos)
        if not m or m.end() == pos:
            raise TranslateError(f"proto: cannot tokenize {text[pos:pos + 30]!r}")
        kind = m.lastgroup
        out.append((kind, m.group(kind)))
        pos = m.end()


class ProtoParser:
    def __init__(self, toks, fname):
        self.t, self.i, self.fname = toks, 0, fname
        self.syntax = None          # "proto2" | "proto3"
        self.package = ""
        self.messages = []          # dict(name=<dotted, relative to package>, fields=[...])
        self.enums = []             # dotted names relative to package

    def err(self, what):
        ctx = " ".join(v for _, v in self.t[max(0, self.i - 3):self.i + 4])
        raise TranslateError(f"proto {self.fname}: {what} near `{ctx}`")

    def peek(self):
        return self.t[self.i] if self.i < len(self.t) else (None, None)

    def next(self):
        tok = self.peek()
        if tok[0] is None:
            self.err("unexpected end of file")
        self.i += 1
        return tok

    def expect(self, sym):
        k, v = self.next()
        if v != sym:
            self.i -= 1
            self.err(f"expected `{sym}`")

    def ident(self):
        k, v = self.next()
        if k != "id":
            self.i -= 1
            self.err("expected an identifier")
        return v

    def integer(self):
        k, v = self.next()
        if k != "num" or not re.fullmatch(r"-?(0[xX][0-9a-fA-F]+|[0-9]+)", v):
            self.i -= 1
            self.err("expected an integer")
        return int(v, 0)

    def skip_statement(self):
        """Skips to the `;` ending an `option` / `reserved` / `import` / `syntax` statement (no braces allowed,
        except the balanced `{...}` of an aggregate option value)."""
        depth = 0
        while True:
            k, v = self.next()
            if v == "{":
                depth += 1
            elif v == "}":
                depth -= 1
                if depth < 0:
                    self.err("unbalanced `}` in statement")
            elif v == ";" and depth == 0:
                return

    def field_options(self):
        """`[ name = value, ... ]` — skipped (packed / ctype / deprecated do not change what canonical_raw does);
        `default` (proto2) is rejected because the canonical spec excludes it."""
        k, v = self.peek()
        if v != "[":
            return
        self.next()
        depth = 1
        while depth:
            k, v = self.next()
            if v == "[":
                depth += 1
            elif v == "]":
                depth -= 1
            elif k == "id" and v == "default":
                self.err("field default values are not supported by the canonical encoding")

    def parse_file(self):
        while self.peek()[0] is not None:
            k, v = self.peek()
            if k == "sym" and v == ";":
                self.next()
            elif v == "syntax":
                self.next()
                self.expect("=")
                k2, s = self.next()
                if k2 != "str" or s[1:-1] not in ("proto2", "proto3"):
                    self.err("bad syntax statement")
                self.syntax = s[1:-1]
                self.expect(";")
            elif v == "package":
                self.next()
                self.package = self.ident()
                self.expect(";")
            elif v in ("import", "option"):
                self.next()
                self.skip_statement()
            elif v == "message":
                self.next()
                self.message("")
            elif v == "enum":
                self.next()
                self.enum("")
            else:
                self.err(f"unsupported top-level construct `{v}`")
        if self.syntax is None:
            self.syntax = "proto2"   # protobuf default when no syntax statement is present

    def enum(self, prefix):
        name = self.ident()
        self.expect("{")
        nvals = 0
        while True:
            k, v = self.peek()
            if v == "}":
                self.next()
                break
            if k == "sym" and v == ";":
                self.next()
            elif v in ("option", "reserved"):
                self.next()
                self.skip_statement()
            else:
                self.ident()
                self.expect("=")
                self.integer()
                self.field_options()
                self.expect(";")
                nvals += 1
        if nvals == 0:
            self.err(f"enum {name} has no values")
        self.enums.append(prefix + name)

    def message(self, prefix):
        name = self.ident()
        if "." in name:
            self.err("dotted message name")
        self.expect("{")
        fields = []
        self.message_body(prefix + name + ".", fields, None)
        self.messages.append({"name": prefix + name, "fields": fields})

    def message_body(self, prefix, fields, oneof):
        while True:
            k, v = self.peek()
            if v == "}":
                self.next()
                return
            if k == "sym" and v == ";":
                self.next()
                continue
            if k != "id":
                self.err("unexpected token in message body")
            if v == "message" and oneof is None:
                self.next()
                self.message(prefix)
            elif v == "enum" and oneof is None:
                self.next()
                self.enum(prefix)
            elif v == "oneof" and oneof is None:
                self.next()
                oname = self.ident()
                self.expect("{")
                before = len(fields)
                self.message_body(prefix, fields, oname)
                if len(fields) == before:
                    self.err(f"oneof {oname} has no members")
            elif v in ("option", "reserved") :
                self.next()
                self.skip_statement()
            elif v in ("extend", "extensions", "group", "service", "rpc", "stream"):
                self.err(f"unsupported construct `{v}`")
            elif v == "map":
                if oneof is not None:
                    self.err("map field inside a oneof")
                self.next()
                self.expect("<")
                kt = self.ident()
                self.expect(",")
                vt = self.ident()
                self.expect(">")
                fname = self.ident()
                self.expect("=")
                num = self.integer()
                self.field_options()
                self.expect(";")
                fields.append({"num": num, "name": fname, "type": None, "label": "map", "oneof": None,
                               "map": (kt, vt)})
            else:
                label = "none"
                if v in ("optional", "repeated", "required"):
                    if oneof is not None:
                        self.err("label inside a oneof")
                    label = v
                    self.next()
                ty = self.ident()
                if ty in ("group",):
                    self.err("groups are not supported")
                fname = self.ident()
                self.expect("=")
                num = self.integer()
                self.field_options()
                self.expect(";")
                fields.append({"num": num, "name": fname, "type": ty, "label": label, "oneof": oneof})


def parse_proto(text, fname="<proto>"):
    """Returns dict(syntax, package, messages=[dict(name, fields)], enums=[names]); names are dotted and relative
    to the package (nested messages are flattened)."""
    p = ProtoParser(proto_tokens(text), fname)
    p.parse_file()
    return {"syntax": p.syntax, "package": p.package, "messages": p.messages, "enums": p.enums}


def proto_files():
    res = []
    for root, dirs, files in os.walk(os.path.join(REPO, "node")):
        dirs[:] = sorted(d for d in dirs if d not in ("target", ".git"))
        for f in files:
            if f.endswith(".proto"):
                res.append(os.path.relpath(os.path.join(root, f), REPO))
    return sorted(res)


def load_schemas():
    """All messages of all .proto files under node/, fully qualified:
    {fqname: dict(fields=[dict(num,name,kind,sub,repeated,presence,is_map,oneof)], file, proto3)}."""
    files = proto_files()
    if not files:
        raise TranslateError("no .proto file found under node/")
    allmsgs, allenums = {}, set()
    for pf in files:
        parsed = parse_proto(read(pf), pf)
        pkg = parsed["package"]
        pre = pkg + "." if pkg else ""
        for m in parsed["messages"]:
            fq = pre + m["name"]
            if fq in allmsgs or fq in allenums:
                raise TranslateError(f"{pf}: duplicate definition of {fq}")
            allmsgs[fq] = {"pkg": pkg, "msg": m, "file": pf, "proto3": parsed["syntax"] == "proto3"}
        for e in parsed["enums"]:
            fq = pre + e
            if fq in allmsgs or fq in allenums:
                raise TranslateError(f"{pf}: duplicate definition of {fq}")
            allenums.add(fq)

    def resolve(scope, ty, where):
        if ty.startswith("."):
            cands = [ty[1:]]
        else:
            # innermost scope outward (message scopes, then package components), as protoc does
            cands, s = [], scope
            while True:
                cands.append((s + "." if s else "") + ty)
                if not s:
                    break
                s = s.rsplit(".", 1)[0] if "." in s else ""
        for c in cands:
            if c in allmsgs:
                return "msg", c
            if c in allenums:
                return "enum", c
        raise TranslateError(f"{where}: cannot resolve type {ty}")

    schemas = {}
    for fq, info in allmsgs.items():
        proto3 = info["proto3"]
        fields, seen_nums, seen_names = [], set(), set()
        for f in info["msg"]["fields"]:
            where = f"{fq}.{f['name']}"
            if f["num"] in seen_nums or f["name"] in seen_names:
                raise TranslateError(f"{where}: duplicate field number or name")
            seen_nums.add(f["num"])
            seen_names.add(f["name"])
            if not (1 <= f["num"] < 2 ** 29) or 19000 <= f["num"] <= 19999:
                raise TranslateError(f"{where}: field number {f['num']} out of range")
            if f["label"] == "map":
                kt, vt = f["map"]
                if kt not in SCALARS or kt in ("bytes", "float", "double"):
                    raise TranslateError(f"{where}: bad map key type {kt}")
                if vt not in SCALARS:
                    resolve(fq, vt, where)
                fields.append({"num": f["num"], "name": f["name"], "kind": "len", "sub": None, "repeated": False,
                               "presence": False, "is_map": True, "oneof": None})
                continue
            ty = f["type"]
            if ty in SCALARS:
                kind, sub = SCALARS[ty], None
            else:
                what, hit = resolve(fq, ty, where)
                kind, sub = ("varint", None) if what == "enum" else ("msg", hit)
            if f["label"] == "required" and proto3:
                raise TranslateError(f"{where}: `required` in a proto3 file")
            if f["label"] == "none" and not proto3 and f["oneof"] is None:
                raise TranslateError(f"{where}: proto2 field without a label")
            repeated = f["label"] == "repeated"
            # FieldDescriptor::supports_presence(): proto3 -> explicit `optional`, oneof member, or singular message;
            # proto2 -> every singular field
            presence = (not repeated) and (f["label"] == "optional" or f["oneof"] is not None or kind == "msg"
                                           or not proto3)
            fields.append({"num": f["num"], "name": f["name"], "kind": kind, "sub": sub, "repeated": repeated,
                           "presence": presence, "is_map": False, "oneof": f["oneof"]})
        schemas[fq] = {"fields": sorted(fields, key=lambda x: x["num"]), "file": info["file"], "proto3": proto3}
    return schemas


def lean_str(s):
    if not re.fullmatch(r"[A-Za-z0-9_./ -]*", s):
        raise TranslateError(f"unexpected character in name {s!r}")
    return '"' + s + '"'


def gen_schemas():
    schemas = load_schemas()
    names = sorted(schemas)
    idx = {n: i for i, n in enumerate(names)}
    files = proto_files()
    out = [HEADER.format(src="every .proto under node/ (" + str(len(files)) + " files)"),
           "import EraVerif.Model.WireSchema", "", "namespace EraVerif.Gen.Schemas", "open EraVerif.Model.Wire", ""]
    out.append("/-- The .proto files the table was read from. -/")
    out.append("def files : List String := [" + ", ".join(lean_str(f) for f in files) + "]")
    out.append("")
    out.append("/-- One entry per protobuf message (all files); message-typed fields refer to entries by index. -/")
    out.append("def table : Table := [")
    rows = []
    kinds = {"varint": ".varint", "len": ".bytes", "i64": ".fixed64", "i32": ".fixed32"}
    for n in names:
        fs = []
        for f in schemas[n]["fields"]:
            kind = f"(.msg {idx[f['sub']]})" if f["kind"] == "msg" else kinds[f["kind"]]
            fs.append(f"    {{ num := {f['num']}, kind := {kind}, repeated := {str(f['repeated']).lower()}, "
                      f"explicitPresence := {str(f['presence']).lower()}, isMap := {str(f['is_map']).lower()} }}")
        rows.append(f"  -- [{idx[n]}] {n}  ({schemas[n]['file']})\n  {{ name := {lean_str(n)}, "
                    f"proto3 := {str(schemas[n]['proto3']).lower()}, fields := [\n" + ",\n".join(fs) + "] }")
    out.append(",\n".join(rows))
    out.append("]")
    out.append("")
    out.append("/-- Index of a message by fully qualified name. -/")
    out.append("def indexOf (name : String) : Option Nat := table.findIdx? (fun m => m.name == name)")
    out.append("")
    out.append("end EraVerif.Gen.Schemas")
    # side file for the harness: name -> index, file, fields as the translator understood them
    meta = {n: {"index": idx[n], "file": schemas[n]["file"], "proto3": schemas[n]["proto3"],
                "fields": [{"num": f["num"], "name": f["name"], "kind": f["kind"],
                            "sub": f["sub"], "repeated": f["repeated"], "presence": f["presence"],
                            "is_map": f["is_map"]} for f in schemas[n]["fields"]]} for n in names}
    return "\n".join(out) + "\n", meta


HEADER = "-- GENERATED by tools/translate.py from {src}. Do not edit: regenerated on every check run.\n"

def gen_store_fns():
    sys.path.insert(0, os.path.dirname(os.path.abspath(__file__)))
    import translate_store
    try:
        return translate_store.gen(read("node/libs/engine/src/block_store.rs"))
    except translate_store.TErr as e:
        raise TranslateError(f"block_store.rs: {e}")


def gen_addr_fns():
    sys.path.insert(0, os.path.dirname(os.path.abspath(__file__)))
    import translate_addr
    try:
        return translate_addr.gen(strip_comments(read("node/libs/roles/src/validator/messages/discovery.rs")),
                                  strip_comments(read("node/components/network/src/gossip/validator_addrs.rs")))
    except translate_addr.TErr as e:
        raise TranslateError(str(e))


def gen_limiter_fns():
    sys.path.insert(0, os.path.dirname(os.path.abspath(__file__)))
    import translate_limiter
    try:
        return translate_limiter.gen(strip_comments(read("node/libs/concurrency/src/limiter/mod.rs")), parse_expr)
    except translate_limiter.TErr as e:
        raise TranslateError(f"limiter/mod.rs: {e}")


def gen_queue_fns():
    sys.path.insert(0, os.path.dirname(os.path.abspath(__file__)))
    import translate_queue
    try:
        return translate_queue.gen(strip_comments(read("node/components/bft/src/lib.rs")),
                                   strip_comments(read("node/libs/concurrency/src/sync/prunable_mpsc/mod.rs")))
    except translate_queue.TErr as e:
        raise TranslateError(f"bft/src/lib.rs: {e}")


def gen_pool_fns():
    sys.path.insert(0, os.path.dirname(os.path.abspath(__file__)))
    import translate_pool
    try:
        return translate_pool.gen(strip_comments(read("node/components/network/src/pool.rs")))
    except translate_pool.TErr as e:
        raise TranslateError(f"pool.rs: {e}")


TARGETS = {
    "PoolFns": gen_pool_fns,
    "QueueFns": gen_queue_fns,
    "LimiterFns": gen_limiter_fns,
    "AddrFns": gen_addr_fns,
    "StoreFns": gen_store_fns,
    "Thresholds": gen_thresholds,
    "NoiseConst": gen_noise_const,
    "MuxConst": gen_mux_const,
    "StoreConst": gen_store_const,
    "LeaderSel": gen_leader_sel,
    "Schemas": gen_schemas,
}


def write_if_changed(path, text):
    old = None
    if os.path.exists(path):
        with open(path, encoding="utf-8") as f:
            old = f.read()
    if old != text:
        with open(path, "w", encoding="utf-8") as f:
            f.write(text)
        return True
    return False


def main(argv):
    global REPO, OUT
    args = list(argv)
    if "--repo" in args:
        i = args.index("--repo")
        REPO = args[i + 1]
        del args[i:i + 2]
    if "--out" in args:
        i = args.index("--out")
        OUT = args[i + 1]
        del args[i:i + 2]
    targets = args or list(TARGETS)
    os.makedirs(OUT, exist_ok=True)
    status = {}
    rc = 0
    for t in targets:
        try:
            res = TARGETS[t]()
            meta = None
            if isinstance(res, tuple):
                res, meta = res
            changed = write_if_changed(os.path.join(OUT, t + ".lean"), res)
            if meta is not None:
                write_if_changed(os.path.join(OUT, t + ".meta.json"), json.dumps(meta, indent=1, sort_keys=True))
            status[t] = {"ok": True, "changed": changed}
        except (TranslateError, AssertionError, IndexError, KeyError, ValueError, OSError) as e:
            status[t] = {"ok": False, "error": f"{type(e).__name__}: {e}"}
            rc = 2
    print(json.dumps(status))
    return rc


if __name__ == "__main__":
    sys.exit(main(sys.argv[1:]))
