#!/usr/bin/env python3
"""Translator (T): regenerate lean/EraVerif/Gen/*.lean from /repo's current sources.

Deliberately tiny: it understands
  * `fn name(a: u64, ..) -> u64 { <one tail expression> }` with the expression grammar
    literals, identifiers, + - * / %, parentheses, free-function calls;
  * `const NAME: ty = <const expr>;` with literals (dec / 0b / 0x), other constants,
    `Self::X.0`, `| & + - *`, `as ty`, `size_of::<u16>()`, `u16::MAX`;
  * .proto files (messages, fields, oneofs, enums) for the wire schemas.
Anything outside the grammar aborts the translation (fail closed): the caller reports that the
tie between model and source no longer checks.

Usage: translate.py [--repo /repo] [--out /verif/lean/EraVerif/Gen] [target ...]
"""
import os
import re
import sys
import json

REPO = "/repo"
OUT = os.path.join(os.path.dirname(os.path.abspath(__file__)), "..", "lean", "EraVerif", "Gen")


class TranslateError(Exception):
    pass


def read(path):
    with open(os.path.join(REPO, path), encoding="utf-8") as f:
        return f.read()


def strip_comments(src):
    src = re.sub(r"/\*.*?\*/", "", src, flags=re.S)
    src = re.sub(r"//[^\n]*", "", src)
    return src


# ---------------------------------------------------------------- expression parser

TOK = re.compile(r"\s*(?:(0b[01_]+|0x[0-9a-fA-F_]+|[0-9][0-9_]*)|([A-Za-z_][A-Za-z0-9_]*(?:::[A-Za-z_<>][A-Za-z0-9_<>]*)*)|(<<|>>|[-+*/%()|&,.]))")


def tokenize(s):
    pos, out = 0, []
    s = s.strip()
    while pos < len(s):
        m = TOK.match(s, pos)
        if not m:
            raise TranslateError(f"cannot tokenize {s[pos:pos+30]!r}")
        if m.group(1) is not None:
            out.append(("num", int(m.group(1).replace("_", ""), 0)))
        elif m.group(2) is not None:
            out.append(("id", m.group(2)))
        else:
            out.append(("op", m.group(3)))
        pos = m.end()
    return out


class Parser:
    """Pratt parser producing a small AST: ('num',n) ('var',x) ('bin',op,a,b) ('call',f,[args])
    ('field',e,name) ('cast',e,ty)"""

    PREC = {"|": 1, "&": 2, "<<": 3, ">>": 3, "+": 4, "-": 4, "*": 5, "/": 5, "%": 5}

    def __init__(self, toks):
        self.t, self.i = toks, 0

    def peek(self):
        return self.t[self.i] if self.i < len(self.t) else (None, None)

    def next(self):
        tok = self.peek()
        self.i += 1
        return tok

    def expect(self, op):
        k, v = self.next()
        if k != "op" or v != op:
            raise TranslateError(f"expected {op!r}, got {v!r}")

    def parse(self):
        e = self.expr(0)
        if self.i != len(self.t):
            raise TranslateError(f"trailing tokens {self.t[self.i:]}")
        return e

    def expr(self, minprec):
        lhs = self.postfix()
        while True:
            k, v = self.peek()
            if k == "id" and v == "as":
                self.next()
                k2, ty = self.next()
                if k2 != "id":
                    raise TranslateError("bad cast")
                lhs = ("cast", lhs, ty)
                continue
            if k != "op" or v not in self.PREC or self.PREC[v] < minprec:
                return lhs
            self.next()
            rhs = self.expr(self.PREC[v] + 1)
            lhs = ("bin", v, lhs, rhs)

    def postfix(self):
        e = self.atom()
        while True:
            k, v = self.peek()
            if k == "op" and v == ".":
                self.next()
                k2, name = self.next()
                if k2 == "num":
                    e = ("field", e, str(name))
                elif k2 == "id":
                    k3, v3 = self.peek()
                    if k3 == "op" and v3 == "(":
                        self.next()
                        args = self.args()
                        e = ("mcall", e, name, args)
                    else:
                        e = ("field", e, name)
                else:
                    raise TranslateError("bad field access")
            else:
                return e

    def args(self):
        args = []
        k, v = self.peek()
        if k == "op" and v == ")":
            self.next()
            return args
        while True:
            args.append(self.expr(0))
            k, v = self.next()
            if k == "op" and v == ")":
                return args
            if not (k == "op" and v == ","):
                raise TranslateError("bad argument list")

    def atom(self):
        k, v = self.next()
        if k == "num":
            return ("num", v)
        if k == "id":
            k2, v2 = self.peek()
            if k2 == "op" and v2 == "(":
                self.next()
                return ("call", v, self.args())
            return ("var", v)
        if k == "op" and v == "(":
            e = self.expr(0)
            self.expect(")")
            return e
        raise TranslateError(f"unexpected token {v!r}")


def parse_expr(s):
    return Parser(tokenize(s)).parse()


# ---------------------------------------------------------------- u64 functions -> Lean

def find_fn(src, name):
    ms = [m for m in re.finditer(r"\bfn\s+" + re.escape(name) + r"\s*\(([^)]*)\)\s*->\s*(\w+)\s*\{", src)
          if "self" not in m.group(1)]
    if len(ms) != 1:
        raise TranslateError(f"free fn {name}: expected exactly one definition, found {len(ms)}")
    m = ms[0]
    depth, i = 1, m.end()
    while depth and i < len(src):
        depth += {"{": 1, "}": -1}.get(src[i], 0)
        i += 1
    body = strip_comments(src[m.end():i - 1]).strip()
    params = []
    for p in m.group(1).split(","):
        p = p.strip()
        if not p:
            continue
        pn, pt = [x.strip() for x in p.split(":")]
        params.append((pn, pt))
    return params, m.group(2), body


def lean_u64(e, params, fns):
    k = e[0]
    if k == "num":
        return str(e[1])
    if k == "var":
        if e[1] not in params:
            raise TranslateError(f"unknown variable {e[1]}")
        return e[1]
    if k == "bin":
        if e[1] not in "+-*/%":
            raise TranslateError(f"operator {e[1]} not supported in u64 fn")
        return f"({lean_u64(e[2], params, fns)} {e[1]} {lean_u64(e[3], params, fns)})"
    if k == "call":
        if e[1] not in fns:
            raise TranslateError(f"call to unknown fn {e[1]}")
        return "(" + e[1] + "".join(" " + lean_u64(a, params, fns) for a in e[2]) + ")"
    raise TranslateError(f"unsupported expression {e}")


def lean_chk(e, params, fns):
    """Checked evaluation in `Option Nat`: none = the Rust expression would overflow, underflow or
    divide by zero on u64 (a panic with overflow checks, a silent wrap without)."""
    k = e[0]
    if k == "num":
        return f"(some {e[1]})"
    if k == "var":
        return f"(some {e[1]})"
    if k == "bin":
        op = {"+": "cAdd", "-": "cSub", "*": "cMul", "/": "cDiv", "%": "cMod"}[e[1]]
        return f"({op} {lean_chk(e[2], params, fns)} {lean_chk(e[3], params, fns)})"
    if k == "call":
        # single-argument calls only
        if len(e[2]) != 1:
            raise TranslateError("checked translation supports unary calls only")
        return f"(({lean_chk(e[2][0], params, fns)}).bind {e[1]}_chk)"
    raise TranslateError(f"unsupported expression {e}")


def gen_thresholds():
    path = "node/libs/roles/src/validator/messages/schedule.rs"
    src = read(path)
    names = ["max_faulty_weight", "quorum_threshold", "subquorum_threshold"]
    out = [HEADER.format(src=path), "namespace EraVerif.Gen.Thresholds", "",
           "/-- u64 `a + b` with overflow detection (`none` = would overflow). -/",
           "def cAdd (a b : Option Nat) : Option Nat := a.bind fun x => b.bind fun y => if x + y < 2^64 then some (x + y) else none",
           "def cSub (a b : Option Nat) : Option Nat := a.bind fun x => b.bind fun y => if y ≤ x then some (x - y) else none",
           "def cMul (a b : Option Nat) : Option Nat := a.bind fun x => b.bind fun y => if x * y < 2^64 then some (x * y) else none",
           "def cDiv (a b : Option Nat) : Option Nat := a.bind fun x => b.bind fun y => if y = 0 then none else some (x / y)",
           "def cMod (a b : Option Nat) : Option Nat := a.bind fun x => b.bind fun y => if y = 0 then none else some (x % y)",
           ""]
    fns = []
    for n in names:
        params, ret, body = find_fn(src, n)
        if ret != "u64" or any(t != "u64" for _, t in params) or len(params) != 1:
            raise TranslateError(f"{n}: signature is not (u64) -> u64")
        if ";" in body or "{" in body:
            raise TranslateError(f"{n}: body is not a single expression: {body!r}")
        e = parse_expr(body)
        pn = [p for p, _ in params]
        out.append(f"/-- `{n}` of schedule.rs, wrapping `UInt64` semantics (release profile). Source: `{body}` -/")
        out.append(f"def {n} ({pn[0]} : UInt64) : UInt64 := {lean_u64(e, pn, fns)}")
        out.append(f"/-- `{n}` evaluated with overflow / underflow / division-by-zero detection. -/")
        out.append(f"def {n}_chk ({pn[0]} : Nat) : Option Nat := {lean_chk(e, pn, fns)}")
        out.append("")
        fns.append(n)
    out.append("end EraVerif.Gen.Thresholds")
    return "\n".join(out) + "\n"


# ---------------------------------------------------------------- constants

def find_const(src, name):
    m = re.search(r"\bconst\s+" + re.escape(name) + r"\s*:\s*([^=]+?)\s*=\s*([^;]+);", strip_comments(src))
    if not m:
        raise TranslateError(f"const {name} not found")
    return m.group(1).strip(), m.group(2).strip()


BUILTIN = {"u16::MAX": 65535, "u32::MAX": 2**32 - 1, "u64::MAX": 2**64 - 1, "usize::MAX": 2**64 - 1,
           "u8::MAX": 255}
SIZEOF = {"u8": 1, "u16": 2, "u32": 4, "u64": 8}


def const_eval(e, env):
    k = e[0]
    if k == "num":
        return e[1]
    if k == "var":
        if e[1] in env:
            return env[e[1]]
        if e[1] in BUILTIN:
            return BUILTIN[e[1]]
        raise TranslateError(f"unknown constant {e[1]}")
    if k == "field":
        if e[2] == "0":
            return const_eval(e[1], env)
        raise TranslateError(f"field {e[2]}")
    if k == "cast":
        v = const_eval(e[1], env)
        bits = {"u8": 8, "u16": 16, "u32": 32, "u64": 64, "usize": 64}.get(e[2])
        if bits is None:
            raise TranslateError(f"cast to {e[2]}")
        return v % (1 << bits)
    if k == "call":
        m = re.fullmatch(r"(?:std::mem::|mem::)?size_of::<(\w+)>", e[1])
        if m and not e[2] and m.group(1) in SIZEOF:
            return SIZEOF[m.group(1)]
        # tuple-struct constructor `Self(x)` / `Name(x)`
        if len(e[2]) == 1 and re.fullmatch(r"[A-Z]\w*", e[1]):
            return const_eval(e[2][0], env)
        raise TranslateError(f"call {e[1]} in const expr")
    if k == "bin":
        a, b = const_eval(e[2], env), const_eval(e[3], env)
        return {"+": a + b, "-": a - b, "*": a * b, "/": a // b if b else None, "%": a % b if b else None,
                "|": a | b, "&": a & b, "<<": a << b, ">>": a >> b}[e[1]]
    raise TranslateError(f"unsupported const expr {e}")


def gen_consts(modname, specs):
    """specs: list of (lean_name, path, rust_const_name, scope_prefix) evaluated in order; a constant may
    refer to earlier ones by its Rust name or `Self::NAME` / `<scope>::NAME`."""
    out = [HEADER.format(src=", ".join(sorted({s[1] for s in specs}))), f"namespace EraVerif.Gen.{modname}", ""]
    env = {}
    for lean_name, path, rust_name, scope in specs:
        src = read(path)
        if scope:
            # restrict to the `impl <scope> { ... }` block
            m = re.search(r"\bimpl\s+" + re.escape(scope) + r"\s*\{", src)
            if not m:
                raise TranslateError(f"impl {scope} not found in {path}")
            depth, i = 1, m.end()
            while depth and i < len(src):
                depth += {"{": 1, "}": -1}.get(src[i], 0)
                i += 1
            src = src[m.end():i - 1]
        ty, expr = find_const(src, rust_name)
        local = dict(env)
        if scope:
            for (k, v) in list(env.items()):
                if k.startswith(scope + "::"):
                    local["Self::" + k[len(scope) + 2:]] = v
        val = const_eval(parse_expr(expr), local)
        if val is None or val < 0:
            raise TranslateError(f"{rust_name}: bad value")
        key = (scope + "::" if scope else "") + rust_name
        env[key] = val
        env[rust_name] = val if not scope else env.get(rust_name, val)
        out.append(f"/-- `{key}` in {path}: `{expr}` -/")
        out.append(f"def {lean_name} : Nat := {val}")
    out.append("")
    out.append(f"end EraVerif.Gen.{modname}")
    return "\n".join(out) + "\n"


def gen_noise_const():
    p = "node/components/network/src/noise/stream.rs"
    return gen_consts("NoiseConst", [
        ("MAX_TRANSPORT_MSG_LEN", p, "MAX_TRANSPORT_MSG_LEN", None),
        ("AUTHDATA_LEN", p, "AUTHDATA_LEN", None),
        ("MAX_PAYLOAD_LEN", p, "MAX_PAYLOAD_LEN", None),
        ("LENGTH_FIELD_LEN", p, "LENGTH_FIELD_LEN", None),
        ("MAX_FRAME_LEN", p, "MAX_FRAME_LEN", None),
    ])


def gen_mux_const():
    h = "node/components/network/src/mux/header.rs"
    return gen_consts("MuxConst", [
        ("FRAME_OPEN", h, "OPEN", "FrameKind"),
        ("FRAME_DATA", h, "DATA", "FrameKind"),
        ("FRAME_CLOSE", h, "CLOSE", "FrameKind"),
        ("FRAME_MASK", h, "MASK", "FrameKind"),
        ("STREAM_ACCEPT", h, "ACCEPT", "StreamKind"),
        ("STREAM_CONNECT", h, "CONNECT", "StreamKind"),
        ("STREAM_MASK", h, "MASK", "StreamKind"),
        ("ID_MASK", h, "MASK", "StreamId"),
    ])


def gen_store_const():
    p = "node/libs/engine/src/block_store.rs"
    return gen_consts("StoreConst", [("CACHE_CAPACITY", p, "CACHE_CAPACITY", "BlockStore")])


# ---------------------------------------------------------------- .proto schemas

SCALARS = {"uint64": "varint", "uint32": "varint", "int64": "varint", "int32": "varint", "bool": "varint",
           "sint32": "varint", "sint64": "varint", "bytes": "len", "string": "len",
           "fixed64": "i64", "sfixed64": "i64", "double": "i64", "fixed32": "i32", "sfixed32": "i32", "float": "i32"}


def parse_proto(text, pkg_hint):
    """Returns (package, [messages]) where a message is dict(name, fields=[dict(num,name,type,label,oneof)],
    enums). Nested messages are flattened with dotted names."""
    text = strip_comments(text)
    pkg = re.search(r"\bpackage\s+([\w.]+)\s*;", text)
    pkg = pkg.group(1) if pkg else pkg_hint
    toks = re.findall(r"[A-Za-z_][\w.]*|\d+|[{}=;\[\]<>,]|\"[^\"]*\"", text)
    pos = 0
    msgs, enums = [], []

    def parse_block(prefix):
        nonlocal pos
        fields = []
        oneof = None
        stack_oneof = []
        while pos < len(toks):
            t = toks[pos]
            if t == "}":
                pos += 1
                if stack_oneof:
                    stack_oneof.pop()
                    oneof = None
                    continue
                return fields
            if t == "message":
                name = toks[pos + 1]
                assert toks[pos + 2] == "{"
                pos += 3
                sub = parse_block(prefix + name + ".")
                msgs.append({"name": prefix + name, "fields": sub})
                continue
            if t == "enum":
                name = toks[pos + 1]
                pos += 3
                vals = []
                while toks[pos] != "}":
                    if toks[pos] == "option" or toks[pos] == "reserved":
                        while toks[pos] != ";":
                            pos += 1
                        pos += 1
                        continue
                    vals.append((toks[pos], int(toks[pos + 2])))
                    pos += 3
                    while toks[pos] != ";":
                        pos += 1
                    pos += 1
                pos += 1
                enums.append({"name": prefix + name, "values": vals})
                continue
            if t == "oneof":
                oneof = toks[pos + 1]
                assert toks[pos + 2] == "{"
                pos += 3
                stack_oneof.append(oneof)
                continue
            if t in ("reserved", "option"):
                while toks[pos] != ";":
                    pos += 1
                pos += 1
                continue
            if t == "map":
                raise TranslateError("map fields are not supported by the canonical encoding")
            label = "singular"
            if t in ("optional", "repeated", "required"):
                label = t
                pos += 1
            ty, name, eq, num = toks[pos], toks[pos + 1], toks[pos + 2], toks[pos + 3]
            if eq != "=":
                raise TranslateError(f"cannot parse field near {toks[pos:pos+6]}")
            pos += 4
            while toks[pos] != ";":
                pos += 1
            pos += 1
            fields.append({"num": int(num), "name": name, "type": ty, "label": label,
                           "oneof": oneof if stack_oneof else None})
        return fields

    while pos < len(toks):
        t = toks[pos]
        if t in ("syntax", "package", "import", "option"):
            while toks[pos] != ";":
                pos += 1
            pos += 1
        elif t == "message":
            name = toks[pos + 1]
            pos += 3
            sub = parse_block(name + ".")
            msgs.append({"name": name, "fields": sub})
        elif t == "enum":
            name = toks[pos + 1]
            pos += 3
            vals = []
            while toks[pos] != "}":
                vals.append((toks[pos], int(toks[pos + 2])))
                pos += 3
                while toks[pos] != ";":
                    pos += 1
                pos += 1
            pos += 1
            enums.append({"name": name, "values": vals})
        else:
            raise TranslateError(f"unexpected top-level token {t!r}")
    return pkg, msgs, enums


def proto_files():
    res = []
    for root, dirs, files in os.walk(os.path.join(REPO, "node")):
        dirs[:] = [d for d in dirs if d not in ("target", ".git")]
        for f in files:
            if f.endswith(".proto"):
                res.append(os.path.relpath(os.path.join(root, f), REPO))
    return sorted(res)


def load_schemas():
    """All messages of all .proto files under node/, fully qualified: {fqname: fields}."""
    allmsgs, allenums, origin = {}, set(), {}
    for pf in proto_files():
        pkg, msgs, enums = parse_proto(read(pf), "")
        for m in msgs:
            fq = f"{pkg}.{m['name']}"
            allmsgs[fq] = (pkg, m)
            origin[fq] = pf
        for e in enums:
            allenums.add(f"{pkg}.{e['name']}")
    schemas = {}
    for fq, (pkg, m) in allmsgs.items():
        fields = []
        for f in m["fields"]:
            ty = f["type"]
            if ty in SCALARS:
                kind, sub = SCALARS[ty], None
            else:
                # resolve: innermost scope outward
                cands = []
                scope = fq
                while scope:
                    cands.append(scope + "." + ty)
                    scope = scope.rsplit(".", 1)[0] if "." in scope else ""
                cands.append(ty)
                hit = next((c for c in cands if c in allmsgs or c in allenums), None)
                if hit is None:
                    raise TranslateError(f"{fq}.{f['name']}: cannot resolve type {ty}")
                if hit in allenums:
                    kind, sub = "varint", None
                else:
                    kind, sub = "msg", hit
            fields.append({"num": f["num"], "name": f["name"], "kind": kind, "sub": sub,
                           "repeated": f["label"] == "repeated",
                           "optional": f["label"] == "optional" or f["oneof"] is not None or kind == "msg",
                           "oneof": f["oneof"], "scalar_type": ty if ty in SCALARS else None})
        schemas[fq] = {"fields": sorted(fields, key=lambda x: x["num"]), "file": origin[fq]}
    return schemas


def gen_schemas():
    schemas = load_schemas()
    names = sorted(schemas)
    idx = {n: i for i, n in enumerate(names)}
    out = [HEADER.format(src="every .proto under node/ (" + str(len(proto_files())) + " files)"),
           "import EraVerif.Model.WireSchema", "", "namespace EraVerif.Gen.Schemas", "open EraVerif.Model.Wire", ""]
    out.append("/-- One entry per protobuf message; sub-messages refer to entries by index. -/")
    out.append("def table : List MsgSchema := [")
    rows = []
    for n in names:
        fs = []
        for f in schemas[n]["fields"]:
            kind = {"varint": ".varint", "len": ".bytes", "i64": ".fixed64", "i32": ".fixed32"}.get(f["kind"])
            if f["kind"] == "msg":
                kind = f"(.msg {idx[f['sub']]})"
            fs.append(f"    {{ num := {f['num']}, kind := {kind}, repeated := {str(f['repeated']).lower()}, "
                      f"explicitPresence := {str(f['optional'] or f['repeated']).lower()} }}")
        rows.append(f"  -- [{idx[n]}] {n}  ({schemas[n]['file']})\n  {{ name := \"{n}\", fields := [\n" + ",\n".join(fs) + "] }")
    out.append(",\n".join(rows))
    out.append("]")
    out.append("")
    out.append("end EraVerif.Gen.Schemas")
    # side file for the harness/driver: name -> index
    meta = {n: {"index": idx[n], "file": schemas[n]["file"]} for n in names}
    return "\n".join(out) + "\n", meta


HEADER = "-- GENERATED by tools/translate.py from {src}. Do not edit: regenerated on every check run.\n"

TARGETS = {
    "Thresholds": gen_thresholds,
    "NoiseConst": gen_noise_const,
    "MuxConst": gen_mux_const,
    "StoreConst": gen_store_const,
    "Schemas": gen_schemas,
}


def write_if_changed(path, text):
    old = None
    if os.path.exists(path):
        with open(path, encoding="utf-8") as f:
            old = f.read()
    if old != text:
        with open(path, "w", encoding="utf-8") as f:
            f.write(text)
        return True
    return False


def main(argv):
    global REPO, OUT
    args = list(argv)
    if "--repo" in args:
        i = args.index("--repo")
        REPO = args[i + 1]
        del args[i:i + 2]
    if "--out" in args:
        i = args.index("--out")
        OUT = args[i + 1]
        del args[i:i + 2]
    targets = args or list(TARGETS)
    os.makedirs(OUT, exist_ok=True)
    status = {}
    rc = 0
    for t in targets:
        try:
            res = TARGETS[t]()
            meta = None
            if isinstance(res, tuple):
                res, meta = res
            changed = write_if_changed(os.path.join(OUT, t + ".lean"), res)
            if meta is not None:
                write_if_changed(os.path.join(OUT, t + ".meta.json"), json.dumps(meta, indent=1, sort_keys=True))
            status[t] = {"ok": True, "changed": changed}
        except (TranslateError, AssertionError, IndexError, KeyError, ValueError, OSError) as e:
            status[t] = {"ok": False, "error": f"{type(e).__name__}: {e}"}
            rc = 2
    print(json.dumps(status))
    return rc


if __name__ == "__main__":
    sys.exit(main(sys.argv[1:]))
