"""Per-property configuration of ./check: one file tools/reg/Cxx.py per claimed property, each defining CFG."""
import os
import importlib.util

GLOBAL_TRUSTED = [
    "Lean 4.33.0 kernel (thorough tier: re-checked by leanchecker); axioms allowed: propext, Classical.choice, Quot.sound",
    "tools/translate.py (fail-closed translator of the listed source fragments)",
    "the harness binaries (call the real functions in-process and report faithfully), the vmodel driver parsers, the diff in ./check",
    "correspondence is differential testing: agreement is shown on the generated operations only",
]

# commits in /repo that add the feature-guarded hooks (filled by hand when a hook commit is made)
HOOK_COMMITS = ["acd1c14 verif hook (bft)", "2f5a42f verif hook (network, concurrency): feature + stubs", "c2c2d23 verif hook (network): entry stub", "3658eea verif hook (bft): subscribe_proposer", "5071764 verif hook (network): wrappers", "bcba520 verif hook (concurrency): scope/ctx events", "c137d38 verif hook (network): pool lock", "25194de verif hook (network): address-book lock", "2e47b7f verif hook (bft): run_replica", "05cc44f verif hook (network): rpc capability list", "fd84299 verif hook (network): raw gossip peer for block fetch", "af487e1 verif hook (network): mux_recv_named"]

# reason shown in MANIFEST.not_applicable for properties that are not claimed (default text otherwise)
NOT_CLAIMED = {}

REGISTRY = {}
_d = os.path.join(os.path.dirname(os.path.abspath(__file__)), "reg")
for _f in sorted(os.listdir(_d)):
    if _f.startswith("C") and _f.endswith(".py"):
        _spec = importlib.util.spec_from_file_location("reg_" + _f[:-3], os.path.join(_d, _f))
        _m = importlib.util.module_from_spec(_spec)
        _spec.loader.exec_module(_m)
        REGISTRY[_f[:-3]] = _m.CFG
