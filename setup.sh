#!/bin/bash
# Offline build of the framework from files on disk: regenerate Gen/*.lean from /repo, build the Lean library
# (models, proofs, property theorems), the model driver, and the Rust harness (path-deps on /repo, feature verif).
set -e
cd "$(dirname "$0")"
export CARGO_NET_OFFLINE=true
mkdir -p .work evidence replays
python3 tools/translate.py || echo "translator reported a problem (the checks will report it per property)"
EXES=$(grep -o 'name = "vmodel_[a-z0-9_]*"' lean/lakefile.toml | cut -d\" -f2 | tr "\n" " ")
(cd lean && lake build EraVerif EraVerif.Audit.Tool $EXES 2>&1 | tail -n 15) || echo "lake build failed (the checks will report it per property)"
[ -f harness/Cargo.lock ] || cp /repo/node/Cargo.lock harness/Cargo.lock
(cd harness && cargo build --offline 2>&1 | tail -n 5) || echo "cargo build failed (the checks will report it per property)"
echo "setup done"
