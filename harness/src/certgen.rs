//! Generators of abstract certificates (valid, boundary-weight, and single-field corruptions) shared by the
//! certificate-level checks (C04, C02) and the replica checks.
use rand::{rngs::StdRng, seq::SliceRandom, Rng};

use crate::abs::*;

pub fn total(weights: &[u64]) -> u64 {
    weights.iter().sum()
}
pub fn faulty(weights: &[u64]) -> u64 {
    (total(weights) - 1) / 5
}
pub fn quorum(weights: &[u64]) -> u64 {
    total(weights) - faulty(weights)
}
pub fn subquorum(weights: &[u64]) -> u64 {
    total(weights) - 3 * faulty(weights)
}
pub fn weight_of(weights: &[u64], idx: &[usize]) -> u64 {
    idx.iter().map(|i| weights[*i]).sum()
}

pub fn random_weights(rng: &mut StdRng) -> Vec<u64> {
    let n = rng.gen_range(1..=7);
    let pool: &[u64] = match rng.gen_range(0..4) {
        0 => &[1],
        1 => &[1, 2, 3],
        2 => &[1, 2, 3, 10],
        _ => &[1, 1, 1, 2, 5],
    };
    (0..n).map(|_| *pool.choose(rng).unwrap()).collect()
}

/// A random subset of validators, biased towards weights at / just below / just above the quorum.
pub fn random_subset(rng: &mut StdRng, weights: &[u64]) -> Vec<usize> {
    let n = weights.len();
    let q = quorum(weights);
    let mode = rng.gen_range(0..6);
    if mode == 0 {
        return (0..n).filter(|_| rng.gen_bool(0.5)).collect();
    }
    // greedy: shuffle, take until reaching the target
    let mut order: Vec<usize> = (0..n).collect();
    order.shuffle(rng);
    let target = match mode {
        1 => q,
        2 => q.saturating_sub(1),
        3 => q + 1,
        4 => total(weights),
        _ => q,
    };
    let mut s = vec![];
    let mut w = 0;
    for i in order {
        if w >= target {
            break;
        }
        if mode == 2 && w + weights[i] > target {
            continue;
        }
        s.push(i);
        w += weights[i];
    }
    s.sort();
    s
}

pub fn all_subsets(n: usize) -> Vec<Vec<usize>> {
    (0..(1usize << n)).map(|m| (0..n).filter(|i| m >> i & 1 == 1).collect()).collect()
}

/// Single-field corruptions of a commit certificate. Returns (label, corrupted).
pub fn corrupt_cqc(rng: &mut StdRng, n: usize, q: &ACqc) -> Vec<(&'static str, ACqc)> {
    let mut out = vec![];
    let mut c = q.clone();
    let i = rng.gen_range(0..n.max(1));
    if n > 0 {
        c.signers[i] = !c.signers[i];
        out.push(("flip_bit", c));
    }
    let mut c = q.clone();
    c.signers.push(false);
    out.push(("bitmap_len_plus1", c));
    let mut c = q.clone();
    c.signers.pop();
    out.push(("bitmap_len_minus1", c));
    let mut c = q.clone();
    c.signers.clear();
    out.push(("bitmap_len_0", c));
    let mut c = q.clone();
    c.vote.view.v += 1;
    out.push(("view_number", c));
    let mut c = q.clone();
    c.vote.view.e = 1;
    for s in &mut c.sig {
        s.1.view.e = 1;
    }
    out.push(("epoch_consistent", c));
    let mut c = q.clone();
    c.vote.view.g = 1;
    for s in &mut c.sig {
        s.1.view.g = 1;
    }
    out.push(("genesis_consistent", c));
    let mut c = q.clone();
    c.vote.h += 1;
    out.push(("vote_content", c));
    let mut c = q.clone();
    c.vote.n += 1;
    out.push(("vote_number", c));
    if !q.sig.is_empty() {
        let k = rng.gen_range(0..q.sig.len());
        let mut c = q.clone();
        c.sig.remove(k);
        out.push(("sig_dropped", c));
        let mut c = q.clone();
        let d = c.sig[k].clone();
        c.sig.push(d);
        out.push(("sig_duplicated", c));
        let mut c = q.clone();
        c.sig[k].1.h += 7;
        out.push(("sig_other_vote", c));
        let mut c = q.clone();
        c.sig[k].0 = n + rng.gen_range(0..EXTRA_KEYS);
        out.push(("sig_nonmember", c));
        if n > 1 {
            let mut c = q.clone();
            c.sig[k].0 = (c.sig[k].0 + 1) % n;
            out.push(("sig_other_member", c));
        }
    }
    let mut c = q.clone();
    c.sig.reverse();
    out.push(("sig_reordered", c)); // still valid: aggregation is commutative
    out
}

pub fn random_vote(rng: &mut StdRng, maxview: u64) -> AVote {
    avote(rng.gen_range(0..=maxview), rng.gen_range(0..6), rng.gen_range(1..5))
}

/// A timeout vote for `view` with random (mostly plausible) high vote / high certificate.
pub fn random_tvote(rng: &mut StdRng, weights: &[u64], view: u64) -> ATVote {
    let n = weights.len();
    let hv = if rng.gen_bool(0.7) { Some(avote(rng.gen_range(0..=view), rng.gen_range(0..4), rng.gen_range(1..4))) } else { None };
    let hq = if rng.gen_bool(0.6) {
        let v = avote(rng.gen_range(0..=view + 2), rng.gen_range(0..4), rng.gen_range(1..4));
        // mostly valid (full committee), sometimes arbitrary subset
        let s: Vec<usize> = if rng.gen_bool(0.85) { (0..n).collect() } else { random_subset(rng, weights) };
        Some(acqc(n, v, &s))
    } else {
        None
    };
    ATVote { view: aview(view), hv, hq }
}

/// A timeout certificate whose groups partition `signers`.
pub fn random_tqc(rng: &mut StdRng, weights: &[u64], view: u64, signers: &[usize]) -> ATqc {
    let n = weights.len();
    let ngroups = rng.gen_range(1..=3usize).min(signers.len().max(1));
    let mut contents: Vec<ATVote> = vec![];
    while contents.len() < ngroups {
        let t = random_tvote(rng, weights, view);
        if !contents.contains(&t) {
            contents.push(t);
        }
    }
    let mut groups: Vec<(ATVote, Vec<usize>)> = contents.into_iter().map(|t| (t, vec![])).collect();
    for (k, i) in signers.iter().enumerate() {
        let g = if k < ngroups { k } else { rng.gen_range(0..ngroups) };
        groups[g].1.push(*i);
    }
    groups.retain(|g| !g.1.is_empty());
    atqc(n, aview(view), &groups)
}

pub fn corrupt_tqc(rng: &mut StdRng, weights: &[u64], q: &ATqc) -> Vec<(&'static str, ATqc)> {
    let n = weights.len();
    let mut out = vec![];
    let ng = q.map.len();
    if ng > 0 {
        let g = rng.gen_range(0..ng);
        // overlapping signer sets: copy a set bit of group g into another group (or duplicate the group content)
        if ng > 1 {
            let g2 = (g + 1) % ng;
            if let Some(i) = q.map[g].1.iter().position(|b| *b) {
                let mut c = q.clone();
                c.map[g2].1[i] = true;
                out.push(("overlap", c.clone()));
                // overlap with a matching extra signature (counted twice if accepted)
                c.sig.push((i, c.map[g2].0.clone()));
                out.push(("overlap_signed_twice", c));
            }
        }
        let mut c = q.clone();
        c.map[g].1 = vec![false; n];
        out.push(("empty_group", c));
        let mut c = q.clone();
        c.map[g].1.push(false);
        out.push(("group_len_plus1", c));
        let mut c = q.clone();
        c.map[g].1.pop();
        out.push(("group_len_minus1", c));
        let mut c = q.clone();
        c.map[g].0.view.v += 1;
        out.push(("group_view_unsigned", c.clone()));
        for s in &mut c.sig {
            if s.1 == q.map[g].0 {
                s.1.view.v += 1;
            }
        }
        out.push(("group_view_signed", c));
        // nested certificate invalid: below quorum
        let mut c = q.clone();
        let v = avote(q.view.v.saturating_sub(1), 1, 2);
        let bad = acqc(n, v, &[]);
        let old = c.map[g].0.clone();
        c.map[g].0.hq = Some(bad);
        let newt = c.map[g].0.clone();
        for s in &mut c.sig {
            if s.1 == old {
                s.1 = newt.clone();
            }
        }
        out.push(("nested_qc_no_weight", c));
        // nested certificate with a bad signature
        let mut c = q.clone();
        let v = avote(q.view.v.saturating_sub(1), 1, 2);
        let mut bad = acqc(n, v, &(0..n).collect::<Vec<_>>());
        bad.sig[0].1.h += 1;
        let old = c.map[g].0.clone();
        c.map[g].0.hq = Some(bad);
        let newt = c.map[g].0.clone();
        for s in &mut c.sig {
            if s.1 == old {
                s.1 = newt.clone();
            }
        }
        out.push(("nested_qc_bad_sig", c));
        // high vote of another chain
        let mut c = q.clone();
        let old = c.map[g].0.clone();
        c.map[g].0.hv = Some(AVote { view: AView { g: 1, e: 0, v: 0 }, n: 0, h: 1 });
        let newt = c.map[g].0.clone();
        for s in &mut c.sig {
            if s.1 == old {
                s.1 = newt.clone();
            }
        }
        out.push(("high_vote_other_genesis", c));
    }
    // two groups whose nested certificates certify the SAME vote, one genuine and one without a quorum / with a bad
    // signature, in both relative orders (a verifier that checks "one certificate per certified message" accepts these)
    if ng >= 2 && n >= 2 {
        let v = avote(q.view.v.saturating_sub(1), 1, 2);
        let all: Vec<usize> = (0..n).collect();
        let good = acqc(n, v.clone(), &all);
        for (label, bad) in [
            ("nested_same_msg_low_signer", acqc(n, v.clone(), &[0])),
            ("nested_same_msg_high_signer", acqc(n, v.clone(), &[n - 1])),
            ("nested_same_msg_bad_sig", { let mut b = acqc(n, v.clone(), &all); b.sig[0].1.h += 1; b }),
        ] {
            for swap in [false, true] {
                let mut c = q.clone();
                let (ga, gb) = if swap { (1, 0) } else { (0, 1) };
                let olda = c.map[ga].0.clone();
                let oldb = c.map[gb].0.clone();
                c.map[ga].0.hq = Some(good.clone());
                c.map[gb].0.hq = Some(bad.clone());
                // keep the two contents distinct
                if c.map[ga].0 == c.map[gb].0 {
                    continue;
                }
                let (newa, newb) = (c.map[ga].0.clone(), c.map[gb].0.clone());
                for s in &mut c.sig {
                    if s.1 == olda {
                        s.1 = newa.clone();
                    } else if s.1 == oldb {
                        s.1 = newb.clone();
                    }
                }
                out.push((label, c));
            }
        }
    }
    let mut c = q.clone();
    c.view.e = 1;
    out.push(("epoch", c));
    let mut c = q.clone();
    c.view.g = 1;
    out.push(("genesis", c));
    let mut c = q.clone();
    c.view.v += 1;
    out.push(("view_number", c));
    if !q.sig.is_empty() {
        let k = rng.gen_range(0..q.sig.len());
        let mut c = q.clone();
        c.sig.remove(k);
        out.push(("sig_dropped", c));
        let mut c = q.clone();
        let d = c.sig[k].clone();
        c.sig.push(d);
        out.push(("sig_duplicated", c));
        let mut c = q.clone();
        c.sig[k].0 = n + rng.gen_range(0..EXTRA_KEYS);
        out.push(("sig_nonmember", c));
        let mut c = q.clone();
        c.sig[k].1.hv = Some(avote(0, 9, 9));
        out.push(("sig_other_vote", c));
    }
    out
}

// ------------------------------------------------------------------------------------------------ specification
// The right-hand sides of the property (C04), computed directly from the abstract certificate: an independent
// implementation used as the oracle for the *implementation's* verdict.

fn multiset_eq<T: Ord + Clone>(a: &[T], b: &[T]) -> bool {
    let mut a = a.to_vec();
    let mut b = b.to_vec();
    a.sort();
    b.sort();
    a == b
}

pub fn spec_cqc_valid(weights: &[u64], q: &ACqc) -> bool {
    let n = weights.len();
    if q.vote.view.g != 0 || q.vote.view.e != 0 || q.signers.len() != n {
        return false;
    }
    let idx: Vec<usize> = (0..n).filter(|i| q.signers[*i]).collect();
    if weight_of(weights, &idx) < quorum(weights) {
        return false;
    }
    let expected: Vec<(usize, AVote)> = idx.iter().map(|i| (*i, q.vote.clone())).collect();
    multiset_eq(&q.sig, &expected)
}

pub fn spec_tvote_valid(weights: &[u64], t: &ATVote) -> bool {
    t.view.g == 0
        && t.view.e == 0
        && t.hv.as_ref().is_none_or(|v| v.view.g == 0 && v.view.e == 0)
        && t.hq.as_ref().is_none_or(|q| spec_cqc_valid(weights, q))
}

pub fn spec_tqc_valid(weights: &[u64], q: &ATqc) -> bool {
    let n = weights.len();
    if q.view.g != 0 || q.view.e != 0 {
        return false;
    }
    let mut seen = vec![false; n];
    let mut expected = vec![];
    for (t, s) in &q.map {
        if t.view != q.view || s.len() != n || !s.iter().any(|b| *b) {
            return false;
        }
        for i in 0..n {
            if s[i] {
                if seen[i] {
                    return false;
                }
                seen[i] = true;
                expected.push((i, t.clone()));
            }
        }
        if !spec_tvote_valid(weights, t) {
            return false;
        }
    }
    let idx: Vec<usize> = (0..n).filter(|i| seen[*i]).collect();
    if weight_of(weights, &idx) < quorum(weights) {
        return false;
    }
    multiset_eq(&q.sig, &expected)
}

/// The sub-quorum re-proposal rule of `spec/informal-spec/types.rs`, on an abstract (already verified)
/// timeout certificate: returns (implied number, implied hash).
pub fn spec_implied(weights: &[u64], first: u64, j: &AJust) -> (u64, Option<u64>) {
    match j {
        AJust::Commit(q) => (q.vote.n.wrapping_add(1), None),
        AJust::Timeout(q) => {
            let mut counts: Vec<((u64, u64), u64)> = vec![];
            for (t, s) in &q.map {
                if let Some(v) = &t.hv {
                    let w: u64 = (0..s.len().min(weights.len())).filter(|i| s[*i]).map(|i| weights[i]).sum();
                    if let Some(e) = counts.iter_mut().find(|e| e.0 == (v.n, v.h)) {
                        e.1 += w;
                    } else {
                        counts.push(((v.n, v.h), w));
                    }
                }
            }
            let big: Vec<_> = counts.iter().filter(|e| e.1 >= subquorum(weights)).collect();
            let hv = if big.len() == 1 { Some(big[0].0) } else { None };
            let mut hq: Option<&ACqc> = None;
            for (t, _) in &q.map {
                if let Some(c) = &t.hq {
                    if hq.is_none_or(|b| b.vote.view.v <= c.vote.view.v) {
                        hq = Some(c);
                    }
                }
            }
            match (hv, hq) {
                (Some((n, h)), None) => (n, Some(h)),
                (Some((n, h)), Some(c)) if n > c.vote.n => (n, Some(h)),
                (_, Some(c)) => (c.vote.n.wrapping_add(1), None),
                (None, None) => (first, None),
            }
        }
    }
}
