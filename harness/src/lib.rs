//! Shared plumbing of the correspondence / search harness. One binary per property (src/bin/cXX.rs):
//!
//!   cXX --seed S --n N --out DIR [--tier quick|thorough] [--corpus DIR] [--replay FILE]
//!
//! generates operations from a single PRNG state, executes them on the real code (in-process) and writes
//!   DIR/ops.jsonl    one operation per line (input of the Lean model driver)
//!   DIR/impl.jsonl   the implementation's canonicalised observation per operation
//!   DIR/oracle.jsonl property-monitor failures found on the implementation alone (S)
//!   DIR/stats.json   generator statistics (operation mix, outcome classes, sizes)
pub mod abs;
pub mod certgen;
pub mod sim;
pub mod replica;
pub mod netsim;

use std::{cell::RefCell, collections::BTreeMap, fs::File, io::{BufWriter, Write}, path::PathBuf};

use rand::{rngs::StdRng, SeedableRng};
use serde_json::{json, Value};

thread_local! {
    pub static LAST_PANIC: RefCell<Option<String>> = const { RefCell::new(None) };
    /// depth of `catch` / `catch_async` scopes on this thread: a panic outside them is a harness bug and is printed
    pub static IN_CATCH: RefCell<usize> = const { RefCell::new(0) };
}

pub fn panic_site(info: &std::panic::PanicHookInfo<'_>) -> String {
    let loc = info
        .location()
        .map(|l| {
            let f = l.file();
            // keep the path relative to the repository
            let f = f.split("/repo/").last().unwrap_or(f);
            format!("{}:{}", f, l.line())
        })
        .unwrap_or_else(|| "?".into());
    let msg = if let Some(s) = info.payload().downcast_ref::<&str>() {
        s.to_string()
    } else if let Some(s) = info.payload().downcast_ref::<String>() {
        s.clone()
    } else {
        String::new()
    };
    format!("{loc}: {msg}")
}

/// Runs `f`, turning a panic into `Err(site)`.
pub fn catch<T>(f: impl FnOnce() -> T) -> Result<T, String> {
    LAST_PANIC.with(|p| *p.borrow_mut() = None);
    IN_CATCH.with(|c| *c.borrow_mut() += 1);
    let r = std::panic::catch_unwind(std::panic::AssertUnwindSafe(f));
    IN_CATCH.with(|c| *c.borrow_mut() -= 1);
    match r {
        Ok(v) => Ok(v),
        Err(_) => Err(LAST_PANIC.with(|p| p.borrow_mut().take()).unwrap_or_else(|| "?".into())),
    }
}

#[derive(Debug, Clone)]
pub struct Opts {
    pub seed: u64,
    pub n: usize,
    pub out: PathBuf,
    pub thorough: bool,
    pub replay: Option<PathBuf>,
    pub corpus: Option<PathBuf>,
}

impl Opts {
    pub fn parse(args: &[String]) -> Self {
        let mut o = Opts { seed: 0, n: 1000, out: PathBuf::from("."), thorough: false, replay: None, corpus: None };
        let mut i = 0;
        while i < args.len() {
            match args[i].as_str() {
                "--seed" => { o.seed = args[i + 1].parse().expect("seed"); i += 1; }
                "--n" => { o.n = args[i + 1].parse().expect("n"); i += 1; }
                "--out" => { o.out = PathBuf::from(&args[i + 1]); i += 1; }
                "--tier" => { o.thorough = args[i + 1] == "thorough"; i += 1; }
                "--corpus" => { o.corpus = Some(PathBuf::from(&args[i + 1])); i += 1; }
                "--replay" => { o.replay = Some(PathBuf::from(&args[i + 1])); i += 1; }
                x => panic!("unknown option {x}"),
            }
            i += 1;
        }
        o
    }
    pub fn rng(&self) -> StdRng {
        StdRng::seed_from_u64(self.seed)
    }
}

/// Output files of one harness run.
pub struct Out {
    ops: BufWriter<File>,
    imp: BufWriter<File>,
    oracle: BufWriter<File>,
    dir: PathBuf,
    pub n_ops: usize,
    pub n_oracle_fail: usize,
    pub hist: BTreeMap<String, u64>,
}

impl Out {
    pub fn new(opts: &Opts) -> anyhow::Result<Self> {
        std::fs::create_dir_all(&opts.out)?;
        Ok(Self {
            ops: BufWriter::new(File::create(opts.out.join("ops.jsonl"))?),
            imp: BufWriter::new(File::create(opts.out.join("impl.jsonl"))?),
            oracle: BufWriter::new(File::create(opts.out.join("oracle.jsonl"))?),
            dir: opts.out.clone(),
            n_ops: 0,
            n_oracle_fail: 0,
            hist: BTreeMap::new(),
        })
    }
    /// One operation and the implementation's observation of it.
    pub fn emit(&mut self, op: Value, obs: Value) {
        writeln!(self.ops, "{}", op).unwrap();
        writeln!(self.imp, "{}", obs).unwrap();
        self.n_ops += 1;
    }
    /// A failure of the property's monitor on the implementation (independent of the model).
    /// `site` identifies the failing call site / input class (matched against known-findings.jsonl).
    pub fn oracle_fail(&mut self, site: &str, what: &str, input: Value) {
        writeln!(self.oracle, "{}", json!({"site": site, "what": what, "input": input})).unwrap();
        self.n_oracle_fail += 1;
    }
    /// `oracle_fail` for stateful properties: `ops` (the operation lines of the failing case, from its reset/init
    /// line up to the failing operation) is stored at the top level of the record, which is where `./check` takes
    /// the replay's operation list from.
    pub fn oracle_fail_ops(&mut self, site: &str, what: &str, input: Value, ops: &[Value]) {
        writeln!(self.oracle, "{}", json!({"site": site, "what": what, "input": input, "ops": ops})).unwrap();
        self.n_oracle_fail += 1;
    }
    pub fn count(&mut self, key: &str) {
        *self.hist.entry(key.to_string()).or_default() += 1;
    }
    pub fn finish(mut self, extra: Value) -> anyhow::Result<()> {
        self.ops.flush()?;
        self.imp.flush()?;
        self.oracle.flush()?;
        let stats = json!({"ops": self.n_ops, "oracle_failures": self.n_oracle_fail, "histogram": self.hist, "extra": extra});
        std::fs::write(self.dir.join("stats.json"), serde_json::to_vec_pretty(&stats)?)?;
        Ok(())
    }
}

/// One property's generator + executor. `gen` produces the operation lines from `opts` (single PRNG);
/// `exec` runs one operation on the real code, returns its canonical observation, and reports monitor
/// failures through `out.oracle_fail`. Replay re-executes the operation lines of a replay file.
pub trait Prop {
    fn gen(&mut self, opts: &Opts) -> Vec<Value>;
    fn exec(&mut self, op: &Value, out: &mut Out) -> Value;
    fn extra_stats(&self) -> Value {
        json!({})
    }
    /// Adaptive mode: generation interleaved with execution (the generator looks at the implementation's state).
    /// Returns true if it generated, executed and emitted everything itself.
    fn adaptive(&mut self, _opts: &Opts, _out: &mut Out) -> bool {
        false
    }
}

pub fn drive(p: &mut dyn Prop, opts: &Opts) -> anyhow::Result<()> {
    let mut out = Out::new(opts)?;
    let ops: Vec<Value> = match &opts.replay {
        Some(path) => {
            let v: Value = serde_json::from_slice(&std::fs::read(path)?)?;
            v["ops"].as_array().cloned().unwrap_or_default()
        }
        None => {
            // corpus first (minimised past disagreements and directed scenarios), then generated cases
            let mut ops = vec![];
            if let Some(c) = &opts.corpus {
                if let Ok(rd) = std::fs::read_dir(c) {
                    let mut files: Vec<_> = rd.filter_map(|e| e.ok()).map(|e| e.path()).collect();
                    files.sort();
                    for f in files {
                        if let Ok(txt) = std::fs::read_to_string(&f) {
                            for line in txt.lines() {
                                let line = line.trim();
                                if line.is_empty() || line.starts_with('#') { continue; }
                                if let Ok(v) = serde_json::from_str::<Value>(line) { ops.push(v); }
                            }
                        }
                    }
                }
            }
            ops.extend(p.gen(opts));
            ops
        }
    };
    for op in &ops {
        let obs = p.exec(op, &mut out);
        out.emit(op.clone(), obs);
    }
    if opts.replay.is_none() {
        p.adaptive(opts, &mut out);
    }
    let extra = p.extra_stats();
    out.finish(extra)
}

/// Entry point used by every property binary.
pub fn main_for(p: &mut dyn Prop) {
    let args: Vec<String> = std::env::args().collect();
    let opts = Opts::parse(&args[1..]);
    // Panics inside the code under test are observations, not harness failures; keep stderr quiet.
    std::panic::set_hook(Box::new(|info| {
        let site = panic_site(info);
        if IN_CATCH.with(|c| *c.borrow()) == 0 {
            eprintln!("harness panic (outside catch): {site}");
        }
        LAST_PANIC.with(|p| *p.borrow_mut() = Some(site));
    }));
    if let Err(e) = drive(p, &opts) {
        eprintln!("harness error: {e:#}");
        std::process::exit(3);
    }
    // skip destructors: background tasks of the code under test (scopes) must not be dropped mid-flight
    std::process::exit(0);
}

/// Async version of `catch`: a panic raised while polling `fut` becomes `Err(site)`.
pub async fn catch_async<F: std::future::Future>(fut: F) -> Result<F::Output, String> {
    let mut fut = Box::pin(fut);
    LAST_PANIC.with(|p| *p.borrow_mut() = None);
    std::future::poll_fn(move |cx| {
        IN_CATCH.with(|c| *c.borrow_mut() += 1);
        let r = std::panic::catch_unwind(std::panic::AssertUnwindSafe(|| fut.as_mut().poll(cx)));
        IN_CATCH.with(|c| *c.borrow_mut() -= 1);
        match r {
            Ok(std::task::Poll::Ready(v)) => std::task::Poll::Ready(Ok(v)),
            Ok(std::task::Poll::Pending) => std::task::Poll::Pending,
            Err(_) => std::task::Poll::Ready(Err(LAST_PANIC.with(|p| p.borrow_mut().take()).unwrap_or_else(|| "?".into()))),
        }
    })
    .await
}
