//! Multi-replica simulation of *real* replicas (C01 agreement, C06 progress): N validators, of which a set holding
//! at most f weight is Byzantine (played by the harness, which signs anything with their keys); every correct
//! validator is a real `StateMachine` (bft verif hook) over its own crash-injecting store. An adversarial scheduler
//! delivers / drops / duplicates / reorders messages, partitions, fires timers, crashes and restarts replicas; then a
//! fair synchronous suffix must make every correct replica commit new blocks.
//!
//! Every step of every real replica is also emitted as an op line for the Layer-I model (`rid` = replica index),
//! so the model is compared with the implementation along the whole simulation.
use std::collections::{BTreeMap, VecDeque};

use rand::{rngs::StdRng, seq::SliceRandom, Rng};
use serde_json::{json, Value};
use zksync_consensus_roles::validator::{self, v2};

use crate::{
    abs::*,
    certgen::*,
    replica::{abs_just, self_monitors, Monitor},
    sim::*,
    Opts, Out, Prop,
};

#[derive(Clone)]
struct Packet {
    to: usize,
    /// abstract message (the `msg` field of an op line), with the sender
    from: usize,
    sig_ok: bool,
    msg: Value,
}

pub struct NetSim {
    pub progress: bool,
    rt: tokio::runtime::Runtime,
    /// a stall was found: stop generating further (expensive, equally stalling) cases
    stalled: std::cell::Cell<bool>,
}

struct Cluster {
    w: World,
    weights: Vec<u64>,
    byz: Vec<usize>,
    rigs: BTreeMap<usize, Rig>,
    mons: BTreeMap<usize, Monitor>,
    pool: Vec<Packet>,
    /// pending proposer notifications: (replica, abstract justification)
    proposals: VecDeque<(usize, AJust)>,
    /// every certificate the adversary has seen (from honest messages), for lying timeout votes
    seen_qcs: Vec<ACqc>,
    fresh: u64,
    /// steps are run on the real replicas and monitored, but not compared with the model (slow-storage episodes:
    /// the model has no notion of a handler waiting for the disk)
    unmodelled: bool,
}

fn sel() -> validator::LeaderSelection {
    validator::LeaderSelection { frequency: 1, mode: validator::LeaderSelectionMode::RoundRobin }
}

impl NetSim {
    pub fn new(progress: bool) -> Self {
        Self { progress, rt: tokio::runtime::Builder::new_current_thread().enable_all().build().unwrap(), stalled: std::cell::Cell::new(false) }
    }
}

impl Cluster {
    fn n(&self) -> usize {
        self.weights.len()
    }
    fn correct(&self) -> Vec<usize> {
        (0..self.n()).filter(|i| !self.byz.contains(i)).collect()
    }
    fn leader(&self, view: u64) -> usize {
        self.w.schedule.index(&self.w.schedule.view_leader(validator::ViewNumber(view))).unwrap()
    }

    fn abs_msg(&mut self, m: &validator::ConsensusMsg) -> Value {
        let n = self.n();
        let validator::ConsensusMsg::V2(m) = m;
        match m {
            v2::ChonkyMsg::ReplicaCommit(v) => json!({"commit": self.w.a_vote(v)}),
            v2::ChonkyMsg::ReplicaTimeout(t) => {
                let hv = t.high_vote.as_ref().map(|v| self.w.a_vote(v));
                let hq = t.high_qc.as_ref().map(|c| {
                    let signers: Vec<usize> = (0..n).filter(|i| c.signers.0[*i]).collect();
                    let v = self.w.a_vote(&c.message);
                    acqc(n, v, &signers)
                });
                if let Some(q) = &hq {
                    if !self.seen_qcs.contains(q) {
                        self.seen_qcs.push(q.clone());
                    }
                }
                json!({"timeout": ATVote { view: self.w.a_view(&t.view), hv, hq }})
            }
            v2::ChonkyMsg::ReplicaNewView(nv) => {
                let j = abs_just(&mut self.w, n, &nv.justification);
                if let AJust::Commit(q) = &j {
                    if !self.seen_qcs.contains(q) {
                        self.seen_qcs.push(q.clone());
                    }
                }
                json!({"newview": j})
            }
            v2::ChonkyMsg::LeaderProposal(p) => {
                let j = abs_just(&mut self.w, n, &p.justification);
                let pid = p.proposal_payload.as_ref().map(|p| self.w.payload_id(p));
                json!({"proposal": {"payload": pid, "just": j}})
            }
        }
    }

    fn broadcast(&mut self, from: usize, sig_ok: bool, msg: Value) {
        for to in self.correct() {
            self.pool.push(Packet { to, from, sig_ok, msg: msg.clone() });
        }
    }

    fn env(&self, rid: usize) -> Value {
        let rig = &self.rigs[&rid];
        json!({
            "queued_first": rig.manager.queued().first.0,
            "persisted_next": rig.engine.persisted_next(),
            "store_next": rig.manager.queued().next().0,
        })
    }

    /// Block sync: copy blocks a replica is missing from any other correct replica's store (side channel).
    fn sync_blocks(&mut self, rid: usize) {
        let next = self.rigs[&rid].engine.persisted_next();
        let mut found: Vec<validator::Block> = vec![];
        let mut want = next;
        loop {
            let mut got = None;
            for (j, rig) in &self.rigs {
                if *j == rid {
                    continue;
                }
                if let Some(b) = rig.engine.0.blocks.lock().unwrap().get(&want) {
                    got = Some(b.clone());
                    break;
                }
            }
            match got {
                Some(b) => {
                    found.push(b);
                    want += 1;
                }
                None => break,
            }
        }
        for b in found {
            self.rigs[&rid].engine.persist_block(b);
        }
    }
}

/// Lets the stores' background tasks catch up (the manager's view of what is persisted follows the storage's
/// watch channel asynchronously).
fn settle(rt: &tokio::runtime::Runtime) {
    rt.block_on(async {
        for _ in 0..24 {
            tokio::task::yield_now().await;
        }
    });
}

impl NetSim {
    /// One real replica step; emits the op line + observation; routes the effects.
    fn step(&self, c: &mut Cluster, rid: usize, mut op: Value, out: &mut Out) {
        let _g = self.rt.enter();
        let kind = op["op"].as_str().unwrap().to_string();
        out.count(&format!("op={kind}"));
        let mut env = c.env(rid);
        op["rid"] = json!(rid);
        let obs = if kind == "tick" {
            op["env"] = env;
            let rig = c.rigs.get_mut(&rid).unwrap();
            self.rt.block_on(rig.step_tick(None))
        } else if kind == "restart" {
            let rig = c.rigs.get_mut(&rid).unwrap();
            if c.unmodelled {
                self.rt.block_on(rig.restart_full(&c.w));
            } else {
                self.rt.block_on(rig.start(&c.w));
            }
            let mon = c.mons.get_mut(&rid).unwrap();
            mon.last_hcqc = None;
            mon.last_htqc = None;
            let snap = sum_snapshot(&mut c.w, &c.rigs[&rid].snapshot());
            if c.unmodelled {
                out.emit(op, json!({"_class":"restarted","_unmodelled":true}));
            } else {
                out.emit(op, json!({"class":"restarted","snap":snap}));
            }
            return;
        } else {
            let from = op["from"].as_u64().unwrap() as usize;
            let sig_ok = op["sig_ok"].as_bool().unwrap_or(true);
            let m = op["msg"].clone();
            let mut payload_id = None;
            let cm = if let Some(v) = m.get("commit") {
                let a: AVote = serde_json::from_value(v.clone()).unwrap();
                v2::ChonkyMsg::ReplicaCommit(c.w.vote(&a))
            } else if let Some(v) = m.get("timeout") {
                let a: ATVote = serde_json::from_value(v.clone()).unwrap();
                v2::ChonkyMsg::ReplicaTimeout(c.w.tvote(&a))
            } else if let Some(v) = m.get("newview") {
                let a: AJust = serde_json::from_value(v.clone()).unwrap();
                let (j, a2) = c.w.just(&a);
                op["msg"]["newview"] = serde_json::to_value(&a2).unwrap();
                v2::ChonkyMsg::ReplicaNewView(v2::ReplicaNewView { justification: j })
            } else {
                let p = &m["proposal"];
                let a: AJust = serde_json::from_value(p["just"].clone()).unwrap();
                let (j, a2) = c.w.just(&a);
                op["msg"]["proposal"]["just"] = serde_json::to_value(&a2).unwrap();
                payload_id = p["payload"].as_u64();
                let payload = payload_id.map(|id| c.w.payload(id));
                v2::ChonkyMsg::LeaderProposal(v2::LeaderProposal { proposal_payload: payload, justification: j })
            };
            env["payload_ok"] = json!(payload_id.is_none_or(payload_ok));
            op["env"] = env;
            let signed = c.w.signed(from, cm, !sig_ok);
            let rig = c.rigs.get_mut(&rid).unwrap();
            self.rt.block_on(rig.step_msg(signed, None))
        };
        let mut class = obs.class.clone();
        let mut why = Value::Null;
        if let Some(rest) = class.strip_prefix("rejected:") {
            why = json!(rest);
            class = "rejected".into();
        }
        if class.starts_with("panic:") {
            let site = class[6..].to_string();
            out.oracle_fail(&site, "replica handler panicked in the simulation", op.clone());
            out.emit(op, json!({"panic": site}));
            return;
        }
        out.count(&format!("class={class}"));
        // `queue_next_block` is called by the store's background task: its position relative to the handler's own
                // effects is scheduling-dependent, so queue effects are listed after the others (DESIGN 2.3, canonicalisation)
                let mut effects: Vec<Value> = obs.events.iter().filter(|e| !matches!(e, Ev::Queue(_))).map(|e| sum_event(&mut c.w, e)).collect();
                effects.extend(obs.events.iter().filter(|e| matches!(e, Ev::Queue(_))).map(|e| sum_event(&mut c.w, e)));
        // route the effects
        for e in &obs.events {
            match e {
                Ev::Send(m) => {
                    let a = c.abs_msg(&m.msg);
                    c.broadcast(rid, true, a);
                }
                Ev::Notify(j) => {
                    let n = c.n();
                    let aj = abs_just(&mut c.w, n, j);
                    c.proposals.push_back((rid, aj));
                }
                _ => {}
            }
        }
        if c.rigs[&rid].dead {
            // blocked on a missing block (or on a slow disk): the node restarts; block sync brings the missing blocks
            c.sync_blocks(rid);
            settle(&self.rt);
            let rig = c.rigs.get_mut(&rid).unwrap();
            if c.unmodelled {
                self.rt.block_on(rig.restart_full(&c.w));
            } else {
                self.rt.block_on(rig.start(&c.w));
            }
            let mon = c.mons.get_mut(&rid).unwrap();
            mon.last_hcqc = None;
            mon.last_htqc = None;
        }
        let snap = c.rigs[&rid].snapshot();
        {
            let mon = c.mons.get_mut(&rid).unwrap();
            mon.accepted_last = class == "accepted";
            self_monitors(mon, &c.w, &c.rigs[&rid], &obs.events, &snap, &op, out);
        }
        let snapj = sum_snapshot(&mut c.w, &snap);
        if c.unmodelled {
            out.emit(op.clone(), json!({"_class": class, "_unmodelled": true}));
        } else {
            out.emit(op.clone(), json!({"class": class, "_why": why, "effects": effects, "snap": snapj}));
        }
        self.check_agreement(c, &op, out);
    }

    /// C01: equal payload per block number across all correct stores; a stored block never changes.
    fn check_agreement(&self, c: &mut Cluster, op: &Value, out: &mut Out) {
        let mut canon: BTreeMap<u64, validator::PayloadHash> = BTreeMap::new();
        for (rid, rig) in &c.rigs {
            for (n, b) in rig.engine.0.blocks.lock().unwrap().iter() {
                let h = b.payload().hash();
                match canon.get(n) {
                    None => {
                        canon.insert(*n, h);
                    }
                    Some(h0) if *h0 != h => {
                        out.oracle_fail("agreement", &format!("two correct nodes hold different payloads for block {n} (replica {rid})"), op.clone());
                    }
                    _ => {}
                }
            }
        }
    }

    fn propose(&self, c: &mut Cluster, out: &mut Out) {
        let _g = self.rt.enter();
        let Some((rid, aj)) = c.proposals.pop_front() else { return };
        let view = match &aj {
            AJust::Commit(q) => q.vote.view.v + 1,
            AJust::Timeout(q) => q.view.v + 1,
        };
        if c.leader(view) != rid {
            return;
        }
        let (rj, _) = c.w.just(&aj);
        let rig = &c.rigs[&rid];
        let ctx = rig.root.with_timeout(zksync_concurrency::time::Duration::milliseconds(10));
        let clock = rig.clock.clone();
        let r = rig.replica.as_ref().unwrap();
        let np = *rig.engine.0.next_payload.lock().unwrap();
        let np = if payload_ok(np) { np } else { np + 1 };
        // make payload ids unique across replicas: replica index in the high digits
        *rig.engine.0.next_payload.lock().unwrap() = np.max(1000 * (rid as u64 + 1) + c.fresh);
        c.fresh += 1;
        let np = *rig.engine.0.next_payload.lock().unwrap();
        let np = if payload_ok(np) { np } else { np + 1 };
        let mut op = json!({"op":"propose","rid":rid,"just":aj,"fresh":np});
        op["env"] = c.env(rid);
        let res = self.rt.block_on(async {
            let fut = r.create_proposal(&ctx, rj);
            tokio::pin!(fut);
            let mut x = run_until_idle(fut.as_mut(), 6).await;
            if x.is_none() {
                clock.advance(zksync_concurrency::time::Duration::milliseconds(20));
                x = run_until_idle(fut.as_mut(), 20).await;
            }
            x
        });
        match res {
            Some(Ok(p)) => {
                let m = validator::ConsensusMsg::V2(v2::ChonkyMsg::LeaderProposal(p));
                let sm = sum_msg(&mut c.w, &m);
                let a = c.abs_msg(&m);
                c.broadcast(rid, true, a);
                if c.unmodelled { out.emit(op, json!({"_class":"proposal","_unmodelled":true})); } else { out.emit(op, json!({"class":"proposal","msg":sm})); }
            }
            _ => {
                if c.unmodelled { out.emit(op, json!({"_class":"waiting","_unmodelled":true})); } else { out.emit(op, json!({"class":"waiting"})); }
            }
        }
    }

    /// A Byzantine validator does something nasty.
    fn byzantine(&self, c: &mut Cluster, rng: &mut StdRng) {
        if c.byz.is_empty() {
            return;
        }
        let b = *c.byz.choose(rng).unwrap();
        let n = c.n();
        let correct = c.correct();
        let maxview = c.rigs.values().map(|r| r.snapshot().view.0).max().unwrap_or(0);
        let someview = rng.gen_range(maxview.saturating_sub(1)..=maxview + 1);
        match rng.gen_range(0..7) {
            // equivocating proposal: two different payloads for the same view, to two halves
            0 => {
                let view = (maxview..maxview + n as u64 + 1).find(|v| c.leader(*v) == b).unwrap_or(maxview + 1);
                if view == 0 {
                    return;
                }
                // justification: the highest certificate the adversary has seen for view-1, else skip
                let Some(q) = c.seen_qcs.iter().filter(|q| q.vote.view.v + 1 == view).last().cloned() else { return };
                for (k, to) in correct.iter().enumerate() {
                    c.fresh += 1;
                    let pid = 50_000 + 2 * c.fresh + (k % 2) as u64;
                    let pid = if payload_ok(pid) { pid } else { pid + 2 };
                    c.pool.push(Packet { to: *to, from: b, sig_ok: true, msg: json!({"proposal": {"payload": pid, "just": AJust::Commit(q.clone())}}) });
                }
            }
            // conflicting commit votes to different replicas
            1 => {
                for to in &correct {
                    let v = avote(someview, rng.gen_range(0..4), rng.gen_range(1..4));
                    c.pool.push(Packet { to: *to, from: b, sig_ok: true, msg: json!({"commit": v}) });
                }
            }
            // the same commit vote the honest ones cast (helps quorums form) — or withheld from some
            2 => {
                let hv = c.rigs.values().filter_map(|r| r.snapshot().high_vote).last();
                if let Some(hv) = hv {
                    let a = c.w.a_vote(&hv);
                    for to in &correct {
                        if rng.gen_bool(0.7) {
                            c.pool.push(Packet { to: *to, from: b, sig_ok: true, msg: json!({"commit": a}) });
                        }
                    }
                }
            }
            // lying timeout votes: arbitrary high vote, any certificate seen (or none)
            3 => {
                for to in &correct {
                    let hv = if rng.gen_bool(0.6) { Some(avote(someview, rng.gen_range(0..5), rng.gen_range(1..4))) } else { None };
                    let hq = if rng.gen_bool(0.5) { c.seen_qcs.choose(rng).cloned() } else { None };
                    c.pool.push(Packet { to: *to, from: b, sig_ok: true, msg: json!({"timeout": ATVote { view: aview(someview), hv, hq }}) });
                }
            }
            // timeout votes reporting an honest replica's block through a vote of an OLDER view (as after a partially
            // delivered re-proposal): the sub-quorum must be counted per block, not per vote
            6 => {
                let hv = c.rigs.values().filter_map(|r| r.snapshot().high_vote).last();
                if let Some(hv) = hv {
                    let mut a = c.w.a_vote(&hv);
                    a.view.v = a.view.v.saturating_sub(1);
                    let hq = c.seen_qcs.iter().filter(|q| q.vote.n < a.n).last().cloned();
                    for to in &correct {
                        c.pool.push(Packet { to: *to, from: b, sig_ok: true, msg: json!({"timeout": ATVote { view: aview(someview), hv: Some(a.clone()), hq: hq.clone() }}) });
                    }
                }
            }
            // stale but valid new-view
            4 => {
                if let Some(q) = c.seen_qcs.choose(rng).cloned() {
                    for to in &correct {
                        c.pool.push(Packet { to: *to, from: b, sig_ok: true, msg: json!({"newview": AJust::Commit(q.clone())}) });
                    }
                }
            }
            // garbage: badly signed or wrong-chain vote
            _ => {
                let mut v = avote(someview, 0, 1);
                if rng.gen_bool(0.5) {
                    v.view.g = 1;
                }
                for to in &correct {
                    c.pool.push(Packet { to: *to, from: b, sig_ok: rng.gen_bool(0.5), msg: json!({"commit": v}) });
                }
            }
        }
    }

    /// one fair round: the timers of all correct replicas fire, then everything is delivered in order until quiescent
    /// (Byzantine validators silent, blocks fetchable)
    fn fair_round(&self, c: &mut Cluster, correct: &[usize], out: &mut Out) {
        for i in correct {
            self.step(c, *i, json!({"op":"tick"}), out);
        }
        let mut guard = 0;
        while (!c.pool.is_empty() || !c.proposals.is_empty()) && guard < 5000 {
            guard += 1;
            if !c.proposals.is_empty() {
                self.propose(c, out);
                continue;
            }
            let p = c.pool.remove(0);
            if c.byz.contains(&p.from) {
                continue;
            }
            self.step(c, p.to, json!({"op":"msg","from":p.from,"sig_ok":p.sig_ok,"msg":p.msg}), out);
            for i in correct {
                c.sync_blocks(*i);
            }
            settle(&self.rt);
        }
    }

    fn run_case(&self, case_idx: usize, rng: &mut StdRng, steps: usize, out: &mut Out) {
        let _g = self.rt.enter();
        // committee with at most f weight Byzantine
        // progress runs: mostly the smallest committee with f = 1 (a fair round costs n² deliveries)
        let weights: Vec<u64> = match if self.progress { rng.gen_range(0..5) } else { rng.gen_range(0..8) } {
            0 | 1 | 2 => vec![1; 6],
            3 => vec![1; 7],
            4 => vec![2, 1, 1, 1, 1, 1],
            5 => vec![1; 4], // f = 0: crashes, loss and partitions only
            6 => vec![2, 1, 1, 1, 1, 1, 2, 1, 1],
            _ => vec![1; 11],
        };
        let n = weights.len();
        let f = faulty(&weights);
        let mut byz = vec![];
        let mut order: Vec<usize> = (0..n).collect();
        order.shuffle(rng);
        let mut bw = 0;
        for i in order {
            if bw + weights[i] <= f && rng.gen_bool(0.9) {
                bw += weights[i];
                byz.push(i);
            }
        }
        let wseed = rng.gen_range(0..100000u64);
        // agreement runs (no progress bound to meet): every third case uses a leader schedule other than "everybody,
        // round-robin, every view" — a subset of eligible leaders, a rotation period, weighted selection
        let (leaders, sel_) = if !self.progress && case_idx % 3 == 0 {
            let mut l: Vec<bool> = (0..n).map(|_| rng.gen_bool(0.6)).collect();
            if !l.iter().any(|x| *x) {
                l[rng.gen_range(0..n)] = true;
            }
            let mode = if rng.gen_bool(0.5) { validator::LeaderSelectionMode::Weighted } else { validator::LeaderSelectionMode::RoundRobin };
            (l, validator::LeaderSelection { frequency: *[1u64, 2, 3].choose(rng).unwrap(), mode })
        } else {
            (vec![true; n], sel())
        };
        let varied = leaders.iter().any(|x| !*x) || sel_ != sel();
        let w = World::new(wseed, &weights, &leaders, sel_, 0);
        let leader_table: Vec<usize> = (0..512u64).map(|v| w.schedule.index(&w.schedule.view_leader(validator::ViewNumber(v))).unwrap()).collect();
        let mut c = Cluster { w, weights: weights.clone(), byz: byz.clone(), rigs: BTreeMap::new(), mons: BTreeMap::new(), pool: vec![], proposals: VecDeque::new(), seen_qcs: vec![], fresh: 0, unmodelled: false };
        for i in c.correct() {
            let rig = self.rt.block_on(Rig::new(&c.w, i));
            c.rigs.insert(i, rig);
            c.mons.insert(i, Monitor::default());
            out.emit(
                if varied {
                    json!({"op":"init","reset": i == c.correct()[0],"rid":i,"weights":weights,"first":0,"wseed":wseed,"me":i,"max_payload":MAX_PAYLOAD,"byz":byz,"leader_table":leader_table})
                } else {
                    json!({"op":"init","reset": i == c.correct()[0],"rid":i,"weights":weights,"first":0,"wseed":wseed,"me":i,"max_payload":MAX_PAYLOAD,"byz":byz})
                },
                json!({"class":"init"}),
            );
        }
        let correct = c.correct();
        // every replica starts by timing out view 0 (as `run` does)
        for i in &correct {
            self.step(&mut c, *i, json!({"op":"tick"}), out);
        }
        let heads_before = |c: &Cluster| -> Vec<u64> { c.rigs.values().map(|r| r.engine.persisted_next()).collect() };
        // ---- adversarial prefix
        let adv_steps = if self.progress { steps / 2 } else { steps };
        let mut partition: Option<Vec<usize>> = None;
        let mut calm = true;
        let mut step_no = 0usize;
        for _ in 0..adv_steps {
            // the prefix alternates between calm phases (timers rarely fire, little loss: views complete and blocks get
            // committed) and storms (timers, loss, restarts, partitions, Byzantine traffic), 250 steps each
            if step_no % 250 == 0 {
                calm = rng.gen_bool(0.55);
                if calm {
                    partition = None;
                }
                out.count(if calm { "phase=calm" } else { "phase=storm" });
            }
            step_no += 1;
            let (p_tick, p_byz, p_restart, p_part, p_loss) = if calm { (1, 3, 0, 0, 0.02) } else { (7, 9, 3, 3, 0.14) };
            // a leader that entered a view proposes soon (its proposer task runs concurrently with the replica)
            if !c.proposals.is_empty() && rng.gen_bool(if calm { 0.5 } else { 0.2 }) {
                self.propose(&mut c, out);
                continue;
            }
            let roll = rng.gen_range(0..100);
            let mut edge = p_tick;
            if roll < edge {
                let i = *correct.choose(rng).unwrap();
                self.step(&mut c, i, json!({"op":"tick"}), out);
                // the timer of the same replica expires again before anything else happens (re-send path)
                if rng.gen_bool(0.35) {
                    self.step(&mut c, i, json!({"op":"tick"}), out);
                }
                continue;
            }
            edge += p_byz;
            if roll < edge {
                self.byzantine(&mut c, rng);
                continue;
            }
            edge += p_restart;
            if roll < edge {
                let i = *correct.choose(rng).unwrap();
                self.step(&mut c, i, json!({"op":"restart"}), out);
                continue;
            }
            edge += p_part;
            if roll < edge {
                partition = if partition.is_some() { None } else { let k = rng.gen_range(1..n); Some((0..n).filter(|_| rng.gen_bool(k as f64 / n as f64)).collect()) };
                continue;
            }
            edge += 2;
            if roll < edge {
                let i = *correct.choose(rng).unwrap();
                c.sync_blocks(i);
                settle(&self.rt);
                continue;
            }
            edge += 1;
            if roll < edge {
                if c.pool.len() > 400 {
                    c.pool.drain(..200);
                }
                continue;
            }
            if c.pool.is_empty() {
                // nothing in flight: somebody's timer fires
                let i = *correct.choose(rng).unwrap();
                self.step(&mut c, i, json!({"op":"tick"}), out);
                continue;
            }
            // deliver a pending packet — mostly a recent one, sometimes any (reordering across views) —, maybe duplicate
            // it, maybe drop it
            let len = c.pool.len();
            let k = if rng.gen_bool(0.75) { len - 1 - rng.gen_range(0..len.min(3 * n)) } else { rng.gen_range(0..len) };
            let p = if rng.gen_bool(0.1) { c.pool[k].clone() } else { c.pool.swap_remove(k) };
            if rng.gen_bool(p_loss) {
                continue; // lost
            }
            if let Some(part) = &partition {
                if part.contains(&p.to) != part.contains(&p.from) && rng.gen_bool(0.9) {
                    continue; // partitioned
                }
            }
            self.step(&mut c, p.to, json!({"op":"msg","from":p.from,"sig_ok":p.sig_ok,"msg":p.msg}), out);
        }
        // how far the case got (evidence: the agreement monitor is only as good as the number of blocks committed)
        {
            let heads: Vec<u64> = c.rigs.values().map(|r| r.engine.persisted_next()).collect();
            let views: Vec<u64> = c.rigs.values().map(|r| r.snapshot().view.0).collect();
            out.count(&format!("prefix_max_committed_blocks={}", heads.iter().max().copied().unwrap_or(0).min(10)));
            out.count(&format!("prefix_max_view={}", (views.iter().max().copied().unwrap_or(0) / 5 * 5).min(40)));
            if varied {
                out.count("leader_schedule_varied");
            }
        }
        if !self.progress {
            return;
        }
        // ---- slow-storage episode (every other case): for a while nothing the storage is given becomes durable; the
        // network is fair meanwhile, so blocks get certified; a replica stuck waiting for its disk is killed; then every
        // node process crashes (what was not durable is lost) and the disks recover. From here on the case is run and
        // monitored on the real replicas only (the model has no notion of a handler waiting for the disk).
        let episode = case_idx % 4;
        if episode == 1 {
            c.unmodelled = true;
            out.count("slow_storage_episode");
            for rig in c.rigs.values() {
                *rig.engine.0.auto_persist.lock().unwrap() = false;
            }
            c.pool.clear();
            c.proposals.clear();
            for _round in 0..2 {
                for i in &correct {
                    self.step(&mut c, *i, json!({"op":"tick"}), out);
                }
                let mut guard = 0;
                while (!c.pool.is_empty() || !c.proposals.is_empty()) && guard < 500 {
                    guard += 1;
                    if !c.proposals.is_empty() {
                        self.propose(&mut c, out);
                        continue;
                    }
                    let p = c.pool.remove(0);
                    if c.byz.contains(&p.from) {
                        continue;
                    }
                    self.step(&mut c, p.to, json!({"op":"msg","from":p.from,"sig_ok":p.sig_ok,"msg":p.msg}), out);
                }
            }
            // every node process dies; the disks recover
            for i in &correct {
                self.step(&mut c, *i, json!({"op":"restart"}), out);
            }
            for rig in c.rigs.values() {
                *rig.engine.0.auto_persist.lock().unwrap() = true;
            }
        }
        // ---- isolated-laggard episode (every other remaining case): one correct replica R hears nothing for a few timer
        // periods while everything it sends is delivered (asymmetric partition) and the Byzantine validators are silent;
        // the others therefore move on as far as they can without hearing from R again and re-send on every timer expiry
        // into the void. Only modelled operations (tick / msg), so the model follows. After the heal R has to be pulled
        // forward by what the others RE-send.
        else if episode == 2 {
            out.count("laggard_episode");
            let r = *correct.choose(rng).unwrap();
            c.pool.clear();
            c.proposals.clear();
            let periods = rng.gen_range(2..5);
            for _ in 0..periods {
                for i in &correct {
                    self.step(&mut c, *i, json!({"op":"tick"}), out);
                }
                let mut guard = 0;
                while (!c.pool.is_empty() || !c.proposals.is_empty()) && guard < 3000 {
                    guard += 1;
                    if !c.proposals.is_empty() {
                        self.propose(&mut c, out);
                        continue;
                    }
                    let p = c.pool.remove(0);
                    if c.byz.contains(&p.from) || p.to == r {
                        continue;
                    }
                    self.step(&mut c, p.to, json!({"op":"msg","from":p.from,"sig_ok":p.sig_ok,"msg":p.msg}), out);
                    for i in &correct {
                        if *i != r {
                            c.sync_blocks(*i);
                        }
                    }
                    settle(&self.rt);
                }
            }
        }
        // ---- Byzantine view-jump episode (every fourth case with a Byzantine validator): the correct replicas are brought
        // into one view by two fair rounds; their timers fire but only half of the timeout votes arrive (no quorum yet);
        // a Byzantine validator F then sends every correct replica its timeout vote for that view and, right after, a
        // timeout vote for the NEXT view. The partial certificates must survive F's jump: in the suffix the missing honest
        // votes arrive and the view ends.
        else if episode == 3 && !c.byz.is_empty() {
            out.count("byz_view_jump_episode");
            c.pool.clear();
            c.proposals.clear();
            for _ in 0..2 {
                self.fair_round(&mut c, &correct, out);
            }
            for i in &correct {
                self.step(&mut c, *i, json!({"op":"tick"}), out);
            }
            let packets: Vec<Packet> = c.pool.drain(..).collect();
            for p in packets {
                if c.byz.contains(&p.from) || (p.from + p.to) % 2 == 1 {
                    continue;
                }
                self.step(&mut c, p.to, json!({"op":"msg","from":p.from,"sig_ok":p.sig_ok,"msg":p.msg}), out);
            }
            let f = c.byz[0];
            for j in &correct {
                let v = c.rigs[j].snapshot().view.0;
                let hq = c.seen_qcs.iter().filter(|q| q.vote.view.v < v).last().cloned();
                for view in [v, v + 1] {
                    self.step(&mut c, *j, json!({"op":"msg","from":f,"sig_ok":true,"msg":{"timeout": ATVote { view: aview(view), hv: None, hq: hq.clone() }}}), out);
                }
            }
            c.pool.clear();
            c.proposals.clear();
        }
        // ---- C06: fair synchronous suffix. Byzantine validators are silent, nothing is lost, timers fire when idle.
        let before = heads_before(&c);
        c.pool.clear();
        c.proposals.clear();
        let mut rounds = 0;
        let max_rounds = n + 8;
        let target_reached = |c: &Cluster, before: &Vec<u64>| c.rigs.values().zip(before.iter()).all(|(r, b)| r.engine.persisted_next() > *b);
        while rounds < max_rounds && !target_reached(&c, &before) {
            rounds += 1;
            // timers fire at every correct replica
            for i in &correct {
                self.step(&mut c, *i, json!({"op":"tick"}), out);
            }
            // deliver everything, in order, until quiescent (including what gets produced meanwhile)
            let mut guard = 0;
            while (!c.pool.is_empty() || !c.proposals.is_empty()) && guard < 5000 {
                guard += 1;
                if !c.proposals.is_empty() {
                    self.propose(&mut c, out);
                    continue;
                }
                let p = c.pool.remove(0);
                if c.byz.contains(&p.from) {
                    continue;
                }
                self.step(&mut c, p.to, json!({"op":"msg","from":p.from,"sig_ok":p.sig_ok,"msg":p.msg}), out);
                for i in &correct {
                    c.sync_blocks(*i);
                }
                settle(&self.rt);
            }
            if target_reached(&c, &before) {
                break;
            }
        }
        out.count(&format!("progress_rounds={}", rounds.min(20)));
        if !target_reached(&c, &before) {
            let views: Vec<u64> = c.rigs.values().map(|r| r.snapshot().view.0).collect();
            self.stalled.set(true);
            out.oracle_fail("no_progress", &format!("after the network healed, {max_rounds} synchronous rounds (timers firing, every message delivered, blocks fetchable) did not make every correct replica commit a new block; views {views:?}, byzantine {:?}", c.byz), json!({"weights": weights, "byz": byz, "wseed": wseed}));
        }
    }
}

impl Prop for NetSim {
    fn gen(&mut self, _opts: &Opts) -> Vec<Value> {
        vec![]
    }
    fn exec(&mut self, _op: &Value, _out: &mut Out) -> Value {
        // replays of simulations are re-run from the seed (the schedule is a function of the PRNG state)
        json!({"class":"replay-unsupported"})
    }
    fn adaptive(&mut self, opts: &Opts, out: &mut Out) -> bool {
        let mut rng = opts.rng();
        // agreement runs: few long cases (a view costs about n² deliveries; 2000 scheduler steps reach 10-20 views with
        // 6 validators); progress runs: many short adversarial prefixes (300 steps), each followed by an episode and the
        // fair suffix
        let (steps, per_case) = if self.progress { (400, 150) } else { (2000, 2000) };
        let cases = (opts.n / per_case).max(2);
        for k in 0..cases {
            // op budget (deterministic): large committees make long cases; do not start another one beyond 6 ops per unit of n
            if k >= 4 && out.n_ops > opts.n * 8 {
                out.count("cases_skipped_by_op_budget");
                continue;
            }
            self.run_case(k + 1, &mut rng, steps, out);
            if self.stalled.get() {
                break;
            }
        }
        true
    }
}
