//! A real ChonkyBFT replica (through the `verif` hook of the bft crate) over a harness-owned, crash-injecting
//! `EngineInterface`, stepped one input at a time, with a single ordered log of its effects
//! (`set_state` = persist, outbound channel = send, proposer watch = notify, `queue_next_block` = queue).
use std::{
    collections::BTreeMap,
    future::Future,
    pin::Pin,
    sync::{Arc, Mutex},
    task::Poll,
};

use serde_json::{json, Value};
use zksync_concurrency::{ctx, sync, time};
use zksync_consensus_bft as bft;
use zksync_consensus_engine::{BlockStoreState, EngineInterface, EngineManager, Last, Transaction};
use zksync_consensus_network::io::ConsensusInputMessage;
use zksync_consensus_roles::validator::{self, v2};

use crate::abs::*;

/// One observed effect of the replica, in the order it happened.
#[derive(Debug, Clone)]
pub enum Ev {
    Persist(v2::ChonkyV2State),
    Send(validator::Signed<validator::ConsensusMsg>),
    Notify(v2::ProposalJustification),
    Queue(validator::Block),
}

#[derive(Default)]
pub struct CrashPlan {
    /// crash at the k-th `set_state` call of the current step (0-based) …
    pub at_persist: Option<usize>,
    /// … with the write applied (process died right after the durable write) or not (right before)
    pub applied: bool,
    pub persist_calls: usize,
    pub crashed: bool,
}

pub struct EngInner {
    genesis: validator::Genesis,
    schedule: validator::Schedule,
    persisted: sync::watch::Sender<BlockStoreState>,
    pub blocks: Mutex<BTreeMap<u64, validator::Block>>,
    pub state: Mutex<validator::ReplicaState>,
    pub log: Mutex<Vec<Ev>>,
    outbound: Mutex<Option<ctx::channel::UnboundedReceiver<ConsensusInputMessage>>>,
    proposer: Mutex<Option<sync::watch::Receiver<Option<v2::ProposalJustification>>>>,
    pub crash: Mutex<CrashPlan>,
    pub next_payload: Mutex<u64>,
    /// when false the storage is slow: `queue_next_block` accepts the block but nothing becomes durable until
    /// `flush_pending` (a crash in between loses the block)
    pub auto_persist: Mutex<bool>,
    /// blocks handed to the storage but not yet durable
    pub pending: Mutex<Vec<validator::Block>>,
    /// incarnation of the node process: handles created for an earlier incarnation's `EngineManager` are inert
    pub generation: std::sync::atomic::AtomicU64,
}

impl std::fmt::Debug for EngInner {
    fn fmt(&self, f: &mut std::fmt::Formatter<'_>) -> std::fmt::Result {
        f.write_str("SimEngine")
    }
}

/// Handle to the harness storage; the second field is the process incarnation it was created for.
#[derive(Debug, Clone)]
pub struct SimEngine(pub Arc<EngInner>, pub u64);

/// payload ids that the execution layer rejects
pub fn payload_ok(id: u64) -> bool {
    id % 7 != 3
}

impl SimEngine {
    pub fn new(w: &World) -> Self {
        Self(Arc::new(EngInner {
            genesis: w.genesis_full.clone(),
            schedule: w.schedule.clone(),
            persisted: sync::watch::channel(BlockStoreState { first: w.first, last: None }).0,
            blocks: Mutex::new(BTreeMap::new()),
            state: Mutex::new(validator::ReplicaState::default()),
            log: Mutex::new(vec![]),
            outbound: Mutex::new(None),
            proposer: Mutex::new(None),
            crash: Mutex::new(CrashPlan::default()),
            next_payload: Mutex::new(100),
            auto_persist: Mutex::new(true),
            pending: Mutex::new(vec![]),
            generation: std::sync::atomic::AtomicU64::new(0),
        }), 0)
    }

    fn stale(&self) -> bool {
        self.1 != self.0.generation.load(std::sync::atomic::Ordering::SeqCst)
    }

    /// The slow storage finally writes what it was given.
    pub fn flush_pending(&self) {
        let blocks: Vec<validator::Block> = std::mem::take(&mut *self.0.pending.lock().unwrap());
        for b in blocks {
            self.persist_block(b);
        }
    }

    /// The node process dies: what was not durable is gone; returns the handle for the next incarnation.
    pub fn next_incarnation(&self) -> SimEngine {
        self.0.pending.lock().unwrap().clear();
        let g = self.0.generation.fetch_add(1, std::sync::atomic::Ordering::SeqCst) + 1;
        SimEngine(self.0.clone(), g)
    }

    /// Moves everything the replica has emitted so far (outbound messages, proposer notification) into the log.
    /// Called at the start of every engine callback and after the step, so the log has the true relative order.
    pub fn drain(&self) {
        let mut log = self.0.log.lock().unwrap();
        if let Some(p) = self.0.proposer.lock().unwrap().as_mut() {
            if p.has_changed().unwrap_or(false) {
                if let Some(j) = p.borrow_and_update().clone() {
                    log.push(Ev::Notify(j));
                }
            }
        }
        if let Some(r) = self.0.outbound.lock().unwrap().as_mut() {
            while let Some(m) = r.try_recv() {
                log.push(Ev::Send(m.message));
            }
        }
    }

    pub fn persisted_next(&self) -> u64 {
        self.0.persisted.borrow().next().0
    }

    /// The execution layer prunes everything it has persisted so far (blocks below `next` are gone).
    pub fn prune_all(&self) {
        let next = self.0.persisted.borrow().next();
        self.0.blocks.lock().unwrap().retain(|n, _| *n >= next.0);
        self.0.persisted.send_modify(|p| {
            if p.first < next {
                p.first = next;
            }
        });
    }

    /// Side channel: the execution layer obtained block `b` by other means (block sync) and persisted it.
    pub fn persist_block(&self, b: validator::Block) {
        let n = b.number().0;
        self.0.blocks.lock().unwrap().insert(n, b.clone());
        self.0.persisted.send_modify(|p| {
            if p.next().0 == n {
                p.last = Some(Last::from(&b));
            }
        });
    }
}

#[async_trait::async_trait]
impl EngineInterface for SimEngine {
    async fn genesis(&self, _ctx: &ctx::Ctx) -> ctx::Result<validator::Genesis> {
        Ok(self.0.genesis.clone())
    }
    async fn get_validator_schedule(
        &self,
        _ctx: &ctx::Ctx,
        _number: validator::BlockNumber,
    ) -> ctx::Result<(validator::Schedule, validator::BlockNumber)> {
        Ok((self.0.schedule.clone(), self.0.genesis.first_block))
    }
    async fn get_pending_validator_schedule(
        &self,
        _ctx: &ctx::Ctx,
        _number: validator::BlockNumber,
    ) -> ctx::Result<Option<(validator::Schedule, validator::BlockNumber)>> {
        Ok(None)
    }
    fn persisted(&self) -> sync::watch::Receiver<BlockStoreState> {
        self.0.persisted.subscribe()
    }
    async fn get_block(&self, _ctx: &ctx::Ctx, number: validator::BlockNumber) -> ctx::Result<validator::Block> {
        self.0.blocks.lock().unwrap().get(&number.0).cloned().ok_or_else(|| anyhow::format_err!("no block").into())
    }
    async fn queue_next_block(&self, _ctx: &ctx::Ctx, block: validator::Block) -> ctx::Result<()> {
        if self.stale() {
            // a background task of a dead incarnation
            return Err(anyhow::format_err!("stale incarnation").into());
        }
        self.drain();
        self.0.log.lock().unwrap().push(Ev::Queue(block.clone()));
        let n = block.number().0;
        if *self.0.auto_persist.lock().unwrap() {
            self.0.blocks.lock().unwrap().insert(n, block.clone());
            self.0.persisted.send_modify(|p| {
                if p.next().0 == n {
                    p.last = Some(Last::from(&block));
                }
            });
        } else {
            self.0.pending.lock().unwrap().push(block);
        }
        Ok(())
    }
    async fn verify_pregenesis_block(&self, _ctx: &ctx::Ctx, _block: &validator::PreGenesisBlock) -> ctx::Result<()> {
        Ok(())
    }
    async fn verify_payload(
        &self,
        _ctx: &ctx::Ctx,
        _number: validator::BlockNumber,
        payload: &validator::Payload,
    ) -> ctx::Result<()> {
        let mut id = [0u8; 8];
        id.copy_from_slice(&payload.0[..8]);
        if payload_ok(u64::from_le_bytes(id)) {
            Ok(())
        } else {
            Err(anyhow::format_err!("payload rejected by the execution layer").into())
        }
    }
    async fn propose_payload(&self, _ctx: &ctx::Ctx, _number: validator::BlockNumber) -> ctx::Result<validator::Payload> {
        let mut np = self.0.next_payload.lock().unwrap();
        let mut id = *np;
        if !payload_ok(id) {
            id += 1;
        }
        *np = id + 1;
        let mut bytes = vec![0u8; 8];
        bytes.copy_from_slice(&id.to_le_bytes());
        Ok(validator::Payload(bytes))
    }
    async fn get_state(&self, _ctx: &ctx::Ctx) -> ctx::Result<validator::ReplicaState> {
        Ok(self.0.state.lock().unwrap().clone())
    }
    async fn set_state(&self, _ctx: &ctx::Ctx, state: &validator::ReplicaState) -> ctx::Result<()> {
        self.drain();
        let mut crash = self.0.crash.lock().unwrap();
        let k = crash.persist_calls;
        crash.persist_calls += 1;
        if crash.crashed {
            return Err(anyhow::format_err!("crashed").into());
        }
        if crash.at_persist == Some(k) {
            crash.crashed = true;
            if crash.applied {
                *self.0.state.lock().unwrap() = state.clone();
                let validator::ReplicaState::V2(s) = state;
                self.0.log.lock().unwrap().push(Ev::Persist(s.clone()));
            }
            return Err(anyhow::format_err!("crash injected at durable write").into());
        }
        *self.0.state.lock().unwrap() = state.clone();
        let validator::ReplicaState::V2(s) = state;
        self.0.log.lock().unwrap().push(Ev::Persist(s.clone()));
        Ok(())
    }
    async fn push_tx(&self, _ctx: &ctx::Ctx, _tx: Transaction) -> ctx::Result<bool> {
        Ok(false)
    }
}

/// Polls `fut` on the current-thread runtime, yielding to the other tasks in between, until it completes or
/// makes no progress for `idle_rounds` consecutive rounds.
pub async fn run_until_idle<F: Future>(mut fut: Pin<&mut F>, idle_rounds: usize) -> Option<F::Output> {
    for _ in 0..idle_rounds {
        let r = std::future::poll_fn(|cx| match fut.as_mut().poll(cx) {
            Poll::Ready(v) => Poll::Ready(Some(v)),
            Poll::Pending => Poll::Ready(None),
        })
        .await;
        if r.is_some() {
            return r;
        }
        for _ in 0..4 {
            tokio::task::yield_now().await;
        }
    }
    None
}

pub const VIEW_TIMEOUT_MS: i64 = 1000;
pub const MAX_PAYLOAD: usize = 1000;

/// One real replica with everything it needs, stepped by the harness.
pub struct Rig {
    pub me: usize,
    pub engine: SimEngine,
    pub manager: Arc<EngineManager>,
    pub clock: ctx::ManualClock,
    pub root: ctx::Ctx,
    pub replica: Option<bft::verif::Replica>,
    /// all messages ever sent by this validator key, across incarnations (for the equivocation monitor)
    pub sent_history: Vec<validator::Signed<validator::ConsensusMsg>>,
    pub dead: bool,
    /// the next step runs with a context that is already cancelled (the node is shutting down while the timer fires)
    pub cancel_next: bool,
}

/// Outcome of one step as the harness sees it.
pub struct StepObs {
    pub class: String,
    pub events: Vec<Ev>,
}

impl Rig {
    pub async fn new(w: &World, me: usize) -> Self {
        let clock = ctx::ManualClock::new();
        let root = ctx::test_root(&clock);
        let engine = SimEngine::new(w);
        let (manager, runner) = EngineManager::new(&root, Box::new(engine.clone()), time::Duration::seconds(3600))
            .await
            .expect("EngineManager::new");
        let rctx = root.with_deadline(time::Deadline::Infinite);
        tokio::spawn(async move {
            let _ = runner.run(&rctx).await;
        });
        let mut this = Self { me, engine, manager, clock, root, replica: None, sent_history: vec![], dead: false, cancel_next: false };
        this.start(w).await;
        this
    }

    /// The node process died and starts again: everything in memory is lost (the `EngineManager` with its queue of
    /// blocks not yet persisted, the replica), the durable storage survives.
    pub async fn restart_full(&mut self, w: &World) {
        self.engine = self.engine.next_incarnation();
        let (manager, runner) = EngineManager::new(&self.root, Box::new(self.engine.clone()), time::Duration::seconds(3600))
            .await
            .expect("EngineManager::new");
        let rctx = self.root.with_deadline(time::Deadline::Infinite);
        tokio::spawn(async move {
            let _ = runner.run(&rctx).await;
        });
        self.manager = manager;
        self.start(w).await;
    }

    /// (Re)builds the state machine from whatever the engine holds durably.
    pub async fn start(&mut self, w: &World) {
        let cfg = bft::Config::new(
            w.key(self.me).clone(),
            MAX_PAYLOAD,
            time::Duration::milliseconds(VIEW_TIMEOUT_MS),
            self.manager.clone(),
            w.epoch,
        )
        .expect("bft::Config::new");
        let (send, recv) = ctx::channel::unbounded();
        let replica = bft::verif::Replica::start(&self.root, cfg, send).await.expect("Replica::start");
        *self.engine.0.outbound.lock().unwrap() = Some(recv);
        *self.engine.0.proposer.lock().unwrap() = Some(replica.subscribe_proposer());
        *self.engine.0.crash.lock().unwrap() = CrashPlan::default();
        self.replica = Some(replica);
        self.dead = false;
    }

    fn take_events(&mut self) -> Vec<Ev> {
        self.engine.drain();
        let evs: Vec<Ev> = std::mem::take(&mut *self.engine.0.log.lock().unwrap());
        for e in &evs {
            if let Ev::Send(m) = e {
                self.sent_history.push(m.clone());
            }
        }
        evs
    }

    /// Runs one handler call to completion (or until it is stuck).
    /// class: "accepted" | "rejected:<Variant>" | "blocked" | "crashed" | "panic:<site>"
    pub async fn step_msg(&mut self, msg: validator::Signed<validator::ConsensusMsg>, crash: Option<(usize, bool)>) -> StepObs {
        self.step(Some(msg), crash).await
    }

    pub async fn step_tick(&mut self, crash: Option<(usize, bool)>) -> StepObs {
        self.step(None, crash).await
    }

    async fn step(&mut self, msg: Option<validator::Signed<validator::ConsensusMsg>>, crash: Option<(usize, bool)>) -> StepObs {
        {
            let mut c = self.engine.0.crash.lock().unwrap();
            *c = CrashPlan::default();
            if let Some((k, applied)) = crash {
                c.at_persist = Some(k);
                c.applied = applied;
            }
        }
        let mut replica = self.replica.take().expect("replica alive");
        // a child context that can be cancelled (by advancing the manual clock past its deadline) if the handler is stuck
        let sctx = if std::mem::take(&mut self.cancel_next) {
            let c = self.root.with_timeout(time::Duration::ZERO);
            for _ in 0..6 {
                tokio::task::yield_now().await;
            }
            c
        } else {
            self.root.with_timeout(time::Duration::hours(1))
        };
        let clock = self.clock.clone();
        let class;
        {
            let fut = async {
                match msg {
                    Some(m) => replica.handle(&sctx, m).await,
                    None => replica.tick(&sctx).await.map_err(|e| format!("Internal({e:?})")),
                }
            };
            tokio::pin!(fut);
            let res = crate::catch_async(async {
                let mut r = run_until_idle(fut.as_mut(), 6).await;
                if r.is_none() {
                    // let the view deadline pass (wait for the previous block gives up at the deadline)
                    clock.advance(time::Duration::milliseconds(VIEW_TIMEOUT_MS + 1));
                    r = run_until_idle(fut.as_mut(), 6).await;
                }
                let mut blocked = false;
                if r.is_none() {
                    blocked = true;
                    clock.advance(time::Duration::hours(2));
                    r = run_until_idle(fut.as_mut(), 50).await;
                }
                (r, blocked)
            })
            .await;
            class = match res {
                Err(site) => format!("panic:{site}"),
                Ok((_, true)) => "blocked".to_string(),
                Ok((None, false)) => "stuck".to_string(),
                Ok((Some(Ok(())), false)) => "accepted".to_string(),
                Ok((Some(Err(e)), false)) => {
                    if self.engine.0.crash.lock().unwrap().crashed {
                        "crashed".to_string()
                    } else if e.starts_with("Internal") {
                        format!("internal:{e}")
                    } else {
                        format!("rejected:{e}")
                    }
                }
            };
        }
        self.replica = Some(replica);
        // let the store's background tasks settle
        for _ in 0..8 {
            tokio::task::yield_now().await;
        }
        let events = self.take_events();
        if class == "blocked" || class == "crashed" || class.starts_with("panic") || class.starts_with("internal") {
            // the real `run` loop returns the error and the replica task ends
            self.dead = true;
        }
        StepObs { class, events }
    }

    pub fn snapshot(&self) -> bft::verif::Snapshot {
        self.replica.as_ref().unwrap().snapshot()
    }
}

// ------------------------------------------------------------------------------------------------ abstraction

pub fn phase_str(p: v2::Phase) -> &'static str {
    match p {
        v2::Phase::Prepare => "prepare",
        v2::Phase::Commit => "commit",
        v2::Phase::Timeout => "timeout",
    }
}

pub fn sum_msg(w: &mut World, m: &validator::ConsensusMsg) -> Value {
    let validator::ConsensusMsg::V2(m) = m;
    match m {
        v2::ChonkyMsg::ReplicaCommit(v) => json!({"commit": w.a_vote(v)}),
        v2::ChonkyMsg::ReplicaTimeout(t) => json!({"timeout": w.sum_tvote(t)}),
        v2::ChonkyMsg::ReplicaNewView(nv) => json!({"newview": w.sum_just(&nv.justification)}),
        v2::ChonkyMsg::LeaderProposal(p) => json!({"proposal": {
            "payload": p.proposal_payload.as_ref().map(|p| w.payload_id(p)),
            "just": w.sum_just(&p.justification)}}),
    }
}

pub fn sum_durable(w: &mut World, s: &v2::ChonkyV2State) -> Value {
    let mut props: Vec<(u64, u64)> = s.proposals.iter().map(|p| (p.number.0, w.hash_id(&p.payload.hash()))).collect();
    props.sort();
    json!({
        "view": s.view_number.0,
        "phase": phase_str(s.phase),
        "hv": s.high_vote.as_ref().map(|v| w.a_vote(v)),
        "hcqc": s.high_commit_qc.as_ref().map(|q| w.sum_cqc(q)),
        "htqc": s.high_timeout_qc.as_ref().map(|q| w.sum_tqc(q)),
        "proposals": props,
    })
}

pub fn sum_event(w: &mut World, e: &Ev) -> Value {
    match e {
        Ev::Persist(s) => json!({"persist": sum_durable(w, s)}),
        Ev::Send(m) => json!({"send": sum_msg(w, &m.msg)}),
        Ev::Notify(j) => json!({"notify": w.sum_just(j)}),
        Ev::Queue(b) => match b {
            validator::Block::FinalV2(b) => json!({"queue": {"n": b.number().0, "h": w.hash_id(&b.payload.hash()), "qc": w.sum_cqc(&b.justification)}}),
            validator::Block::PreGenesis(b) => json!({"queue": {"n": b.number.0, "pregenesis": true}}),
        },
    }
}

pub fn sum_snapshot(w: &mut World, s: &bft::verif::Snapshot) -> Value {
    let mut props: Vec<(u64, u64)> = s.proposals.iter().map(|(n, h)| (n.0, w.hash_id(h))).collect();
    props.sort();
    json!({
        "view": s.view.0,
        "phase": phase_str(s.phase),
        "hv": s.high_vote.as_ref().map(|v| w.a_vote(v)),
        "hcqc": s.high_commit_qc.as_ref().map(|q| w.sum_cqc(q)),
        "htqc": s.high_timeout_qc.as_ref().map(|q| w.sum_tqc(q)),
        "proposals": props,
        "commit_views": s.commit_views,
        "commit_qcs": [s.commit_qcs.0, s.commit_qcs.1],
        "timeout_views": s.timeout_views,
        "timeout_qcs": s.timeout_qcs,
    })
}
