//! Correspondence + monitors for the replica (Layer I): adaptive scenario generation against one real replica.
//!
//! Ops:
//!   {"op":"init","reset":true,"weights":[..],"first":k,"wseed":s,"me":i,"max_payload":1000}
//!   {"op":"msg","from":k,"sig_ok":b,"msg":{"commit":AVote}|{"timeout":ATVote}|{"newview":AJust}|{"proposal":{"payload":id|null,"just":AJust}},
//!    "env":{"queued_first","persisted_next","store_next","payload_ok"},"crash":null|{"at":k,"applied":b}}
//!   {"op":"tick","crash":..}   {"op":"restart"}   {"op":"propose","env":..,"fresh":id}
//! Observation: {"class","effects":[..ordered..],"snap":{..}}
use rand::{rngs::StdRng, seq::SliceRandom, Rng};
use serde_json::{json, Value};
use zksync_consensus_roles::validator::{self, v2};

use crate::{abs::*, certgen::*, sim::*, Opts, Out, Prop};

#[derive(Clone, Copy, PartialEq, Eq, Debug)]
pub enum Mode {
    /// handler product: every handler × view relation × phase × sender × validity (C05, C01, C02)
    Handlers,
    /// crash at every durable write, equivocating leader (C03)
    Crash,
    /// floods of future-view votes (C16b)
    Flood,
    /// honest progress after adversarial prefix (C06 enabling steps)
    Progress,
}

pub struct Session {
    pub w: World,
    pub rig: Rig,
    pub weights: Vec<u64>,
}

pub struct ReplicaProp {
    pub mode: Mode,
    pub pid: &'static str,
    rt: tokio::runtime::Runtime,
    s: Option<Session>,
    /// monitor state: per case
    mon: Monitor,
    /// the last justification the replica handed to its proposer (abstract)
    last_notify: Option<Value>,
    /// real leader of the first LEADER_TABLE views of the current case
    leader_table: Vec<usize>,
}

#[derive(Default)]
pub struct Monitor {
    pub last_view: u64,
    pub last_hcqc: Option<u64>,
    pub last_htqc: Option<u64>,
    /// the step being monitored was accepted by the handler
    pub accepted_last: bool,
    max_commit_views: usize,
    max_commit_qcs: usize,
    max_timeout_qcs: usize,
}

/// number of views for which the real leader is tabulated for the model (cases stay far below it, except floods, which
/// do not depend on the leader)
const LEADER_TABLE: u64 = 512;

fn sel() -> validator::LeaderSelection {
    validator::LeaderSelection { frequency: 1, mode: validator::LeaderSelectionMode::RoundRobin }
}

impl ReplicaProp {
    pub fn new(mode: Mode, pid: &'static str) -> Self {
        Self {
            mode,
            pid,
            rt: tokio::runtime::Builder::new_current_thread().enable_all().build().unwrap(),
            s: None,
            mon: Monitor::default(),
            last_notify: None,
            leader_table: vec![],
        }
    }

    fn env(&self) -> Value {
        let s = self.s.as_ref().unwrap();
        json!({
            "queued_first": s.rig.manager.queued().first.0,
            "persisted_next": s.rig.engine.persisted_next(),
            "store_next": s.rig.manager.queued().next().0,
        })
    }

    /// Executes one op on the real replica. Returns the op completed with the environment it ran in, and the
    /// observation.
    pub fn exec_full(&mut self, op: &Value, out: &mut Out) -> (Value, Value) {
        let kind = op["op"].as_str().unwrap_or("").to_string();
        out.count(&format!("op={kind}"));
        if kind == "init" {
            let weights: Vec<u64> = serde_json::from_value(op["weights"].clone()).unwrap();
            let first = op["first"].as_u64().unwrap_or(0);
            let me = op["me"].as_u64().unwrap_or(0) as usize;
            // leader schedule of the case: eligible leaders, rotation frequency, round-robin or weighted. The model takes the
            // leader of a view as a function (leader election itself is property C11): the table of the real
            // `Schedule::view_leader` for the first LEADER_TABLE views travels with the op.
            let leaders: Vec<bool> = op.get("leaders").and_then(|l| serde_json::from_value(l.clone()).ok()).unwrap_or_else(|| vec![true; weights.len()]);
            let sel_ = match op.get("freq").and_then(|f| f.as_u64()) {
                Some(f) => validator::LeaderSelection {
                    frequency: f,
                    mode: if op["mode"] == "weighted" { validator::LeaderSelectionMode::Weighted } else { validator::LeaderSelectionMode::RoundRobin },
                },
                None => sel(),
            };
            let w = World::new(op["wseed"].as_u64().unwrap_or(0), &weights, &leaders, sel_, first);
            let table: Vec<usize> = (0..LEADER_TABLE).map(|v| w.schedule.index(&w.schedule.view_leader(validator::ViewNumber(v))).unwrap()).collect();
            let rig = self.rt.block_on(Rig::new(&w, me));
            self.s = Some(Session { w, rig, weights });
            self.mon = Monitor::default();
            let s = self.s.as_mut().unwrap();
            let snap = sum_snapshot(&mut s.w, &s.rig.snapshot());
            let mut op = op.clone();
            if op.get("freq").is_some() {
                op["leader_table"] = json!(table);
            }
            self.leader_table = table;
            return (op, json!({"class":"init","snap":snap}));
        }
        let mut op = op.clone();
        let mut env = self.env();
        let rt = &self.rt;
        let _guard = rt.enter();
        let s = self.s.as_mut().expect("init first");
        match kind.as_str() {
            "restart" => {
                rt.block_on(s.rig.start(&s.w));
                // volatile certificates (adopted without a view change, hence not persisted) are lost by a restart:
                // monotonicity of the certificates is a per-incarnation statement
                self.mon.last_hcqc = None;
                self.mon.last_htqc = None;
                let snap = sum_snapshot(&mut s.w, &s.rig.snapshot());
                (op, json!({"class":"restarted","snap":snap}))
            }
            "prune" => {
                s.rig.engine.prune_all();
                rt.block_on(async {
                    for _ in 0..24 {
                        tokio::task::yield_now().await;
                    }
                });
                (op, json!({"class":"pruned"}))
            }
            "propose" => {
                // the justification of the last notification is tracked by the caller through "just"
                op["env"] = env;
                let Some(j) = op.get("just").cloned().filter(|j| !j.is_null()) else {
                    return (op, json!({"class":"nothing"}));
                };
                let aj: AJust = serde_json::from_value(j).unwrap();
                let (rj, _) = s.w.just(&aj);
                let r = s.rig.replica.as_ref().unwrap();
                let ctx = s.rig.root.with_timeout(zksync_concurrency::time::Duration::milliseconds(10));
                let clock = s.rig.clock.clone();
                let res = rt.block_on(async {
                    let fut = r.create_proposal(&ctx, rj);
                    tokio::pin!(fut);
                    let mut x = run_until_idle(fut.as_mut(), 6).await;
                    if x.is_none() {
                        clock.advance(zksync_concurrency::time::Duration::milliseconds(20));
                        x = run_until_idle(fut.as_mut(), 20).await;
                    }
                    x
                });
                match res {
                    Some(Ok(p)) => {
                        let m = validator::ConsensusMsg::V2(v2::ChonkyMsg::LeaderProposal(p));
                        let sm = sum_msg(&mut s.w, &m);
                        (op, json!({"class":"proposal","msg":sm}))
                    }
                    _ => (op, json!({"class":"waiting"})),
                }
            }
            "msg" | "tick" => {
                let crash = op.get("crash").and_then(|c| {
                    if c.is_null() {
                        None
                    } else {
                        Some((c["at"].as_u64().unwrap_or(0) as usize, c["applied"].as_bool().unwrap_or(false)))
                    }
                });
                let obs = if kind == "tick" {
                    op["env"] = env;
                    // "shutdown": the view timer fires while the node is shutting down (the handler's context is already
                    // cancelled): whatever leaves the node must still be covered by a durable state
                    if op["shutdown"].as_bool() == Some(true) {
                        s.rig.cancel_next = true;
                        out.count("tick_during_shutdown");
                    }
                    rt.block_on(s.rig.step_tick(crash))
                } else {
                    let from = op["from"].as_u64().unwrap() as usize;
                    let sig_ok = op["sig_ok"].as_bool().unwrap_or(true);
                    let m = op["msg"].clone();
                    let mut payload_id = None;
                    let cm = if let Some(v) = m.get("commit") {
                        let a: AVote = serde_json::from_value(v.clone()).unwrap();
                        v2::ChonkyMsg::ReplicaCommit(s.w.vote(&a))
                    } else if let Some(v) = m.get("timeout") {
                        let a: ATVote = serde_json::from_value(v.clone()).unwrap();
                        v2::ChonkyMsg::ReplicaTimeout(s.w.tvote(&a))
                    } else if let Some(v) = m.get("newview") {
                        let a: AJust = serde_json::from_value(v.clone()).unwrap();
                        let (j, a2) = s.w.just(&a);
                        op["msg"]["newview"] = serde_json::to_value(&a2).unwrap();
                        v2::ChonkyMsg::ReplicaNewView(v2::ReplicaNewView { justification: j })
                    } else {
                        let p = &m["proposal"];
                        let a: AJust = serde_json::from_value(p["just"].clone()).unwrap();
                        let (j, a2) = s.w.just(&a);
                        op["msg"]["proposal"]["just"] = serde_json::to_value(&a2).unwrap();
                        payload_id = p["payload"].as_u64();
                        let payload = payload_id.map(|id| s.w.payload(id));
                        v2::ChonkyMsg::LeaderProposal(v2::LeaderProposal { proposal_payload: payload, justification: j })
                    };
                    env["payload_ok"] = json!(payload_id.is_none_or(payload_ok));
                    op["env"] = env;
                    let signed = s.w.signed(from, cm, !sig_ok);
                    rt.block_on(s.rig.step_msg(signed, crash))
                };
                let mut class = obs.class.clone();
                let mut why = Value::Null;
                if let Some(rest) = class.strip_prefix("rejected:") {
                    why = json!(rest);
                    class = "rejected".into();
                }
                if class.starts_with("panic:") {
                    let site = class[6..].to_string();
                    out.oracle_fail(&site, "replica handler panicked", op.clone());
                    let o = json!({"panic": site});
                    return (op, o);
                }
                if class.starts_with("internal") || class == "stuck" {
                    why = json!(class.clone());
                }
                out.count(&format!("class={class}"));
                // `queue_next_block` is called by the store's background task: its position relative to the handler's own
                // effects is scheduling-dependent, so queue effects are listed after the others (DESIGN 2.3, canonicalisation)
                let mut effects: Vec<Value> = obs.events.iter().filter(|e| !matches!(e, Ev::Queue(_))).map(|e| sum_event(&mut s.w, e)).collect();
                effects.extend(obs.events.iter().filter(|e| matches!(e, Ev::Queue(_))).map(|e| sum_event(&mut s.w, e)));
                for e in &obs.events {
                    if let Ev::Notify(j) = e {
                        let n = s.weights.len();
                        self.last_notify = Some(serde_json::to_value(abs_just(&mut s.w, n, j)).unwrap());
                    }
                }
                // after a crash / block the real process restarts from its durable state
                if s.rig.dead {
                    rt.block_on(s.rig.start(&s.w));
                    self.mon.last_hcqc = None;
                    self.mon.last_htqc = None;
                }
                let snap = s.rig.snapshot();
                // ---- monitors on the implementation (S)
                // C02 / C04: a proposal or new-view is only ever accepted with a justification that verifies (whatever the
                // replica already knows about that view)
                if class == "accepted" && op["op"] == "msg" {
                    let j = op["msg"].get("newview").or_else(|| op["msg"].get("proposal").and_then(|p| p.get("just")));
                    if let Some(aj) = j.and_then(|j| serde_json::from_value::<AJust>(j.clone()).ok()) {
                        let (rj, _) = s.w.just(&aj);
                        if rj.verify(s.w.genesis, s.w.epoch, &s.w.schedule).is_err() {
                            out.oracle_fail("accepted_unverifiable_justification", "a proposal / new-view was accepted although its justification (certificate) does not verify", op.clone());
                        }
                    }
                }
                self.mon.accepted_last = class == "accepted";
                self_monitors(&mut self.mon, &s.w, &s.rig, &obs.events, &snap, &op, out);
                let snapj = sum_snapshot(&mut s.w, &snap);
                (op, json!({"class": class, "_why": why, "effects": effects, "snap": snapj}))
            }
            _ => (op, json!({"bad_op": true})),
        }
    }
}

/// Property monitors evaluated on the real replica's effects and snapshots.
pub fn self_monitors(mon: &mut Monitor, w: &World, rig: &Rig, events: &[Ev], snap: &zksync_consensus_bft::verif::Snapshot, op: &Value, out: &mut Out) {
    let (g, e, sched) = (w.genesis, w.epoch, w.schedule.clone());
    let me = w.key(rig.me).public();
    // C05: views and certificates never decrease (within one incarnation and across restarts)
    if snap.view.0 < mon.last_view {
        out.oracle_fail("monotone:view", "the replica's view decreased", op.clone());
    }
    let hc = snap.high_commit_qc.as_ref().map(|q| q.view().number.0);
    if hc < mon.last_hcqc {
        out.oracle_fail("monotone:high_commit_qc", "the highest commit certificate went backwards", op.clone());
    }
    let ht = snap.high_timeout_qc.as_ref().map(|q| q.view.number.0);
    if ht < mon.last_htqc {
        out.oracle_fail("monotone:high_timeout_qc", "the highest timeout certificate went backwards", op.clone());
    }
    // C05 / C11 (on_new_view): a new-view for the view the replica is already in is only processed when it comes from
    // THE leader of that view (Schedule::view_leader of the current view, not of any earlier one)
    if op["op"] == "msg" && mon.accepted_last {
        if let Some(j) = op["msg"].get("newview") {
            if let Ok(aj) = serde_json::from_value::<AJust>(j.clone()) {
                let nv_view = match &aj {
                    AJust::Commit(q) => q.vote.view.v.wrapping_add(1),
                    AJust::Timeout(q) => q.view.v.wrapping_add(1),
                };
                if nv_view == mon.last_view && nv_view == snap.view.0 {
                    let leader = w.schedule.index(&w.schedule.view_leader(validator::ViewNumber(nv_view)));
                    if op["from"].as_u64().map(|x| x as usize) != leader {
                        out.oracle_fail("newview_for_current_view_from_non_leader", &format!("a new-view for the current view {nv_view} was processed although its author is not the leader of that view"), op.clone());
                    }
                }
            }
        }
    }
    // C05: a view change is justified by a certificate for the preceding view held by the replica
    if snap.view.0 != mon.last_view && snap.view.0 > 0 {
        let just = hc.is_some_and(|v| v.wrapping_add(1) >= snap.view.0) || ht.is_some_and(|v| v.wrapping_add(1) >= snap.view.0);
        if !just {
            out.oracle_fail("view_change_unjustified", "the replica entered a view without holding a certificate for the preceding view", op.clone());
        }
    }
    // C05 (spec, on_timeout / on_new_view / on_proposal): a timeout certificate for view W is only ever adopted together
    // with a move to a view above W
    // (u64::MAX excluded: `ViewNumber::next` wraps in release builds — finding F6, theorem reachable_tqcBelow has the
    // matching no-wrap hypothesis NoWrapJ)
    if ht.is_some_and(|v| v >= snap.view.0 && v != u64::MAX) {
        out.oracle_fail("view_not_above_timeout_qc", "the replica holds a timeout certificate for a view at or above the view it is in (it must enter the view after the certificate's view)", op.clone());
    }
    mon.last_view = snap.view.0;
    mon.last_hcqc = hc;
    mon.last_htqc = ht;
    // C05 (spec: certificates carried by an accepted proposal / new-view are processed): afterwards the replica holds
    // a commit certificate at least as high (in view) as any commit certificate the message carried
    if op["op"] == "msg" {
        let carried = op["msg"].get("newview").or_else(|| op["msg"].get("proposal").and_then(|p| p.get("just")));
        if let Some(j) = carried {
            if let Ok(aj) = serde_json::from_value::<AJust>(j.clone()) {
                let top = match &aj {
                    AJust::Commit(q) => Some(q.vote.view.v),
                    AJust::Timeout(q) => q.map.iter().filter_map(|(t, _)| t.hq.as_ref().map(|c| c.vote.view.v)).max(),
                };
                let accepted = events.iter().any(|e| matches!(e, Ev::Persist(_))) || snap.view.0 != mon.last_view;
                let _ = accepted;
                if let (Some(top), true) = (top, mon.accepted_last) {
                    if hc.is_none_or(|v| v < top) {
                        out.oracle_fail("carried_certificate_not_adopted", "an accepted proposal / new-view carried a commit certificate higher than the one the replica holds afterwards", op.clone());
                    }
                }
            }
        }
    }
    // C05: stored certificates verify
    if let Some(q) = &snap.high_commit_qc {
        if q.verify(g, e, &sched).is_err() {
            out.oracle_fail("stored_cert_invalid", "the replica holds a commit certificate that does not verify", op.clone());
        }
    }
    if let Some(q) = &snap.high_timeout_qc {
        if q.verify(g, e, &sched).is_err() {
            out.oracle_fail("stored_cert_invalid", "the replica holds a timeout certificate that does not verify", op.clone());
        }
    }
    // C05: every emitted message is signed by this replica and self-justifying
    // C03: persist-before-send: the last persist before a vote is sent records that vote
    let mut last_persist: Option<&v2::ChonkyV2State> = None;
    for ev in events {
        match ev {
            Ev::Persist(st) => {
                last_persist = Some(st);
                // C05 (theorem persisted_wf / DurableWf): whatever is made durable is a state a restart can resume from —
                // its view is 0 or justified by a certificate recorded in the SAME durable state, and what it records verifies
                let dhc = st.high_commit_qc.as_ref().map(|q| q.view().number.0);
                let dht = st.high_timeout_qc.as_ref().map(|q| q.view.number.0);
                let held = st.view_number.0 == 0
                    || dhc.is_some_and(|v| v.wrapping_add(1) >= st.view_number.0)
                    || dht.is_some_and(|v| v.wrapping_add(1) >= st.view_number.0);
                if !held {
                    out.oracle_fail(
                        "durable_state_unjustified",
                        "a state was made durable whose view is not justified by any certificate recorded in it (a crash right after this write restarts the replica in a view it holds no certificate for)",
                        op.clone(),
                    );
                }
                if st.high_commit_qc.as_ref().is_some_and(|q| q.verify(g, e, &sched).is_err())
                    || st.high_timeout_qc.as_ref().is_some_and(|q| q.verify(g, e, &sched).is_err())
                    || st.high_vote.as_ref().is_some_and(|v| v.verify(g, e).is_err())
                {
                    out.oracle_fail("durable_state_invalid", "a state was made durable that records a vote or certificate which does not verify", op.clone());
                }
            }
            Ev::Send(m) => {
                if m.key != me || m.verify().is_err() {
                    out.oracle_fail("sent_bad_signature", "a message left the node that is not validly signed by its own key", op.clone());
                }
                let validator::ConsensusMsg::V2(cm) = &m.msg;
                match cm {
                    v2::ChonkyMsg::ReplicaCommit(v) => {
                        let ok = last_persist.is_some_and(|st| st.view_number == v.view.number && st.phase == v2::Phase::Commit && st.high_vote.as_ref() == Some(v));
                        if !ok {
                            out.oracle_fail("send_before_persist:commit", "a commit vote left the node before a state recording it was made durable", op.clone());
                        }
                    }
                    v2::ChonkyMsg::ReplicaTimeout(t) => {
                        let ok = last_persist.is_some_and(|st| st.view_number == t.view.number && st.phase == v2::Phase::Timeout && st.high_vote == t.high_vote);
                        if !ok {
                            out.oracle_fail("send_before_persist:timeout", "a timeout vote left the node before a state recording it was made durable", op.clone());
                        }
                        if t.verify(g, e, &sched).is_err() {
                            out.oracle_fail("sent_not_self_justifying", "emitted timeout vote does not verify in isolation", op.clone());
                        }
                    }
                    v2::ChonkyMsg::ReplicaNewView(nv) => {
                        // C05 (spec create_justification; theorems justification_is_highest / _prefers_commit_on_tie): the
                        // new-view carries the highest certificate the replica holds, the commit certificate on a tie
                        let (kind, jv) = match &nv.justification {
                            v2::ProposalJustification::Commit(q) => ("commit", q.view().number.0),
                            v2::ProposalJustification::Timeout(q) => ("timeout", q.view.number.0),
                        };
                        let want = match (hc, ht) {
                            (Some(c), Some(t)) if c >= t => Some(("commit", c)),
                            (Some(_), Some(t)) => Some(("timeout", t)),
                            (Some(c), None) => Some(("commit", c)),
                            (None, Some(t)) => Some(("timeout", t)),
                            (None, None) => None,
                        };
                        if want != Some((kind, jv)) {
                            out.oracle_fail(
                                "newview_not_highest_certificate",
                                &format!("emitted new-view is justified by a {kind} certificate of view {jv}; the replica holds commit {hc:?} / timeout {ht:?} (spec: the higher one, the commit certificate on a tie)"),
                                op.clone(),
                            );
                        }
                        if nv.verify(g, e, &sched).is_err() {
                            out.oracle_fail("sent_not_self_justifying", "emitted new-view does not verify in isolation", op.clone());
                        }
                        let ok = last_persist.is_some_and(|st| st.view_number.0 >= nv.view().number.0.min(st.view_number.0));
                        if !ok {
                            out.oracle_fail("send_before_persist:newview", "a new-view left the node before the view change was durable", op.clone());
                        }
                    }
                    v2::ChonkyMsg::LeaderProposal(_) => {}
                }
            }
            _ => {}
        }
    }
    // C03: no equivocation over everything this key ever sent (all incarnations)
    check_equivocation(&rig.sent_history, op, out);
    // C16b: vote caches bounded by the committee size
    let n = w.weights.len();
    mon.max_commit_views = mon.max_commit_views.max(snap.commit_views);
    mon.max_commit_qcs = mon.max_commit_qcs.max(snap.commit_qcs.1);
    mon.max_timeout_qcs = mon.max_timeout_qcs.max(snap.timeout_qcs);
    // one latest view per validator and kind; live views <= n; at most one partial certificate per (live view, voter)
    if snap.commit_views > n || snap.timeout_views > n || snap.commit_qcs.0 > n || snap.commit_qcs.1 > n * n || snap.timeout_qcs > n {
        out.oracle_fail("vote_cache_unbounded", "a vote cache grew beyond the committee size", op.clone());
    }
}

/// One commit vote per view; no commit vote at or below a view already timed out; signed views never go backwards.
pub fn check_equivocation(hist: &[validator::Signed<validator::ConsensusMsg>], op: &Value, out: &mut Out) {
    let mut commits: Vec<&v2::ReplicaCommit> = vec![];
    let mut max_timeout: Option<u64> = None;
    let mut max_signed: u64 = 0;
    for m in hist {
        let validator::ConsensusMsg::V2(cm) = &m.msg;
        match cm {
            v2::ChonkyMsg::ReplicaCommit(v) => {
                if commits.iter().any(|c| c.view.number == v.view.number && *c != v) {
                    out.oracle_fail("equivocation:two_commits_one_view", "two different commit votes signed for the same view", op.clone());
                }
                if max_timeout.is_some_and(|t| v.view.number.0 <= t) {
                    out.oracle_fail("equivocation:commit_after_timeout", "a commit vote signed for a view at or below a view already timed out", op.clone());
                }
                if v.view.number.0 < max_signed {
                    out.oracle_fail("equivocation:views_backwards", "the views of signed votes went backwards", op.clone());
                }
                max_signed = max_signed.max(v.view.number.0);
                commits.push(v);
            }
            v2::ChonkyMsg::ReplicaTimeout(t) => {
                if t.view.number.0 < max_signed {
                    out.oracle_fail("equivocation:views_backwards", "the views of signed votes went backwards", op.clone());
                }
                max_signed = max_signed.max(t.view.number.0);
                max_timeout = Some(max_timeout.map_or(t.view.number.0, |x| x.max(t.view.number.0)));
            }
            _ => {}
        }
    }
}

// ------------------------------------------------------------------------------------------------ generation

struct Gen<'a> {
    leader_table: &'a [usize],
    certified: &'a mut std::collections::HashMap<u64, (u64, u64)>,
    rng: &'a mut StdRng,
    n: usize,
    weights: Vec<u64>,
    me: usize,
}

impl Gen<'_> {
    fn leader(&self, view: u64) -> usize {
        self.leader_table.get(view as usize).copied().unwrap_or((view % self.n as u64) as usize)
    }
    fn quorum_set(&mut self) -> Vec<usize> {
        let mut order: Vec<usize> = (0..self.n).collect();
        order.shuffle(self.rng);
        let q = quorum(&self.weights);
        let mut s = vec![];
        let mut w = 0;
        for i in order {
            if w >= q {
                break;
            }
            s.push(i);
            w += self.weights[i];
        }
        s.sort();
        s
    }
    /// A justification for entering `cur` (>= 1) built from what the replica holds: the certified block of view cur-1 if its
    /// highest commit certificate is for that view, else a "nobody voted" timeout certificate of view cur-1 over that
    /// certificate. Certifies nothing new.
    fn just_held(&mut self, cur: u64, hc_view: Option<u64>) -> AJust {
        let prev = cur - 1;
        match hc_view {
            Some(v) if v == prev && self.certified.contains_key(&v) => AJust::Commit(self.valid_cqc(v, 0, 0)),
            _ => {
                let hq = hc_view.filter(|v| self.certified.contains_key(v) && *v < prev).map(|v| self.valid_cqc(v, 0, 0));
                let signers = self.quorum_set();
                AJust::Timeout(atqc(self.n, aview(prev), &[(ATVote { view: aview(prev), hv: None, hq }, signers)]))
            }
        }
    }
    /// A valid commit certificate for `view`. Within one case at most one block is ever certified per view (as in any
    /// execution with at most f faulty weight): the first (n, h) chosen for a view is reused.
    fn valid_cqc(&mut self, view: u64, n: u64, h: u64) -> ACqc {
        let s = self.quorum_set();
        let (n, h) = *self.certified.entry(view).or_insert((n, h));
        acqc(self.n, avote(view, n, h), &s)
    }
    /// a view near `cur`: below / equal / one above / a few above / far above
    fn near_view(&mut self, cur: u64) -> u64 {
        match self.rng.gen_range(0..10) {
            0 => cur.saturating_sub(self.rng.gen_range(1..3)),
            1..=4 => cur,
            5..=6 => cur + 1,
            7..=8 => cur + self.rng.gen_range(2..5),
            _ => cur + self.rng.gen_range(5..40),
        }
    }
    /// a timeout certificate for `view` whose implied block is controlled by `shape`
    fn tqc_for(&mut self, view: u64, base_n: u64, shape: u8) -> ATqc {
        let signers = self.quorum_set();
        let n = self.n;
        let hq = if base_n > 0 || self.rng.gen_bool(0.5) {
            let qview = view.saturating_sub(self.rng.gen_range(1..3));
            let h = self.rng.gen_range(1..4);
            Some(self.valid_cqc(qview, base_n, h))
        } else {
            None
        };
        let hqn = hq.as_ref().map(|q| q.vote.n);
        let groups: Vec<(ATVote, Vec<usize>)> = match shape % 5 {
            // everybody reports the same high vote above the certificate: forced re-proposal
            0 => {
                let hv = Some(avote(view, hqn.map_or(0, |x| x + 1), 2));
                vec![(ATVote { view: aview(view), hv, hq }, signers)]
            }
            // high vote equal to the certified block: fresh proposal
            1 => {
                let hv = hq.as_ref().map(|q| q.vote.clone());
                vec![(ATVote { view: aview(view), hv, hq }, signers)]
            }
            // split votes: two groups with different high votes
            2 => {
                let k = signers.len() / 2;
                let (a, b) = signers.split_at(k.max(1).min(signers.len()));
                let mut gs = vec![(ATVote { view: aview(view), hv: Some(avote(view, hqn.map_or(0, |x| x + 1), 2)), hq: hq.clone() }, a.to_vec())];
                if !b.is_empty() {
                    gs.push((ATVote { view: aview(view), hv: Some(avote(view, hqn.map_or(0, |x| x + 1), 3)), hq }, b.to_vec()));
                }
                gs
            }
            // nobody voted
            3 => vec![(ATVote { view: aview(view), hv: None, hq }, signers)],
            // the same block reported through votes cast in different views (a re-proposed block): one candidate
            _ => {
                let k = signers.len() / 2;
                let (a, b) = signers.split_at(k.max(1).min(signers.len()));
                let blk = hqn.map_or(0, |x| x + 1);
                let mut gs = vec![(ATVote { view: aview(view), hv: Some(avote(view, blk, 2)), hq: hq.clone() }, a.to_vec())];
                if !b.is_empty() {
                    gs.push((ATVote { view: aview(view), hv: Some(avote(view.saturating_sub(1), blk, 2)), hq }, b.to_vec()));
                }
                gs
            }
        };
        atqc(n, aview(view), &groups)
    }
    fn just_for_view(&mut self, view: u64, base_n: u64) -> AJust {
        // a justification whose view() is `view` (certificate of view-1)
        let prev = view.wrapping_sub(1);
        if self.rng.gen_bool(0.5) {
            let h = self.rng.gen_range(1..4);
            AJust::Commit(self.valid_cqc(prev, base_n, h))
        } else {
            let shape = self.rng.gen_range(0..5);
            AJust::Timeout(self.tqc_for(prev, base_n, shape))
        }
    }
}

impl ReplicaProp {
    /// Adaptive scenario generation: looks at the real replica's snapshot to aim messages at the interesting
    /// boundaries (current view / phase / certificates held).
    fn scenario(&mut self, opts: &Opts, out: &mut Out) {
        let mut rng = opts.rng();
        let ncases = match self.mode {
            Mode::Handlers => (opts.n / 40).max(3),
            Mode::Crash => (opts.n / 30).max(3),
            Mode::Flood => (opts.n / 60).max(2),
            Mode::Progress => (opts.n / 30).max(3),
        };
        let steps = match self.mode {
            Mode::Handlers => 40,
            Mode::Crash => 30,
            Mode::Flood => 60,
            Mode::Progress => 30,
        };
        for case in 0..ncases {
            let weights = if case % 3 == 0 { vec![1; rng.gen_range(4..=7)] } else { let mut w = random_weights(&mut rng); while w.len() < 2 { w = random_weights(&mut rng); } w };
            let n = weights.len();
            let me = rng.gen_range(0..n);
            let first = if rng.gen_bool(0.7) { 0 } else { rng.gen_range(1..4) };
            let mut init = json!({"op":"init","reset":true,"weights":weights,"first":first,"wseed":rng.gen_range(0..100000u64),"me":me,"max_payload":MAX_PAYLOAD});
            // every other case: a leader schedule other than "everybody, round-robin, every view"
            if case % 2 == 1 && self.mode != Mode::Flood {
                let mut leaders: Vec<bool> = (0..n).map(|_| rng.gen_bool(0.6)).collect();
                if !leaders.iter().any(|l| *l) {
                    leaders[rng.gen_range(0..n)] = true;
                }
                init["leaders"] = json!(leaders);
                init["freq"] = json!(*[1u64, 2, 3, 5, 0].choose(&mut rng).unwrap());
                init["mode"] = json!(if rng.gen_bool(0.5) { "weighted" } else { "rr" });
            }
            let (op, obs) = self.exec_full(&init, out);
            out.emit(op, obs);
            self.last_notify = None;
            let mut fresh = 100u64;
            // the last proposal the replica voted on (for the equivocating-leader-around-a-crash family)
            let mut last_voted_proposal: Option<Value> = None;
            let mut certified: std::collections::HashMap<u64, (u64, u64)> = Default::default();
            let mut pending: std::collections::VecDeque<Value> = Default::default();
            // warm-up: in half of the cases the first 1-4 views run the happy path (the right leader proposes a fresh block on
            // top of what the replica holds, the replica votes, the commit certificate for that vote arrives), so that the
            // finalisation path hands real blocks to the store before the random part starts
            let mut happy: u32 = if self.mode != Mode::Flood && rng.gen_bool(0.5) { rng.gen_range(1..5) } else { 0 };
            let mut fam_counter: usize = case;
            for _ in 0..steps {
                if let Some(op) = pending.pop_front() {
                    let (op, obs) = self.exec_full(&op, out);
                    out.emit(op, obs);
                    continue;
                }
                let snap = self.s.as_ref().unwrap().rig.snapshot();
                let cur = snap.view.0;
                let base_n = snap.high_commit_qc.as_ref().map_or(first, |q| q.header().number.0 + 1);
                let table = self.leader_table.clone();
                let mut g = Gen { leader_table: &table, certified: &mut certified, rng: &mut rng, n, weights: weights.clone(), me };
                if happy > 0 {
                    let hc_view = snap.high_commit_qc.as_ref().map(|q| q.view().number.0);
                    let op = if cur == 0 && snap.phase != v2::Phase::Timeout {
                        Some(json!({"op":"tick","crash":Value::Null}))
                    } else if cur == 0 {
                        let signers = g.quorum_set();
                        let tq = atqc(n, aview(0), &[(ATVote { view: aview(0), hv: None, hq: None }, signers)]);
                        Some(json!({"op":"msg","from":g.rng.gen_range(0..n),"sig_ok":true,"msg":{"newview":AJust::Timeout(tq)}}))
                    } else if snap.phase == v2::Phase::Prepare {
                        let just = g.just_held(cur, hc_view);
                        fresh += 1;
                        if !payload_ok(fresh) { fresh += 1; }
                        happy -= 1;
                        Some(json!({"op":"msg","from":g.leader(cur),"sig_ok":true,"msg":{"proposal":{"payload":fresh,"just":just}},"crash":Value::Null}))
                    } else {
                        happy = 0;
                        None
                    };
                    if let Some(op) = op {
                        out.count("warmup_step");
                        let (op, obs) = self.exec_full(&op, out);
                        // the commit certificate for the vote just cast
                        if let Some((v, bn, h)) = obs["effects"].as_array().and_then(|effs| effs.iter().find_map(|e| { let cv = e.get("send")?.get("commit")?; Some((cv["view"]["v"].as_u64()?, cv["n"].as_u64()?, cv["h"].as_u64()?)) })) {
                            let table = self.leader_table.clone();
                            let mut g = Gen { leader_table: &table, certified: &mut certified, rng: &mut rng, n, weights: weights.clone(), me };
                            let q = g.valid_cqc(v, bn, h);
                            if q.vote.n == bn && q.vote.h == h {
                                pending.push_back(json!({"op":"msg","from":g.rng.gen_range(0..n),"sig_ok":true,"msg":{"newview":AJust::Commit(q)}}));
                            }
                        }
                        out.emit(op, obs);
                        continue;
                    }
                }
                // directed multi-message families (10% of the steps), in rotation so that every case sees each of them
                if self.mode != Mode::Flood && g.rng.gen_range(0..100) < 10 {
                    let hc_view = snap.high_commit_qc.as_ref().map(|q| q.view().number.0);
                    let ht_view = snap.high_timeout_qc.as_ref().map(|q| q.view.number.0);
                    let fam = fam_counter % 6;
                    fam_counter += 1;
                    // helper: a quorum of plain timeout votes for `v` from distinct signers (the replica assembles TimeoutQC(v))
                    let timeouts_for = |g: &mut Gen, pending: &mut std::collections::VecDeque<Value>, v: u64| {
                        let hq = hc_view.filter(|x| g.certified.contains_key(x) && *x < v).map(|x| g.valid_cqc(x, 0, 0));
                        for i in g.quorum_set() {
                            pending.push_back(json!({"op":"msg","from":i,"sig_ok":true,"msg":{"timeout":ATVote { view: aview(v), hv: None, hq: hq.clone() }}}));
                        }
                    };
                    if cur >= 2 && ht_view == Some(cur - 1) && hc_view.is_none_or(|v| v + 2 < cur) && !g.certified.contains_key(&(cur - 2)) && g.rng.gen_bool(0.5) {
                        // the replica entered this view on a timeout certificate; the view's leader assembled a DIFFERENT timeout
                        // certificate for the same view, one of whose votes carries a commit certificate the replica has not
                        // seen: it must be adopted although the timeout certificate itself brings nothing new
                        out.count("family=richer_timeout_qc_for_passed_view");
                        let h = g.rng.gen_range(1..4);
                        let hq = Some(g.valid_cqc(cur - 2, base_n, h));
                        let signers = g.quorum_set();
                        let tq = atqc(n, aview(cur - 1), &[(ATVote { view: aview(cur - 1), hv: None, hq }, signers)]);
                        let leader = g.leader(cur);
                        if g.rng.gen_bool(0.6) {
                            pending.push_back(json!({"op":"msg","from":leader,"sig_ok":true,"msg":{"newview":AJust::Timeout(tq)}}));
                        } else {
                            fresh += 1;
                            if !payload_ok(fresh) { fresh += 1; }
                            pending.push_back(json!({"op":"msg","from":leader,"sig_ok":true,"msg":{"proposal":{"payload":fresh,"just":AJust::Timeout(tq)}},"crash":Value::Null}));
                        }
                        continue;
                    }
                    match fam {
                        // a quorum of votes of one kind for ONE view at or above the current one, from distinct signers: the
                        // replica assembles the certificate itself and must move to the view after the CERTIFICATE's view
                        0 => {
                            out.count("family=vote_burst");
                            let w_view = cur + *[0u64, 0, 1, 2, 7].choose(g.rng).unwrap();
                            let h = g.rng.gen_range(1..4);
                            let (bn, h) = *g.certified.entry(w_view).or_insert((base_n, h));
                            for i in g.quorum_set() {
                                pending.push_back(json!({"op":"msg","from":i,"sig_ok":true,"msg":{"commit":avote(w_view, bn, h)}}));
                            }
                        }
                        1 => {
                            out.count("family=vote_burst");
                            let w_view = cur + *[0u64, 0, 1, 2, 7].choose(g.rng).unwrap();
                            timeouts_for(&mut g, &mut pending, w_view);
                        }
                        // the view's timer fires, then the leader's new-view and proposal for the SAME view arrive late: a
                        // timeout vote is a promise not to vote in that view any more
                        2 if cur >= 1 => {
                            out.count("family=late_leader_after_timeout");
                            let just = g.just_held(cur, hc_view);
                            let leader = g.leader(cur);
                            fresh += 1;
                            if !payload_ok(fresh) { fresh += 1; }
                            pending.push_back(json!({"op":"tick","crash":Value::Null}));
                            pending.push_back(json!({"op":"msg","from":leader,"sig_ok":true,"msg":{"newview":just.clone()}}));
                            pending.push_back(json!({"op":"msg","from":leader,"sig_ok":true,"msg":{"proposal":{"payload":fresh,"just":just}},"crash":Value::Null}));
                        }
                        // a validator's vote for the current view, another validator's vote for it (keeps the partial
                        // certificate alive), the first validator's vote for a FUTURE view, then its old vote again
                        2 | 3 => {
                            out.count("family=stale_resend_after_future_vote");
                            let i = g.rng.gen_range(0..n);
                            let j = (i + 1 + g.rng.gen_range(0..n - 1)) % n;
                            let fut = cur + g.rng.gen_range(1..6);
                            if g.rng.gen_bool(0.5) {
                                let h = g.rng.gen_range(1..4);
                                let (bn, h) = *g.certified.entry(cur).or_insert((base_n, h));
                                let (fb, fh) = *g.certified.entry(fut).or_insert((base_n + 1, h));
                                for (from, v, b_, h_) in [(i, cur, bn, h), (j, cur, bn, h), (i, fut, fb, fh), (i, cur, bn, h)] {
                                    pending.push_back(json!({"op":"msg","from":from,"sig_ok":true,"msg":{"commit":avote(v, b_, h_)}}));
                                }
                            } else {
                                for (from, v) in [(i, cur), (j, cur), (i, fut), (i, cur)] {
                                    pending.push_back(json!({"op":"msg","from":from,"sig_ok":true,"msg":{"timeout":ATVote { view: aview(v), hv: None, hq: None }}}));
                                }
                            }
                        }
                        // the replica assembles TimeoutQC(cur) and moves on; then the next view's leader shows up with ANOTHER
                        // timeout certificate for the same view that carries a commit certificate the replica has not seen
                        4 if cur >= 1 && hc_view.is_none_or(|v| v + 1 < cur) && !g.certified.contains_key(&(cur - 1)) => {
                            out.count("family=richer_timeout_qc_for_passed_view");
                            timeouts_for(&mut g, &mut pending, cur);
                            let h = g.rng.gen_range(1..4);
                            let hq2 = Some(g.valid_cqc(cur - 1, base_n, h));
                            let s2 = g.quorum_set();
                            let tq = atqc(n, aview(cur), &[(ATVote { view: aview(cur), hv: None, hq: hq2 }, s2)]);
                            pending.push_back(json!({"op":"msg","from":g.leader(cur + 1),"sig_ok":true,"msg":{"newview":AJust::Timeout(tq)}}));
                        }
                        // ... or proposes on top of a FABRICATED timeout certificate for the view the replica has just left (too
                        // little weight behind it / one signature missing): holding a genuine certificate for that view is no
                        // reason to skip verification
                        _ => {
                            out.count("family=forged_timeout_qc_for_passed_view");
                            timeouts_for(&mut g, &mut pending, cur);
                            let few: Vec<usize> = g.quorum_set().into_iter().take(1 + g.rng.gen_range(0..2)).collect();
                            let mut tq = if g.rng.gen_bool(0.5) {
                                atqc(n, aview(cur), &[(ATVote { view: aview(cur), hv: None, hq: None }, few)])
                            } else {
                                let s3 = g.quorum_set();
                                atqc(n, aview(cur), &[(ATVote { view: aview(cur), hv: None, hq: None }, s3)])
                            };
                            if tq.sig.len() > 2 {
                                tq.sig.pop();
                            }
                            fresh += 1;
                            if !payload_ok(fresh) { fresh += 1; }
                            pending.push_back(json!({"op":"msg","from":g.leader(cur + 1),"sig_ok":true,"msg":{"proposal":{"payload":fresh,"just":AJust::Timeout(tq)}},"crash":Value::Null}));
                        }
                    }
                    continue;
                }
                let roll = g.rng.gen_range(0..100);
                let crash = if self.mode == Mode::Crash && g.rng.gen_bool(0.35) {
                    json!({"at": g.rng.gen_range(0..2), "applied": g.rng.gen_bool(0.5)})
                } else {
                    Value::Null
                };
                let op = match self.mode {
                    Mode::Flood if roll < 70 => {
                        // validly signed votes for arbitrary future views from a few validators
                        let from = g.rng.gen_range(0..n);
                        let view = cur + g.rng.gen_range(0..1000);
                        match g.rng.gen_range(0..5) {
                            0 | 1 => json!({"op":"msg","from":from,"sig_ok":true,"msg":{"commit": avote(view, g.rng.gen_range(0..5), g.rng.gen_range(1..4))}}),
                            2 | 3 => json!({"op":"msg","from":from,"sig_ok":true,"msg":{"timeout": ATVote{view: aview(view), hv: None, hq: None}}}),
                            // validly signed, well-formed view, but content that does not verify (high vote of another chain):
                            // rejected messages must leave no trace in the caches either
                            _ => {
                                let mut hv = avote(view.saturating_sub(1), g.rng.gen_range(0..5), 2);
                                hv.view.g = 1;
                                json!({"op":"msg","from":from,"sig_ok":true,"msg":{"timeout": ATVote{view: aview(view), hv: Some(hv), hq: None}}})
                            }
                        }
                    }
                    _ if roll < 9 => {
                        if self.mode == Mode::Crash && crash.is_null() && g.rng.gen_bool(0.3) {
                            // shutdown while the timer fires, then the process comes back
                            pending.push_back(json!({"op":"restart"}));
                            json!({"op":"tick","crash":crash,"shutdown":true})
                        } else {
                            json!({"op":"tick","crash":crash})
                        }
                    }
                    _ if roll < 10 => json!({"op":"prune"}),
                    _ if roll < 14 => json!({"op":"restart"}),
                    _ if roll < 34 => {
                        // proposal: right / wrong leader, current / next / stale / future view, each payload shape
                        let view = g.near_view(cur).max(1);
                        // mostly the next block; sometimes a much older one (already pruned from the store)
                        let back = if g.rng.gen_bool(0.12) { g.rng.gen_range(0..=base_n) } else { g.rng.gen_range(0..2) };
                        let just = g.just_for_view(view, base_n.saturating_sub(back));
                        let from = if g.rng.gen_bool(0.85) { g.leader(view) } else { g.rng.gen_range(0..n + 2) };
                        let implied = spec_implied(&weights, first, &just);
                        let payload = match (implied.1.is_some(), g.rng.gen_range(0..10)) {
                            (true, 0) => json!(7),            // re-proposal with a payload
                            (true, _) => Value::Null,
                            (false, 0) => Value::Null,          // missing payload
                            (false, 1) => json!(3 + 7 * g.rng.gen_range(0..5u64)), // rejected by the execution layer
                            (false, 2) => json!(((MAX_PAYLOAD as u64 + 1) << 32) | 5), // oversized
                            (false, _) => { fresh += 1; if !payload_ok(fresh) { fresh += 1; } json!(fresh) }
                        };
                        let sig_ok = g.rng.gen_bool(0.93);
                        let mut just = just;
                        match g.rng.gen_range(0..12) {
                            0 => { if let AJust::Commit(q) = &mut just { q.vote.view.e = 1; for s in &mut q.sig { s.1.view.e = 1; } } }
                            1 => { if let AJust::Commit(q) = &mut just { if !q.sig.is_empty() { q.sig.pop(); } } }
                            2 => { if let AJust::Timeout(q) = &mut just { if !q.sig.is_empty() { q.sig.pop(); } } }
                            _ => {}
                        }
                        json!({"op":"msg","from":from,"sig_ok":sig_ok,"msg":{"proposal":{"payload":payload,"just":just}},"crash":crash})
                    }
                    _ if roll < 54 => {
                        // commit votes: towards a quorum for the replica's own high vote, or arbitrary
                        let from = g.rng.gen_range(0..n + 1);
                        let vote = match (&snap.high_vote, g.rng.gen_range(0..10)) {
                            (Some(hv), 0..=6) => {
                                let s = self.s.as_mut().unwrap();
                                s.w.a_vote(hv)
                            }
                            _ => avote(g.near_view(cur), base_n, g.rng.gen_range(1..4)),
                        };
                        let mut vote = vote;
                        if g.rng.gen_range(0..25) == 0 { vote.view.g = 1; }
                        json!({"op":"msg","from":from,"sig_ok":g.rng.gen_bool(0.95),"msg":{"commit":vote},"crash":crash})
                    }
                    _ if roll < 74 => {
                        // timeout votes, mostly for the current view with plausible contents
                        let from = g.rng.gen_range(0..n + 1);
                        let view = if g.rng.gen_bool(0.7) { cur } else { g.near_view(cur) };
                        let hq = if g.rng.gen_bool(0.6) && view > 0 { let qv = view.saturating_sub(g.rng.gen_range(1..3)); Some(g.valid_cqc(qv, base_n.saturating_sub(1), 2)) } else { None };
                        let hv = if g.rng.gen_bool(0.6) { Some(avote(view.saturating_sub(g.rng.gen_range(0..2)), base_n, g.rng.gen_range(1..3))) } else { None };
                        let mut t = ATVote { view: aview(view), hv, hq };
                        if g.rng.gen_range(0..20) == 0 { if let Some(q) = &mut t.hq { q.sig.pop(); } }
                        json!({"op":"msg","from":from,"sig_ok":g.rng.gen_bool(0.95),"msg":{"timeout":t},"crash":crash})
                    }
                    _ if roll < 92 => {
                        // new-view
                        let view = g.near_view(cur).max(1);
                        let back = g.rng.gen_range(0..2);
                        let just = g.just_for_view(view, base_n.saturating_sub(back));
                        let from = if g.rng.gen_bool(0.3) { g.leader(cur) } else { g.rng.gen_range(0..n + 1) };
                        json!({"op":"msg","from":from,"sig_ok":g.rng.gen_bool(0.95),"msg":{"newview":just},"crash":crash})
                    }
                    _ => {
                        let np = *self.s.as_ref().unwrap().rig.engine.0.next_payload.lock().unwrap();
                        let np = if payload_ok(np) { np } else { np + 1 };
                        json!({"op":"propose","just":self.last_notify.clone().unwrap_or(Value::Null),"fresh":np})
                    }
                };
                let (op, obs) = self.exec_full(&op, out);
                if op["op"] == "msg" && op["msg"].get("proposal").is_some() && (obs["class"] == "accepted" || obs["class"] == "crashed") {
                    last_voted_proposal = Some(op.clone());
                    // equivocating leader around a crash: after the replica voted (or crashed while voting), restart it
                    // and deliver a DIFFERENT proposal for the same view (same justification, other payload)
                    if self.mode == Mode::Crash && rng.gen_bool(0.6) {
                        if let Some(mut p2) = last_voted_proposal.clone() {
                            if p2["msg"]["proposal"]["payload"].is_u64() {
                                fresh += 2;
                                if !payload_ok(fresh) { fresh += 1; }
                                p2["msg"]["proposal"]["payload"] = json!(fresh);
                                p2["crash"] = Value::Null;
                                p2["sig_ok"] = json!(true);
                                if rng.gen_bool(0.8) { pending.push_back(json!({"op":"restart"})); }
                                pending.push_back(p2);
                            }
                        }
                    }
                }
                // a proposal moved the replica to a later view (on_proposal is the one handler that changes the view without
                // start_new_view): new-views for THAT view now arrive from its leader, from the previous view's leader and
                // from somebody else — only the first may be processed
                if self.mode != Mode::Flood && op["op"] == "msg" && op["msg"].get("proposal").is_some() && obs["class"] == "accepted" {
                    let after = self.s.as_ref().unwrap().rig.snapshot();
                    let now = after.view.0;
                    if now > cur && now >= 1 && rng.gen_bool(0.7) {
                        out.count("followup=newviews_after_view_jump_by_proposal");
                        let hc_view = after.high_commit_qc.as_ref().map(|q| q.view().number.0);
                        let table = self.leader_table.clone();
                        let mut g = Gen { leader_table: &table, certified: &mut certified, rng: &mut rng, n, weights: weights.clone(), me };
                        let just = g.just_held(now, hc_view);
                        let mut froms = vec![g.leader(cur), g.leader(now), g.rng.gen_range(0..n)];
                        froms.shuffle(g.rng);
                        for from in froms {
                            pending.push_back(json!({"op":"msg","from":from,"sig_ok":true,"msg":{"newview":just.clone()}}));
                        }
                    }
                }
                // finalisation path (process_commit_qc -> save_block -> hand-over to the store): when the replica has just
                // voted for a block whose payload it holds, half of the time the commit certificate for exactly that vote
                // arrives next — in a new-view of the following view, or in the next leader's proposal
                if self.mode != Mode::Flood {
                    let voted: Option<(u64, u64, u64)> = obs["effects"].as_array().and_then(|effs| {
                        effs.iter().find_map(|e| {
                            let cv = e.get("send")?.get("commit")?;
                            Some((cv["view"]["v"].as_u64()?, cv["n"].as_u64()?, cv["h"].as_u64()?))
                        })
                    });
                    if let Some((v, bn, h)) = voted {
                        if rng.gen_bool(0.5) {
                            let table = self.leader_table.clone();
                            let mut g = Gen { leader_table: &table, certified: &mut certified, rng: &mut rng, n, weights: weights.clone(), me };
                            let q = g.valid_cqc(v, bn, h);
                            if q.vote.n == bn && q.vote.h == h {
                                let from = g.rng.gen_range(0..n);
                                out.count("followup=commit_qc_for_own_vote");
                                if g.rng.gen_bool(0.6) {
                                    pending.push_back(json!({"op":"msg","from":from,"sig_ok":true,"msg":{"newview":AJust::Commit(q)}}));
                                } else {
                                    fresh += 2;
                                    if !payload_ok(fresh) { fresh += 1; }
                                    let leader = g.leader(v + 1);
                                    pending.push_back(json!({"op":"msg","from":leader,"sig_ok":true,"msg":{"proposal":{"just":AJust::Commit(q),"payload":fresh}}}));
                                }
                            }
                        }
                    }
                }
                out.emit(op, obs);
            }
        }
    }
}

/// A real justification as an abstract value (re-signed by exactly its signers; only meaningful for certificates
/// that verify, which is what the replica hands to its proposer).
pub fn abs_just(w: &mut World, n: usize, j: &v2::ProposalJustification) -> AJust {
    fn abs_cqc(w: &mut World, n: usize, c: &v2::CommitQC) -> ACqc {
        let signers: Vec<usize> = (0..n.min(c.signers.len())).filter(|i| c.signers.0[*i]).collect();
        let v = w.a_vote(&c.message);
        acqc(n, v, &signers)
    }
    match j {
        v2::ProposalJustification::Commit(q) => AJust::Commit(abs_cqc(w, n, q)),
        v2::ProposalJustification::Timeout(q) => {
            let mut groups = vec![];
            for (t, sg) in &q.map {
                let hv = t.high_vote.as_ref().map(|v| w.a_vote(v));
                let hq = t.high_qc.as_ref().map(|c| abs_cqc(w, n, c));
                let idx: Vec<usize> = (0..n.min(sg.len())).filter(|i| sg.0[*i]).collect();
                groups.push((ATVote { view: w.a_view(&t.view), hv, hq }, idx));
            }
            AJust::Timeout(atqc(n, w.a_view(&q.view), &groups))
        }
    }
}

impl Prop for ReplicaProp {
    fn gen(&mut self, _opts: &Opts) -> Vec<Value> {
        vec![]
    }
    fn exec(&mut self, op: &Value, out: &mut Out) -> Value {
        self.exec_full(op, out).1
    }
    fn adaptive(&mut self, opts: &Opts, out: &mut Out) -> bool {
        self.scenario(opts, out);
        true
    }
}
