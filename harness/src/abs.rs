//! Abstract consensus values (the operation language shared with the Lean model, DESIGN §4.2) and their
//! realisation as genuinely signed Rust values. The harness owns all secret keys of a small committee, so it can
//! realise any abstract certificate — including ones whose aggregate signature is *not* what the bitmap
//! claims — and abstract back whatever the real code emits.
//!
//! JSON shapes must match `lean/Driver/CJson.lean`.
use std::collections::HashMap;

use rand::{rngs::StdRng, Rng, SeedableRng};
use serde::{Deserialize, Serialize};
use zksync_consensus_roles::validator::{self, v2};

#[derive(Clone, Debug, PartialEq, Eq, Hash, Serialize, Deserialize, PartialOrd, Ord)]
pub struct AView {
    pub g: u64,
    pub e: u64,
    pub v: u64,
}

#[derive(Clone, Debug, PartialEq, Eq, Hash, Serialize, Deserialize, PartialOrd, Ord)]
pub struct AVote {
    pub view: AView,
    pub n: u64,
    pub h: u64,
}

#[derive(Clone, Debug, PartialEq, Eq, Hash, Serialize, Deserialize, PartialOrd, Ord)]
pub struct ACqc {
    pub vote: AVote,
    pub signers: Vec<bool>,
    /// symbolic aggregate: (signer index, signed vote); index ≥ n = a key outside the committee
    pub sig: Vec<(usize, AVote)>,
}

#[derive(Clone, Debug, PartialEq, Eq, Hash, Serialize, Deserialize, PartialOrd, Ord)]
pub struct ATVote {
    pub view: AView,
    pub hv: Option<AVote>,
    pub hq: Option<ACqc>,
}

#[derive(Clone, Debug, PartialEq, Eq, Hash, Serialize, Deserialize)]
pub struct ATqc {
    pub view: AView,
    /// groups in the iteration order of the real `BTreeMap<ReplicaTimeout, Signers>`
    pub map: Vec<(ATVote, Vec<bool>)>,
    pub sig: Vec<(usize, ATVote)>,
}

#[derive(Clone, Debug, PartialEq, Eq, Hash, Serialize, Deserialize)]
#[serde(rename_all = "lowercase")]
pub enum AJust {
    Commit(ACqc),
    Timeout(ATqc),
}

/// Number of spare keys outside the committee (signer indices n .. n+EXTRA).
pub const EXTRA_KEYS: usize = 3;

/// One committee with all its secret keys, in canonical (public-key sorted) order.
pub struct World {
    pub keys: Vec<validator::SecretKey>,
    pub extra: Vec<validator::SecretKey>,
    pub weights: Vec<u64>,
    pub genesis_full: validator::Genesis,
    pub schedule: validator::Schedule,
    pub genesis: validator::GenesisHash,
    pub epoch: validator::EpochNumber,
    pub first: validator::BlockNumber,
    other_genesis: HashMap<u64, validator::GenesisHash>,
    hash_ids: HashMap<validator::PayloadHash, u64>,
    sig_cache: HashMap<(usize, Vec<u8>), validator::Signature>,
    rng: StdRng,
}

impl World {
    /// `weights[i]` is the weight of the validator with canonical index i.
    pub fn new(seed: u64, weights: &[u64], leaders: &[bool], sel: validator::LeaderSelection, first: u64) -> Self {
        let mut rng = StdRng::seed_from_u64(seed ^ 0x5eed);
        let mut keys: Vec<validator::SecretKey> = (0..weights.len()).map(|_| rng.gen()).collect();
        keys.sort_by_key(|k| k.public());
        let extra: Vec<validator::SecretKey> = (0..EXTRA_KEYS).map(|_| rng.gen()).collect();
        let schedule = validator::Schedule::new(
            keys.iter().zip(weights).zip(leaders).map(|((k, w), l)| validator::ValidatorInfo {
                key: k.public(),
                weight: *w,
                leader: *l,
            }),
            sel,
        )
        .expect("valid schedule");
        let genesis = validator::GenesisRaw {
            chain_id: validator::ChainId(1337),
            fork_number: validator::ForkNumber(0),
            first_block: validator::BlockNumber(first),
            protocol_version: validator::ProtocolVersion::CURRENT,
            validators_schedule: Some(schedule.clone()),
        }
        .with_hash();
        Self {
            keys,
            extra,
            weights: weights.to_vec(),
            schedule,
            genesis: genesis.hash(),
            epoch: validator::EpochNumber(0),
            first: validator::BlockNumber(first),
            genesis_full: genesis.clone(),
            other_genesis: HashMap::new(),
            hash_ids: HashMap::new(),
            sig_cache: HashMap::new(),
            rng,
        }
    }

    pub fn n(&self) -> usize {
        self.keys.len()
    }

    pub fn key(&self, i: usize) -> &validator::SecretKey {
        if i < self.keys.len() {
            &self.keys[i]
        } else {
            &self.extra[(i - self.keys.len()) % EXTRA_KEYS]
        }
    }

    /// canonical index of a public key (`None` = not a member)
    pub fn index(&self, k: &validator::PublicKey) -> Option<usize> {
        self.schedule.index(k)
    }

    /// index including the spare keys (n + j), for abstraction of signers
    pub fn any_index(&self, k: &validator::PublicKey) -> Option<usize> {
        self.index(k).or_else(|| self.extra.iter().position(|e| &e.public() == k).map(|j| self.n() + j))
    }

    // ---------------------------------------------------------------- realisation

    pub fn payload(&mut self, id: u64) -> validator::Payload {
        // id in the low bits; ids ≥ 2^32 mark "large" payloads: size = id >> 32 bytes
        let size = std::cmp::max(8, (id >> 32) as usize);
        let mut bytes = vec![0u8; size];
        bytes[..8].copy_from_slice(&id.to_le_bytes());
        let p = validator::Payload(bytes);
        self.hash_ids.insert(p.hash(), id);
        p
    }

    /// id of a payload built by `payload` (or by the harness engine): its first 8 bytes
    pub fn payload_id(&mut self, p: &validator::Payload) -> u64 {
        let mut b = [0u8; 8];
        let k = p.0.len().min(8);
        b[..k].copy_from_slice(&p.0[..k]);
        let id = u64::from_le_bytes(b);
        self.hash_ids.insert(p.hash(), id);
        id
    }

    pub fn payload_hash(&mut self, id: u64) -> validator::PayloadHash {
        self.payload(id).hash()
    }

    pub fn hash_id(&mut self, h: &validator::PayloadHash) -> u64 {
        if let Some(id) = self.hash_ids.get(h) {
            return *id;
        }
        // unknown hash (e.g. produced by the code under test from a payload we did not create)
        let id = 1_000_000 + self.hash_ids.len() as u64;
        self.hash_ids.insert(*h, id);
        id
    }

    pub fn genesis_hash(&mut self, g: u64) -> validator::GenesisHash {
        if g == 0 {
            self.genesis
        } else {
            let rng = &mut self.rng;
            *self.other_genesis.entry(g).or_insert_with(|| rng.gen())
        }
    }

    pub fn genesis_id(&self, g: &validator::GenesisHash) -> u64 {
        if *g == self.genesis {
            0
        } else {
            self.other_genesis.iter().find(|(_, v)| *v == g).map(|(k, _)| *k).unwrap_or(999)
        }
    }

    pub fn view(&mut self, v: &AView) -> v2::View {
        v2::View {
            genesis: self.genesis_hash(v.g),
            epoch: validator::EpochNumber(v.e),
            number: validator::ViewNumber(v.v),
        }
    }

    pub fn vote(&mut self, v: &AVote) -> v2::ReplicaCommit {
        v2::ReplicaCommit {
            view: self.view(&v.view),
            proposal: v2::BlockHeader {
                number: validator::BlockNumber(v.n),
                payload: self.payload_hash(v.h),
            },
        }
    }

    fn sign<V: zksync_consensus_utils::enum_util::Variant<validator::Msg> + Clone>(
        &mut self,
        i: usize,
        msg: &V,
    ) -> validator::Signature {
        let m: validator::Msg = msg.clone().insert();
        let h = m.hash();
        let key = (i, zksync_protobuf::canonical(&m));
        if let Some(s) = self.sig_cache.get(&key) {
            return s.clone();
        }
        let s = self.key(i).sign_hash(&h);
        self.sig_cache.insert(key, s.clone());
        s
    }

    pub fn signers(&self, b: &[bool]) -> v2::Signers {
        let mut s = v2::Signers::new(b.len());
        for (i, x) in b.iter().enumerate() {
            s.0.set(i, *x);
        }
        s
    }

    pub fn cqc(&mut self, q: &ACqc) -> v2::CommitQC {
        let message = self.vote(&q.vote);
        let mut sigs = vec![];
        for (i, v) in &q.sig {
            let rv = self.vote(v);
            sigs.push(self.sign(*i, &rv));
        }
        v2::CommitQC {
            message,
            signers: self.signers(&q.signers),
            signature: validator::AggregateSignature::aggregate(sigs.iter()),
        }
    }

    pub fn tvote(&mut self, t: &ATVote) -> v2::ReplicaTimeout {
        v2::ReplicaTimeout {
            view: self.view(&t.view),
            high_vote: t.hv.as_ref().map(|v| self.vote(v)),
            high_qc: t.hq.as_ref().map(|q| self.cqc(q)),
        }
    }

    /// Returns the certificate and the abstract certificate with `map` re-ordered to the real BTreeMap order
    /// (and groups with equal real keys merged the way `BTreeMap::insert` would: last wins).
    pub fn tqc(&mut self, q: &ATqc) -> (v2::TimeoutQC, ATqc) {
        let mut map = std::collections::BTreeMap::new();
        let mut back: Vec<(v2::ReplicaTimeout, ATVote)> = vec![];
        for (t, s) in &q.map {
            let rt = self.tvote(t);
            map.insert(rt.clone(), self.signers(s));
            back.push((rt, t.clone()));
        }
        let mut sigs = vec![];
        for (i, t) in &q.sig {
            let rt = self.tvote(t);
            sigs.push(self.sign(*i, &rt));
        }
        let ordered: Vec<(ATVote, Vec<bool>)> = map
            .iter()
            .map(|(rt, s)| {
                let at = back.iter().rev().find(|(r, _)| r == rt).unwrap().1.clone();
                (at, s.0.iter().collect())
            })
            .collect();
        let view = self.view(&q.view);
        (
            v2::TimeoutQC { view, map, signature: validator::AggregateSignature::aggregate(sigs.iter()) },
            ATqc { view: q.view.clone(), map: ordered, sig: q.sig.clone() },
        )
    }

    pub fn just(&mut self, j: &AJust) -> (v2::ProposalJustification, AJust) {
        match j {
            AJust::Commit(q) => (v2::ProposalJustification::Commit(self.cqc(q)), j.clone()),
            AJust::Timeout(q) => {
                let (r, a) = self.tqc(q);
                (v2::ProposalJustification::Timeout(r), AJust::Timeout(a))
            }
        }
    }

    /// Signs a consensus message with key `i` (`bad_sig`: the signature is over a different message).
    pub fn signed(&mut self, i: usize, msg: v2::ChonkyMsg, bad_sig: bool) -> validator::Signed<validator::ConsensusMsg> {
        let m = validator::ConsensusMsg::V2(msg);
        let mut s = self.key(i).sign_msg(m);
        if bad_sig {
            // a valid signature of the same key over another message
            let other = validator::ConsensusMsg::V2(v2::ChonkyMsg::ReplicaCommit(v2::ReplicaCommit {
                view: v2::View { genesis: self.genesis, epoch: self.epoch, number: validator::ViewNumber(u64::MAX - 7) },
                proposal: v2::BlockHeader { number: validator::BlockNumber(0), payload: self.payload_hash(0) },
            }));
            s.sig = self.key(i).sign_msg(other).sig;
        }
        s
    }

    // ---------------------------------------------------------------- abstraction (real → abstract)

    pub fn a_view(&self, v: &v2::View) -> AView {
        AView { g: self.genesis_id(&v.genesis), e: v.epoch.0, v: v.number.0 }
    }

    pub fn a_vote(&mut self, v: &v2::ReplicaCommit) -> AVote {
        AVote { view: self.a_view(&v.view), n: v.proposal.number.0, h: self.hash_id(&v.proposal.payload) }
    }

    /// Summary of a certificate emitted by the code under test: content, signer bitmap, and whether it verifies.
    pub fn sum_cqc(&mut self, q: &v2::CommitQC) -> serde_json::Value {
        let valid = q.verify(self.genesis, self.epoch, &self.schedule).is_ok();
        // the signer bitmap is deliberately not part of the summary (see Driver/CJson.lean: cqcSumJ)
        serde_json::json!({"vote": self.a_vote(&q.message), "valid": valid})
    }

    pub fn sum_tvote(&mut self, t: &v2::ReplicaTimeout) -> serde_json::Value {
        serde_json::json!({
            "view": self.a_view(&t.view),
            "hv": t.high_vote.as_ref().map(|v| self.a_vote(v)),
            "hq": t.high_qc.as_ref().map(|q| self.sum_cqc(q)),
        })
    }

    /// Summary of a timeout certificate: groups as a *sorted* list (the model does not reproduce BTreeMap order).
    pub fn sum_tqc(&mut self, q: &v2::TimeoutQC) -> serde_json::Value {
        let valid = q.verify(self.genesis, self.epoch, &self.schedule).is_ok();
        // groups sorted by the position of their first set bit (disjoint in every accepted certificate)
        let mut groups: Vec<(usize, serde_json::Value)> = q
            .map
            .iter()
            .map(|(t, s)| {
                let first = s.0.iter().position(|b| b).unwrap_or(s.0.len());
                (first, serde_json::json!({"msg": self.sum_tvote(t), "signers": s.0.iter().collect::<Vec<bool>>()}))
            })
            .collect();
        groups.sort_by_key(|g| g.0);
        let groups: Vec<serde_json::Value> = groups.into_iter().map(|g| g.1).collect();
        serde_json::json!({"view": self.a_view(&q.view), "groups": groups, "valid": valid})
    }

    pub fn sum_just(&mut self, j: &v2::ProposalJustification) -> serde_json::Value {
        match j {
            v2::ProposalJustification::Commit(q) => serde_json::json!({"commit": self.sum_cqc(q)}),
            v2::ProposalJustification::Timeout(q) => serde_json::json!({"timeout": self.sum_tqc(q)}),
        }
    }

    pub fn committee_json(&self) -> serde_json::Value {
        serde_json::json!({"weights": self.weights, "genesis": 0, "epoch": 0, "first": self.first.0})
    }
}

// -------------------------------------------------------------------- abstract builders (used by generators)

pub fn aview(v: u64) -> AView {
    AView { g: 0, e: 0, v }
}

pub fn avote(v: u64, n: u64, h: u64) -> AVote {
    AVote { view: aview(v), n, h }
}

/// A well-formed commit certificate signed by exactly `signers`.
pub fn acqc(nvals: usize, vote: AVote, signers: &[usize]) -> ACqc {
    let mut b = vec![false; nvals];
    for i in signers {
        b[*i] = true;
    }
    ACqc { sig: signers.iter().map(|i| (*i, vote.clone())).collect(), vote, signers: b }
}

/// A well-formed timeout certificate: `groups` = (vote content, signer indices).
pub fn atqc(nvals: usize, view: AView, groups: &[(ATVote, Vec<usize>)]) -> ATqc {
    let mut map = vec![];
    let mut sig = vec![];
    for (t, ss) in groups {
        let mut b = vec![false; nvals];
        for i in ss {
            b[*i] = true;
            sig.push((*i, t.clone()));
        }
        map.push((t.clone(), b));
    }
    ATqc { view, map, sig }
}
