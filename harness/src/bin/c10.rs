//! C10: no input from the network can crash a node.
//!
//! Every op is executed on the real code under `catch`; a panic is an observation and a monitor failure.
//! Families (see `lean/Driver/C10.lean` for the op shapes):
//!   dur / ts / bitvec / sockaddr   std_conv.rs leaves with boundary values
//!   read / wire                    every ProtoFmt / ProtoRepr decoder on structure-aware message trees and on
//!                                  byte-level mutations of valid encodings (through the real prost decode)
//!   mux / muxhs                    Mux::run against a raw peer: all header patterns, DATA splitting, flooding an
//!                                  application that does not read, mux handshakes with absurd capability tables
//!   frame / rpc                    frame::recv_proto on raw bytes; rpc::Service (mux_recv_proto) per capability
//!   trunc                          frame::mux_recv_proto on a real mux stream: valid messages cut at 0 / field boundaries / mid-field
//!   preface                        preface::accept over TCP loopback (encryption frame, noise handshake, endpoint)
//!   noise                          post-handshake ciphertext into noise::Stream (authentic / tampered / junk frames)
//!   canon                          canonical_raw on a schema with repeated scalars (empty packed chunks)
//!   sel / cqc / tqc / implied      selection function and certificate verification on extreme, well-signed values
//!   votes                          sequences of signed commit / timeout votes into a real replica vs the cache model
//!   bss                            BlockStoreState::{contains, head, verify, next} on boundary states
//!   node                           a real node instance (network + engine, block fetcher running) fed well-formed but absurd
//!                                  messages of every gossip RPC and of the consensus RPC by a raw peer, then probed for liveness
//!   replica                        extreme signed messages into a real replica (monitor only)
use std::{
    alloc::{GlobalAlloc, Layout, System},
    collections::{BTreeMap, HashMap, VecDeque},
    pin::Pin,
    sync::{
        atomic::{AtomicBool, AtomicUsize, Ordering},
        Arc, Mutex,
    },
    task::{Context, Poll, Waker},
};

use rand::{rngs::StdRng, seq::SliceRandom, Rng};
use serde_json::{json, Map, Value};
use vharness::{abs, catch, catch_async, certgen, sim, Opts, Out, Prop};
use zksync_concurrency::{ctx, io, limiter, scope, time};
use zksync_consensus_crypto::ByteFmt;
use zksync_consensus_network::{proto as nproto, verif::entry};
use zksync_consensus_roles::{node, validator, validator::v2};
use zksync_protobuf::{
    build::prost_reflect::{self, prost::Message as _, prost_types, DynamicMessage, Kind, MessageDescriptor, ReflectMessage},
    ProtoFmt,
};

thread_local! {
    /// the first panic raised while executing the current op (a scope re-panics with a generic message when one of its
    /// tasks panicked; the first site is the informative one)
    static FIRST_PANIC: std::cell::RefCell<Option<String>> = const { std::cell::RefCell::new(None) };
}

fn install_hook() {
    static ONCE: std::sync::Once = std::sync::Once::new();
    ONCE.call_once(|| {
        std::panic::set_hook(Box::new(|info| {
            let site = vharness::panic_site(info);
            if vharness::IN_CATCH.with(|c| *c.borrow()) == 0 {
                eprintln!("harness panic (outside catch): {site}");
            }
            FIRST_PANIC.with(|p| { let mut p = p.borrow_mut(); if p.is_none() { *p = Some(site.clone()); } });
            if let Ok(mut g) = ANY_PANIC.lock() { if g.is_none() { *g = Some(site.clone()); } }
            vharness::LAST_PANIC.with(|p| *p.borrow_mut() = Some(site));
        }));
    });
}

// ------------------------------------------------------------------------------------------------ allocation monitor

struct Track;
static PEAK: AtomicUsize = AtomicUsize::new(0);
static TRACK_ON: AtomicBool = AtomicBool::new(false);

unsafe impl GlobalAlloc for Track {
    unsafe fn alloc(&self, l: Layout) -> *mut u8 {
        if TRACK_ON.load(Ordering::Relaxed) {
            PEAK.fetch_max(l.size(), Ordering::Relaxed);
        }
        System.alloc(l)
    }
    unsafe fn alloc_zeroed(&self, l: Layout) -> *mut u8 {
        if TRACK_ON.load(Ordering::Relaxed) {
            PEAK.fetch_max(l.size(), Ordering::Relaxed);
        }
        System.alloc_zeroed(l)
    }
    unsafe fn dealloc(&self, p: *mut u8, l: Layout) {
        System.dealloc(p, l)
    }
    unsafe fn realloc(&self, p: *mut u8, l: Layout, n: usize) -> *mut u8 {
        if TRACK_ON.load(Ordering::Relaxed) {
            PEAK.fetch_max(n, Ordering::Relaxed);
        }
        System.realloc(p, l, n)
    }
}

#[global_allocator]
static ALLOC: Track = Track;

fn track_start() {
    PEAK.store(0, Ordering::Relaxed);
    TRACK_ON.store(true, Ordering::Relaxed);
}
fn track_stop() -> usize {
    TRACK_ON.store(false, Ordering::Relaxed);
    PEAK.load(Ordering::Relaxed)
}

// ------------------------------------------------------------------------------------------------ raw in-memory transport

#[derive(Default)]
struct PipeInner {
    inbound: VecDeque<u8>,
    eof: bool,
    waker: Option<Waker>,
    outbound: Vec<u8>,
    consumed: usize,
}

/// The peer's end is driven by the harness (`push`, `close`, `take_out`); the other end is an
/// `AsyncRead + AsyncWrite` handed to the code under test.
#[derive(Clone, Default)]
struct RawPipe(Arc<Mutex<PipeInner>>);

impl RawPipe {
    fn push(&self, bytes: &[u8]) {
        let mut g = self.0.lock().unwrap();
        g.inbound.extend(bytes.iter().copied());
        if let Some(w) = g.waker.take() {
            w.wake();
        }
    }
    fn close(&self) {
        let mut g = self.0.lock().unwrap();
        g.eof = true;
        if let Some(w) = g.waker.take() {
            w.wake();
        }
    }
    fn take_out(&self) -> Vec<u8> {
        std::mem::take(&mut self.0.lock().unwrap().outbound)
    }
    fn consumed(&self) -> usize {
        self.0.lock().unwrap().consumed
    }
    fn out_len(&self) -> usize {
        self.0.lock().unwrap().outbound.len()
    }
}

impl io::AsyncRead for RawPipe {
    fn poll_read(self: Pin<&mut Self>, cx: &mut Context<'_>, buf: &mut io::ReadBuf<'_>) -> Poll<std::io::Result<()>> {
        let mut g = self.0.lock().unwrap();
        if !g.inbound.is_empty() {
            let n = std::cmp::min(buf.remaining(), g.inbound.len());
            let chunk: Vec<u8> = g.inbound.drain(..n).collect();
            buf.put_slice(&chunk);
            g.consumed += n;
            return Poll::Ready(Ok(()));
        }
        if g.eof {
            return Poll::Ready(Ok(()));
        }
        g.waker = Some(cx.waker().clone());
        Poll::Pending
    }
}

impl io::AsyncWrite for RawPipe {
    fn poll_write(self: Pin<&mut Self>, _cx: &mut Context<'_>, buf: &[u8]) -> Poll<std::io::Result<usize>> {
        self.0.lock().unwrap().outbound.extend_from_slice(buf);
        Poll::Ready(Ok(buf.len()))
    }
    fn poll_flush(self: Pin<&mut Self>, _cx: &mut Context<'_>) -> Poll<std::io::Result<()>> {
        Poll::Ready(Ok(()))
    }
    fn poll_shutdown(self: Pin<&mut Self>, _cx: &mut Context<'_>) -> Poll<std::io::Result<()>> {
        Poll::Ready(Ok(()))
    }
}

/// Lets every other task of the (single-threaded) runtime run until nothing observable changes any more.
async fn settle(pipe: &RawPipe, done: &Arc<Mutex<Option<String>>>) {
    let probe = || (pipe.consumed(), pipe.out_len(), done.lock().unwrap().is_some());
    let mut last = probe();
    let mut stable = 0;
    for _ in 0..100_000 {
        for _ in 0..16 {
            tokio::task::yield_now().await;
        }
        let cur = probe();
        if cur == last {
            stable += 1;
            if stable >= 4 {
                return;
            }
        } else {
            stable = 0;
            last = cur;
        }
    }
}

fn le32(n: usize) -> [u8; 4] {
    (n as u32).to_le_bytes()
}

fn framed(body: &[u8]) -> Vec<u8> {
    let mut v = le32(body.len()).to_vec();
    v.extend_from_slice(body);
    v
}

fn bytes_json(b: &[u8]) -> Value {
    Value::Array(b.iter().map(|x| json!(*x)).collect())
}

fn json_bytes(v: &Value) -> Vec<u8> {
    v.as_array().map(|a| a.iter().map(|x| x.as_u64().unwrap_or(0) as u8).collect()).unwrap_or_default()
}

// ------------------------------------------------------------------------------------------------ message types

/// a decoded value: can be logged, and re-encoded (hashing / re-gossip call `build()`) to something that reads back
trait Decoded {
    fn debug(&self) -> String;
    /// `decode(encode(self))` rendered; `Err` if it does not decode
    fn reencoded_debug(&self) -> Result<String, String>;
}
impl<T: ProtoFmt + std::fmt::Debug> Decoded for T {
    fn debug(&self) -> String { format!("{self:?}") }
    fn reencoded_debug(&self) -> Result<String, String> {
        let b = zksync_protobuf::encode(self);
        zksync_protobuf::decode::<T>(&b).map(|v| format!("{v:?}")).map_err(|e| format!("{e:#}"))
    }
}

type DecFn = fn(&[u8]) -> Result<Box<dyn Decoded>, String>;

fn d<T: ProtoFmt + std::fmt::Debug + 'static>(b: &[u8]) -> Result<Box<dyn Decoded>, String> {
    zksync_protobuf::decode::<T>(b).map(|v| Box::new(v) as Box<dyn Decoded>).map_err(|e| format!("{e:#}"))
}

/// (name on the op lines, protobuf full name, decoder of a public type — `None`: decoded through `entry::decode`)
fn types() -> Vec<(&'static str, &'static str, Option<DecFn>)> {
    vec![
        ("std.Void", "zksync.std.Void", Some(d::<()> as DecFn)),
        ("std.Timestamp", "zksync.std.Timestamp", Some(d::<time::Utc>)),
        ("std.Duration", "zksync.std.Duration", Some(d::<time::Duration>)),
        ("std.BitVector", "zksync.std.BitVector", Some(d::<bit_vec::BitVec>)),
        ("std.SocketAddr", "zksync.std.SocketAddr", Some(d::<std::net::SocketAddr>)),
        ("std.RateLimit", "zksync.std.RateLimit", Some(d::<limiter::Rate>)),
        ("validator.PublicKey", "zksync.roles.validator.PublicKey", Some(d::<validator::PublicKey>)),
        ("validator.Signature", "zksync.roles.validator.Signature", Some(d::<validator::Signature>)),
        ("validator.AggregateSignature", "zksync.roles.validator.AggregateSignature", Some(d::<validator::AggregateSignature>)),
        ("node.PublicKey", "zksync.roles.node.PublicKey", Some(d::<node::PublicKey>)),
        ("node.Signature", "zksync.roles.node.Signature", Some(d::<node::Signature>)),
        ("validator.GenesisHash", "zksync.roles.validator.GenesisHash", Some(d::<validator::GenesisHash>)),
        ("validator.PayloadHash", "zksync.roles.validator.PayloadHash", Some(d::<validator::PayloadHash>)),
        ("validator.MsgHash", "zksync.roles.validator.MsgHash", Some(d::<validator::MsgHash>)),
        ("validator.BlockHeader", "zksync.roles.validator.BlockHeaderV2", Some(d::<v2::BlockHeader>)),
        ("validator.View", "zksync.roles.validator.ViewV2", Some(d::<v2::View>)),
        ("validator.ReplicaCommit", "zksync.roles.validator.ReplicaCommitV2", Some(d::<v2::ReplicaCommit>)),
        ("validator.Signers", "zksync.std.BitVector", Some(d::<v2::Signers>)),
        ("validator.CommitQC", "zksync.roles.validator.CommitQCV2", Some(d::<v2::CommitQC>)),
        ("validator.ReplicaTimeout", "zksync.roles.validator.ReplicaTimeoutV2", Some(d::<v2::ReplicaTimeout>)),
        ("validator.TimeoutQC", "zksync.roles.validator.TimeoutQCV2", Some(d::<v2::TimeoutQC>)),
        ("validator.ProposalJustification", "zksync.roles.validator.ProposalJustificationV2", Some(d::<v2::ProposalJustification>)),
        ("validator.ReplicaNewView", "zksync.roles.validator.ReplicaNewViewV2", Some(d::<v2::ReplicaNewView>)),
        ("validator.LeaderProposal", "zksync.roles.validator.LeaderProposalV2", Some(d::<v2::LeaderProposal>)),
        ("validator.ChonkyMsg", "zksync.roles.validator.ChonkyMsgV2", Some(d::<v2::ChonkyMsg>)),
        ("validator.ConsensusMsg", "zksync.roles.validator.ConsensusMsg", Some(d::<validator::ConsensusMsg>)),
        ("validator.NetAddress", "zksync.roles.validator.NetAddress", Some(d::<validator::NetAddress>)),
        ("validator.Msg", "zksync.roles.validator.Msg", Some(d::<validator::Msg>)),
        ("validator.Signed<ConsensusMsg>", "zksync.roles.validator.Signed", Some(d::<validator::Signed<validator::ConsensusMsg>>)),
        ("validator.Signed<NetAddress>", "zksync.roles.validator.Signed", Some(d::<validator::Signed<validator::NetAddress>>)),
        ("validator.Signed<SessionId>", "zksync.roles.validator.Signed", Some(d::<validator::Signed<node::SessionId>>)),
        ("node.Msg", "zksync.roles.node.Msg", Some(d::<node::Msg>)),
        ("node.Signed<SessionId>", "zksync.roles.node.Signed", Some(d::<node::Signed<node::SessionId>>)),
        ("validator.FinalBlock", "zksync.roles.validator.FinalBlockV2", Some(d::<v2::FinalBlock>)),
        ("validator.PreGenesisBlock", "zksync.roles.validator.PreGenesisBlock", Some(d::<validator::PreGenesisBlock>)),
        ("validator.Block", "zksync.roles.validator.Block", Some(d::<validator::Block>)),
        ("validator.Proposal", "zksync.roles.validator.Proposal", Some(d::<validator::Proposal>)),
        ("validator.Phase", "zksync.roles.validator.PhaseV2", Some(d::<v2::Phase>)),
        ("validator.ChonkyV2State", "zksync.roles.validator.ChonkyV2State", Some(d::<v2::ChonkyV2State>)),
        ("validator.ReplicaState", "zksync.roles.validator.ReplicaState", Some(d::<validator::ReplicaState>)),
        ("validator.Genesis", "zksync.roles.validator.Genesis", Some(d::<validator::Genesis>)),
        ("validator.Schedule", "zksync.roles.validator.ValidatorSchedule", Some(d::<validator::Schedule>)),
        ("preface.Encryption", "zksync.network.preface.Encryption", None),
        ("preface.Endpoint", "zksync.network.preface.Endpoint", None),
        ("consensus.Handshake", "zksync.network.consensus.Handshake", None),
        ("gossip.Handshake", "zksync.network.gossip.Handshake", None),
        ("rpc.consensus.Req", "zksync.network.consensus.ConsensusReq", None),
        ("rpc.consensus.Resp", "zksync.network.consensus.ConsensusResp", None),
        ("rpc.push_validator_addrs.Req", "zksync.network.gossip.PushValidatorAddrs", None),
        ("rpc.push_tx.Req", "zksync.network.gossip.PushTx", None),
        ("rpc.push_block_store_state.Req", "zksync.network.gossip.PushBlockStoreState", None),
        ("rpc.get_block.Req", "zksync.network.gossip.GetBlockRequest", None),
        ("rpc.get_block.Resp", "zksync.network.gossip.GetBlockResponse", None),
        ("rpc.ping.Req", "zksync.network.ping.PingReq", None),
        ("rpc.ping.Resp", "zksync.network.ping.PingResp", None),
    ]
}

/// Decodes `bytes` as `ty` with the real code: `Ok(value for Debug)` / `Err(error chain)`.
fn decode_as(ty: &str, dec: Option<DecFn>, bytes: &[u8]) -> Result<Option<Box<dyn Decoded>>, String> {
    match dec {
        Some(f) => f(bytes).map(Some),
        None => entry::decode(ty, bytes).unwrap_or_else(|| Err(format!("unknown type {ty}"))).map(|_| None),
    }
}

fn pool() -> prost_reflect::DescriptorPool {
    // touching one message of every .proto file loads it (and its imports) into the global pool
    let _ = nproto::gossip::Handshake::default().descriptor();
    let _ = nproto::consensus::Handshake::default().descriptor();
    let _ = nproto::ping::PingReq::default().descriptor();
    let _ = nproto::preface::Encryption::default().descriptor();
    let _ = nproto::mux::Handshake::default().descriptor();
    nproto::gossip::Handshake::default().descriptor().parent_pool().clone()
}

// ------------------------------------------------------------------------------------------------ trees

/// verdict of the third-party validator that the repository consults for this `bytes` / `string` field
fn third_party_verdict(msg: &str, field: &str, bytes: &[u8]) -> bool {
    match (msg, field) {
        ("zksync.roles.validator.PublicKey", "bn254") => zksync_consensus_crypto::bls12_381::PublicKey::decode(bytes).is_ok(),
        ("zksync.roles.validator.Signature", "bn254") | ("zksync.roles.validator.AggregateSignature", "bn254") => {
            zksync_consensus_crypto::bls12_381::Signature::decode(bytes).is_ok()
        }
        ("zksync.roles.node.PublicKey", "ed25519") => zksync_consensus_crypto::ed25519::PublicKey::decode(bytes).is_ok(),
        _ => false,
    }
}

fn string_verdict(msg: &str, field: &str, s: &str) -> bool {
    match (msg, field) {
        ("zksync.network.gossip.Handshake", "build_version") => s.parse::<semver::Version>().is_ok(),
        _ => false,
    }
}

struct Ids(HashMap<Vec<u8>, u64>);
impl Ids {
    fn id(&mut self, b: &[u8]) -> u64 {
        let n = self.0.len() as u64;
        *self.0.entry(b.to_vec()).or_insert(n)
    }
}

fn bytes_leaf(msg: &str, field: &str, b: &[u8], ids: &mut Ids) -> Value {
    json!({"$b": b.len(), "$id": ids.id(b), "$tp": third_party_verdict(msg, field, b), "$x": hex::encode(b)})
}

fn put_varint(out: &mut Vec<u8>, mut v: u64) {
    loop {
        let b = (v & 0x7f) as u8;
        v >>= 7;
        if v == 0 {
            out.push(b);
            return;
        }
        out.push(b | 0x80);
    }
}

fn encode_value(fd_kind: &Kind, num: u32, v: &Value, out: &mut Vec<u8>) {
    match fd_kind {
        Kind::Message(sub) => {
            let body = encode_tree(sub, v);
            put_varint(out, ((num as u64) << 3) | 2);
            put_varint(out, body.len() as u64);
            out.extend_from_slice(&body);
        }
        Kind::Bytes => {
            let b = hex::decode(v["$x"].as_str().unwrap_or("")).unwrap_or_default();
            put_varint(out, ((num as u64) << 3) | 2);
            put_varint(out, b.len() as u64);
            out.extend_from_slice(&b);
        }
        Kind::String => {
            let s = v["$t"].as_str().unwrap_or("");
            put_varint(out, ((num as u64) << 3) | 2);
            put_varint(out, s.len() as u64);
            out.extend_from_slice(s.as_bytes());
        }
        Kind::Bool => {
            put_varint(out, (num as u64) << 3);
            put_varint(out, v.as_bool().unwrap_or(false) as u64);
        }
        _ => {
            // uint64 / uint32 / int64 / int32: plain varint (negative values sign-extended to 64 bits)
            put_varint(out, (num as u64) << 3);
            let x = if let Some(u) = v.as_u64() { u } else { v.as_i64().unwrap_or(0) as u64 };
            put_varint(out, x);
        }
    }
}

/// message tree → protobuf bytes (unknown keys are ignored; `$`-keys are leaf attributes)
fn encode_tree(desc: &MessageDescriptor, tree: &Value) -> Vec<u8> {
    let mut out = vec![];
    if let Some(o) = tree.as_object() {
        for (k, v) in o {
            if k.starts_with('$') || v.is_null() {
                continue;
            }
            let Some(fd) = desc.get_field_by_name(k) else { continue };
            if fd.is_list() {
                for e in v.as_array().map(|a| a.as_slice()).unwrap_or(&[]) {
                    encode_value(&fd.kind(), fd.number(), e, &mut out);
                }
            } else {
                encode_value(&fd.kind(), fd.number(), v, &mut out);
            }
        }
    }
    out
}

fn value_to_tree(msg: &str, field: &str, v: &prost_reflect::Value, ids: &mut Ids) -> Value {
    use prost_reflect::Value as V;
    match v {
        V::Bool(b) => json!(*b),
        V::I32(x) => json!(*x),
        V::I64(x) => json!(*x),
        V::U32(x) => json!(*x),
        V::U64(x) => json!(*x),
        V::Bytes(b) => bytes_leaf(msg, field, b, ids),
        V::String(s) => json!({"$s": string_verdict(msg, field, s), "$t": s}),
        V::Message(m) => dyn_to_tree(m, ids),
        V::List(l) => Value::Array(l.iter().map(|e| value_to_tree(msg, field, e, ids)).collect()),
        _ => Value::Null,
    }
}

/// the message as prost hands it to `read`: present fields only
fn dyn_to_tree(m: &DynamicMessage, ids: &mut Ids) -> Value {
    let mut o = Map::new();
    let name = m.descriptor().full_name().to_string();
    for (fd, v) in m.fields() {
        o.insert(fd.name().to_string(), value_to_tree(&name, fd.name(), v, ids));
    }
    Value::Object(o)
}

/// material for "mostly valid" leaves
struct Pool {
    vpk: Vec<Vec<u8>>,
    vsig: Vec<Vec<u8>>,
    npk: Vec<Vec<u8>>,
}

impl Pool {
    fn new(rng: &mut StdRng) -> Self {
        let mut vpk = vec![];
        let mut vsig = vec![];
        let mut npk = vec![];
        for i in 0..6u64 {
            let sk: validator::SecretKey = rng.gen();
            vpk.push(sk.public().encode());
            let m = validator::Msg::SessionId(node::SessionId(vec![i as u8]));
            vsig.push(sk.sign_hash(&m.hash()).encode());
            let nk: node::SecretKey = rng.gen();
            npk.push(nk.public().encode());
        }
        Self { vpk, vsig, npk }
    }
}

fn pick_u64(rng: &mut StdRng) -> u64 {
    match rng.gen_range(0..10) {
        0 => 0,
        1 => 1,
        2 => u64::MAX,
        3 => u64::MAX - 1,
        4 => 1 << 63,
        5 => u32::MAX as u64 + 1,
        _ => rng.gen_range(0..1000),
    }
}

fn rand_bytes(rng: &mut StdRng, n: usize) -> Vec<u8> {
    (0..n).map(|_| rng.gen()).collect()
}

fn gen_bytes(msg: &str, field: &str, rng: &mut StdRng, p: &Pool) -> Vec<u8> {
    let valid = rng.gen_bool(0.88);
    match (msg, field) {
        ("zksync.roles.validator.PublicKey", "bn254") => {
            if valid { p.vpk.choose(rng).unwrap().clone() } else {
                match rng.gen_range(0..5) {
                    0 => vec![],
                    1 => rand_bytes(rng, 47),
                    2 => rand_bytes(rng, 48),
                    3 => { let mut v = vec![0u8; 48]; v[0] = 0xc0; v } // point at infinity
                    _ => rand_bytes(rng, 96),
                }
            }
        }
        ("zksync.roles.validator.Signature", "bn254") | ("zksync.roles.validator.AggregateSignature", "bn254") => {
            if valid { p.vsig.choose(rng).unwrap().clone() } else {
                match rng.gen_range(0..4) {
                    0 => vec![],
                    1 => rand_bytes(rng, 95),
                    2 => rand_bytes(rng, 96),
                    _ => { let mut v = vec![0u8; 96]; v[0] = 0xc0; v }
                }
            }
        }
        ("zksync.roles.node.PublicKey", "ed25519") => {
            if valid { p.npk.choose(rng).unwrap().clone() } else {
                let n = *[0usize, 31, 32, 33].choose(rng).unwrap();
                rand_bytes(rng, n)
            }
        }
        ("zksync.roles.node.Signature", "ed25519") => {
            let n = if valid { 64 } else { *[0usize, 63, 65, 128].choose(rng).unwrap() };
            rand_bytes(rng, n)
        }
        (_, "keccak256") | ("zksync.network.ping.PingReq", "data") | ("zksync.network.ping.PingResp", "data") => {
            let n = if valid { 32 } else { *[0usize, 31, 33, 64].choose(rng).unwrap() };
            rand_bytes(rng, n)
        }
        ("zksync.std.SocketAddr", "ip") => {
            let n = if valid { *[4usize, 16].choose(rng).unwrap() } else { *[0usize, 3, 5, 15, 17, 32].choose(rng).unwrap() };
            rand_bytes(rng, n)
        }
        _ => { let n = rng.gen_range(0..6); rand_bytes(rng, n) }
    }
}

fn gen_scalar(msg: &str, field: &str, kind: &Kind, rng: &mut StdRng) -> Value {
    let valid = rng.gen_bool(0.85);
    match (msg, field, kind) {
        ("zksync.std.Timestamp", "seconds", _) | ("zksync.std.Duration", "seconds", _) => {
            if valid { json!(rng.gen_range(0i64..2_000_000_000)) } else {
                json!(*[i64::MAX, i64::MIN, i64::MAX - 1, i64::MIN + 1, -1, 253_402_300_800, -62_135_596_801, 1 << 40, -(1i64 << 40)].choose(rng).unwrap())
            }
        }
        ("zksync.std.Timestamp", "nanos", _) | ("zksync.std.Duration", "nanos", _) => {
            if valid { json!(rng.gen_range(0i32..1_000_000_000)) } else {
                json!(*[1_000_000_000i32, -1, i32::MAX, i32::MIN, -1_000_000_000, 999_999_999, -999_999_999, 2_000_000_000].choose(rng).unwrap())
            }
        }
        ("zksync.std.SocketAddr", "port", _) => {
            if valid { json!(rng.gen_range(0u32..65536)) } else { json!(*[65536u32, u32::MAX, 65535].choose(rng).unwrap()) }
        }
        ("zksync.roles.validator.Genesis", "protocol_version", _) => {
            if valid { json!(2u32) } else { json!(*[0u32, 1, 3, u32::MAX].choose(rng).unwrap()) }
        }
        ("zksync.roles.validator.ValidatorInfo", "weight", _) => {
            if valid { json!(rng.gen_range(1u64..10)) } else { json!(*[0u64, u64::MAX, 1 << 63, (1 << 63) - 1].choose(rng).unwrap()) }
        }
        (_, _, Kind::Bool) => json!(rng.gen::<bool>()),
        (_, _, Kind::Uint32) => json!(pick_u64(rng) as u32),
        (_, _, Kind::Int32) => json!(pick_u64(rng) as i32),
        (_, _, Kind::Int64) => json!(pick_u64(rng) as i64),
        _ => json!(pick_u64(rng)),
    }
}

/// structure-aware generation from the descriptor: mostly present, mostly valid, boundary values mixed in
fn gen_tree(desc: &MessageDescriptor, rng: &mut StdRng, p: &Pool, ids: &mut Ids, p_absent: f64) -> Value {
    let name = desc.full_name().to_string();
    let mut o = Map::new();
    // one member (or none) per real oneof
    let mut chosen: HashMap<String, Option<String>> = HashMap::new();
    for oo in desc.oneofs() {
        let members: Vec<_> = oo.fields().collect();
        if members.len() > 1 || !members.iter().all(|f| f.field_descriptor_proto().proto3_optional()) {
            let pick = if rng.gen_bool(p_absent) { None } else { Some(members.choose(rng).unwrap().name().to_string()) };
            chosen.insert(oo.name().to_string(), pick);
        }
    }
    for fd in desc.fields() {
        if let Some(oo) = fd.containing_oneof() {
            if let Some(pick) = chosen.get(oo.name()) {
                if pick.as_deref() != Some(fd.name()) {
                    continue;
                }
            } else if rng.gen_bool(p_absent) {
                continue;
            }
        } else if !fd.is_list() && rng.gen_bool(p_absent) {
            continue;
        }
        let one = |rng: &mut StdRng, ids: &mut Ids| -> Value {
            match fd.kind() {
                Kind::Message(sub) => {
                    if sub.full_name() == "zksync.std.BitVector" {
                        let nb = if rng.gen_bool(0.9) { rng.gen_range(0..3) } else { rng.gen_range(0..40) };
                        let b = rand_bytes(rng, nb);
                        let size: u64 = if rng.gen_bool(0.85) { rng.gen_range(0..=8 * nb as u64) } else {
                            *[8 * nb as u64 + 1, u64::MAX, 1 << 40].choose(rng).unwrap()
                        };
                        let mut m = Map::new();
                        if !rng.gen_bool(p_absent) { m.insert("size".into(), json!(size)); }
                        if !rng.gen_bool(p_absent) { m.insert("bytes_".into(), bytes_leaf(sub.full_name(), "bytes_", &b, ids)); }
                        Value::Object(m)
                    } else {
                        gen_tree(&sub, rng, p, ids, p_absent)
                    }
                }
                Kind::Bytes => { let b = gen_bytes(&name, fd.name(), rng, p); bytes_leaf(&name, fd.name(), &b, ids) }
                Kind::String => {
                    let s = *["1.2.3", "0.1.0-alpha+5", "", "x", "1.2", "18446744073709551616.0.0"].choose(rng).unwrap();
                    json!({"$s": string_verdict(&name, fd.name(), s), "$t": s})
                }
                k => gen_scalar(&name, fd.name(), &k, rng),
            }
        };
        if fd.is_list() {
            let n = match rng.gen_range(0..10) { 0 => 0, 1..=4 => 1, 5..=7 => 2, 8 => 3, _ => 4 };
            let mut items: Vec<Value> = (0..n).map(|_| one(rng, ids)).collect();
            if n > 1 && rng.gen_bool(0.1) { items[1] = items[0].clone(); } // duplicate element
            o.insert(fd.name().to_string(), Value::Array(items));
        } else {
            o.insert(fd.name().to_string(), one(rng, ids));
        }
    }
    Value::Object(o)
}

/// the tree without the harness-only attributes (what goes on the op line)
fn strip(v: &Value) -> Value {
    match v {
        Value::Object(o) => Value::Object(o.iter().filter(|(k, _)| *k != "$x" && *k != "$t").map(|(k, v)| (k.clone(), strip(v))).collect()),
        Value::Array(a) => Value::Array(a.iter().map(strip).collect()),
        v => v.clone(),
    }
}

// ------------------------------------------------------------------------------------------------ the property

pub struct C10 {
    rt: tokio::runtime::Runtime,
    types: Vec<(&'static str, &'static str, Option<DecFn>)>,
    world: Option<abs::World>,
}

const WEIGHTS: [u64; 6] = [3, 1, 1, 1, 2, 1];

impl C10 {
    fn new() -> Self {
        Self {
            rt: tokio::runtime::Builder::new_current_thread().enable_all().build().unwrap(),
            types: types(),
            world: None,
        }
    }

    fn world(&mut self) -> &mut abs::World {
        if self.world.is_none() {
            self.world = Some(abs::World::new(7, &WEIGHTS, &[true; 6], validator::LeaderSelection::default(), 0));
        }
        self.world.as_mut().unwrap()
    }
}

// ---------------------------------------------------------------- generators

fn gen_std(rng: &mut StdRng, n: usize, ops: &mut Vec<Value>) {
    let secs: Vec<i64> = vec![0, 1, -1, i64::MAX, i64::MAX - 1, i64::MAX - 2, i64::MIN, i64::MIN + 1, i64::MIN + 2, i64::MIN + 3,
        253_402_300_799, 253_402_300_800, -62_135_596_800, -62_135_596_801, -377_705_116_800, -377_705_116_801, 1_700_000_000, 1 << 62, -(1 << 62)];
    let nanos: Vec<i64> = vec![0, 1, -1, 999_999_999, 1_000_000_000, 1_000_000_001, -999_999_999, -1_000_000_000,
        -1_000_000_001, -2_000_000_001, 1_999_999_999, 2_000_000_000, -2_000_000_000, i32::MAX as i64, i32::MIN as i64];
    for op in ["dur", "ts"] {
        for s in &secs {
            for n in &nanos {
                ops.push(json!({"op": op, "s": s, "n": n}));
            }
        }
        ops.push(json!({"op": op, "n": 5}));
        ops.push(json!({"op": op, "s": 5}));
        ops.push(json!({"op": op}));
    }
    for _ in 0..n {
        let op = if rng.gen() { "dur" } else { "ts" };
        let s: i64 = if rng.gen_bool(0.5) { rng.gen() } else { rng.gen_range(-5..2_000_000_000) };
        let nn: i32 = if rng.gen_bool(0.5) { rng.gen() } else { rng.gen_range(0..1_000_000_000) };
        ops.push(json!({"op": op, "s": s, "n": nn}));
    }
    for bytes in [0u64, 1, 2, 3, 8, 100] {
        for size in [0u64, 1, 7, 8, 9, 16, 17, 24, 25, 800, 801, u64::MAX, 1 << 63] {
            ops.push(json!({"op": "bitvec", "size": size, "bytes": bytes}));
        }
        ops.push(json!({"op": "bitvec", "bytes": bytes}));
    }
    ops.push(json!({"op": "bitvec", "size": 3}));
    for ip in [0u64, 1, 3, 4, 5, 15, 16, 17, 32] {
        for port in [0u64, 1, 65535, 65536, u32::MAX as u64] {
            ops.push(json!({"op": "sockaddr", "ip": ip, "port": port}));
        }
        ops.push(json!({"op": "sockaddr", "ip": ip}));
    }
    ops.push(json!({"op": "sockaddr", "port": 1}));
}

fn tlv_spans(b: &[u8]) -> Vec<(usize, usize)> {
    // top-level (start, end) of each tag-length-value, best effort
    let mut v = vec![];
    let mut i = 0;
    let varint = |b: &[u8], mut i: usize| -> Option<(u64, usize)> {
        let mut x = 0u64;
        let mut s = 0;
        loop {
            let c = *b.get(i)?;
            i += 1;
            x |= ((c & 0x7f) as u64) << s;
            if c & 0x80 == 0 { return Some((x, i)); }
            s += 7;
            if s > 63 { return None; }
        }
    };
    while i < b.len() {
        let start = i;
        let Some((tag, j)) = varint(b, i) else { break };
        let end = match tag & 7 {
            0 => match varint(b, j) { Some((_, k)) => k, None => break },
            1 => j + 8,
            5 => j + 4,
            2 => match varint(b, j) { Some((l, k)) => k + l as usize, None => break },
            _ => break,
        };
        if end > b.len() { break; }
        v.push((start, end));
        i = end;
    }
    v
}

fn mutate_wire(rng: &mut StdRng, b: &[u8]) -> Vec<u8> {
    let mut v = b.to_vec();
    let spans = tlv_spans(b);
    match rng.gen_range(0..8) {
        0 if !v.is_empty() => { let i = rng.gen_range(0..v.len()); v[i] ^= 1 << rng.gen_range(0..8); }
        1 if !v.is_empty() => { v.truncate(rng.gen_range(0..v.len())); }
        2 if !spans.is_empty() => { let (s, e) = *spans.choose(rng).unwrap(); let d = b[s..e].to_vec(); v.extend_from_slice(&d); } // duplicated field
        3 if !spans.is_empty() => { let (s, e) = *spans.choose(rng).unwrap(); v.drain(s..e); } // dropped field
        4 if !spans.is_empty() => { let (s, _) = *spans.choose(rng).unwrap(); v[s] = (v[s] & !7) | rng.gen_range(0..6); } // retyped
        5 => { v.extend_from_slice(&[0xf8, 0x7f, 0x01]); } // unknown field
        6 => { let n = rng.gen_range(0..20); v = rand_bytes(rng, n); }
        _ => { let i = rng.gen_range(0..=v.len()); v.insert(i, rng.gen()); }
    }
    v
}

impl C10 {
    fn gen_reads(&self, rng: &mut StdRng, n: usize, ops: &mut Vec<Value>) {
        let pool = pool();
        let mat = Pool::new(rng);
        for i in 0..n {
            let (ty, full, _) = self.types[i % self.types.len()];
            let desc = pool.get_message_by_name(full).expect(full);
            let mut ids = Ids(HashMap::new());
            let p_absent = *[0.0, 0.02, 0.02, 0.05, 0.15].choose(rng).unwrap();
            let tree = gen_tree(&desc, rng, &mat, &mut ids, p_absent);
            let wire = encode_tree(&desc, &tree);
            if rng.gen_bool(0.75) {
                ops.push(json!({"op": "read", "ty": ty, "v": strip(&tree), "wire": hex::encode(&wire)}));
            } else {
                // byte-level mutation; the struct prost produces is recovered with the reflective decoder
                let m = mutate_wire(rng, &wire);
                match DynamicMessage::decode(desc.clone(), m.as_slice()) {
                    Ok(dm) => {
                        let mut ids = Ids(HashMap::new());
                        let t = dyn_to_tree(&dm, &mut ids);
                        ops.push(json!({"op": "read", "ty": ty, "v": strip(&t), "wire": hex::encode(&m), "mutated": true}));
                    }
                    Err(_) => ops.push(json!({"op": "wire", "ty": ty, "wire": hex::encode(&m)})),
                }
            }
        }
    }
}

fn hdr(kind: u16, connect: bool, id: u16) -> [u8; 2] {
    (kind | if connect { 0x2000 } else { 0 } | id).to_le_bytes()
}

fn gen_mux(rng: &mut StdRng, n: usize, thorough: bool, ops: &mut Vec<Value>) {
    let cfg = json!({"rfs": 16384, "rbs": 163840, "rfc": 100});
    // every combination of the three high bits × ids around the table sizes
    for (na, nc) in [(2u64, 3u64), (0, 0), (1, 0), (0, 4)] {
        for top in 0..8u16 {
            for id in [0u16, 1, 2, 3, 4, 8190, 8191] {
                let h = (top << 13) | id;
                let mut bytes = h.to_le_bytes().to_vec();
                bytes.extend_from_slice(&[0, 0]); // a length of 0 if it is a DATA frame, else the next (OPEN id 0 toConnect) header
                ops.push(json!({"op": "mux", "cfg": cfg, "na": na, "nc": nc, "bytes": bytes_json(&bytes[..2]), "eof": true}));
                if na == 2 {
                    ops.push(json!({"op": "mux", "cfg": cfg, "na": na, "nc": nc, "bytes": bytes_json(&bytes), "eof": true}));
                }
            }
        }
    }
    let all: Vec<u32> = if thorough { (0..65536).collect() } else { (0..n as u32).map(|_| rng.gen_range(0..65536)).collect() };
    for h in all {
        ops.push(json!({"op": "mux", "cfg": cfg, "na": 5, "nc": 7, "bytes": bytes_json(&(h as u16).to_le_bytes()), "eof": true}));
    }
    // truncated inputs
    for bytes in [vec![], vec![0u8], vec![0, 0x40], vec![0, 0x40, 5], vec![0, 0x40, 5, 0], vec![0, 0x40, 5, 0, 1, 2, 3, 4]] {
        for eof in [true, false] {
            ops.push(json!({"op": "mux", "cfg": cfg, "na": 1, "nc": 1, "bytes": bytes_json(&bytes), "eof": eof}));
        }
    }
    // DATA splitting and flooding an application that never reads: small limits, streams opened or not
    for _ in 0..n {
        let rfs = *[1u64, 2, 3, 5, 8, 16].choose(rng).unwrap();
        let rbs = rng.gen_range(1..40u64);
        let rfc = rng.gen_range(1..8u64);
        let (na, nc) = (rng.gen_range(0..3u16), rng.gen_range(0..3u16));
        let mut bytes = vec![];
        for _ in 0..rng.gen_range(1..12) {
            let connect = rng.gen();
            let lim = if connect { na } else { nc };
            let id = if lim > 0 && rng.gen_bool(0.93) { rng.gen_range(0..lim) } else { rng.gen_range(0..4) };
            match rng.gen_range(0..10) {
                0..=2 => bytes.extend_from_slice(&hdr(0x0000, connect, id)),
                3 => bytes.extend_from_slice(&hdr(0x8000, connect, id)),
                4 if rng.gen_bool(0.2) => bytes.extend_from_slice(&hdr(0xC000, connect, id)),
                _ => {
                    bytes.extend_from_slice(&hdr(0x4000, connect, id));
                    let len: u16 = *[0u16, 1, rfs as u16, rfs as u16 + 1, 2 * rfs as u16, rng.gen_range(0..60)].choose(rng).unwrap();
                    bytes.extend_from_slice(&len.to_le_bytes());
                    let have = if rng.gen_bool(0.9) { len } else { rng.gen_range(0..=len) };
                    bytes.extend(rand_bytes(rng, have as usize));
                    if have < len { break; }
                }
            }
        }
        ops.push(json!({"op": "mux", "cfg": {"rfs": rfs, "rbs": rbs, "rfc": rfc}, "na": na, "nc": nc,
            "bytes": bytes_json(&bytes), "eof": rng.gen_bool(0.7)}));
    }
    // floods of frames for ONE opened stream whose consumer is parked (the application never accepts / reads): control
    // frames only, alternating OPEN / CLOSE / zero-length DATA, and mixed with small DATA frames; 64 kB .. 1 MiB of input
    let prod = json!({"rfs": 16384, "rbs": 163840, "rfc": 100});
    let small = json!({"rfs": 16, "rbs": 64, "rfc": 8});
    let h = |k: u16| hdr(k, true, 0).to_vec();
    let mut floods: Vec<(Value, Vec<u8>, u64, u64)> = vec![]; // (cfg, pattern, times, free bytes per repetition)
    for cfg in [&prod, &small] {
        floods.push((cfg.clone(), h(0x0000), 32 * 1024, 0));                                   // OPEN flood, 64 kB
        floods.push((cfg.clone(), h(0x8000), 64 * 1024, 0));                                   // CLOSE flood, 128 kB
        floods.push((cfg.clone(), [h(0x0000), h(0x8000)].concat(), 16 * 1024, 0));              // OPEN/CLOSE
        floods.push((cfg.clone(), [h(0x0000), h(0x8000), h(0x4000), vec![0, 0]].concat(), 8 * 1024, 4)); // + DATA len 0
        floods.push((cfg.clone(), [h(0x8000), h(0x4000), vec![3, 0, 7, 7, 7]].concat(), 8 * 1024, 0));   // + DATA len 3
    }
    floods.push((prod.clone(), h(0x8000), if thorough { 512 * 1024 } else { 128 * 1024 }, 0)); // 1 MiB (quick: 256 kB) of CLOSE headers
    for (cfg, pat, times, free) in floods {
        ops.push(json!({"op": "mux", "cfg": cfg, "na": 1, "nc": 0, "bytes": bytes_json(&h(0x0000)), "pat": bytes_json(&pat), "times": times,
            "eof": false, "flood": true, "free_bytes": free * times}));
    }
    // maximal DATA frames against the production config
    for len in [16383u16, 16384, 16385, 65535] {
        let mut bytes = hdr(0x0000, true, 0).to_vec();
        bytes.extend_from_slice(&hdr(0x4000, true, 0));
        bytes.extend_from_slice(&len.to_le_bytes());
        bytes.extend(std::iter::repeat(7u8).take(len as usize));
        ops.push(json!({"op": "mux", "cfg": cfg, "na": 1, "nc": 1, "bytes": bytes_json(&bytes), "eof": false}));
    }
    // mux handshakes
    let cap = |id: Option<u64>, max: Option<u64>| { let mut m = Map::new(); if let Some(i) = id { m.insert("id".into(), json!(i)); } if let Some(x) = max { m.insert("max".into(), json!(x)); } Value::Object(m) };
    let ours = json!([[0, 3], [2, 1], [7, 4]]);
    let mut hs = vec![
        (vec![cap(Some(0), Some(5))], vec![cap(Some(0), Some(2)), cap(Some(2), Some(9))]),
        (vec![], vec![]),
        (vec![cap(Some(0), Some(5)), cap(Some(0), Some(5))], vec![]),
        (vec![cap(None, Some(5))], vec![]),
        (vec![], vec![cap(Some(1), None)]),
        (vec![cap(Some(u64::MAX), Some(u32::MAX as u64)), cap(Some(7), Some(u32::MAX as u64))], vec![cap(Some(7), Some(u32::MAX as u64)), cap(Some(0), Some(u32::MAX as u64)), cap(Some(2), Some(0))]),
    ];
    for _ in 0..n / 4 + 4 {
        let side = |rng: &mut StdRng| -> Vec<Value> {
            (0..rng.gen_range(0..5)).map(|_| cap(
                if rng.gen_bool(0.95) { Some(*[0u64, 2, 7, 1, u64::MAX].choose(rng).unwrap()) } else { None },
                if rng.gen_bool(0.95) { Some(*[0u64, 1, 2, 5, 8192, u32::MAX as u64].choose(rng).unwrap()) } else { None })).collect()
        };
        let a = side(rng);
        let c = side(rng);
        hs.push((a, c));
    }
    for (a, c) in hs {
        ops.push(json!({"op": "muxhs", "accept": a, "connect": c, "ours_accept": ours, "ours_connect": ours}));
    }
    // the largest table Mux::verify admits: 8192 stream ids on each side
    ops.push(json!({"op": "muxhs", "accept": [cap(Some(0), Some(u32::MAX as u64))], "connect": [cap(Some(0), Some(u32::MAX as u64))],
        "ours_accept": [[0, 8192]], "ours_connect": [[0, 8192]]}));
}

fn dur_body(rng: &mut StdRng) -> Vec<u8> {
    // a `std.Duration` message: mostly decodable, sometimes not
    match rng.gen_range(0..10) {
        0 => vec![0xff, 0xff, 0xff],             // not protobuf
        1 => vec![0x08, 0x05],                   // nanos missing
        2 => vec![],                             // both missing
        _ => {
            let mut b = vec![0x08];
            put_varint(&mut b, rng.gen_range(0..1_000_000u64));
            b.push(0x10);
            put_varint(&mut b, rng.gen_range(0..1_000_000_000u64));
            b
        }
    }
}

fn gen_frames(rng: &mut StdRng, n: usize, ops: &mut Vec<Value>) {
    for i in 0..n {
        let max: usize = *[0usize, 1, 8, 16, 64, 10240].choose(rng).unwrap();
        let body = dur_body(rng);
        // declared size: the true one, or around `max`, or huge
        let declared: usize = match rng.gen_range(0..10) {
            0 => max + 1,
            1 => max,
            2 => u32::MAX as usize,
            3 => 1 << 26,
            4 => body.len() + 1,
            5 if !body.is_empty() => body.len() - 1,
            _ => body.len(),
        };
        let mut avail = le32(declared).to_vec();
        avail.extend_from_slice(&body);
        if rng.gen_bool(0.15) {
            avail.truncate(rng.gen_range(0..=avail.len()));
        }
        let dec = avail.len() >= 4 + declared && zksync_protobuf::decode::<time::Duration>(&avail[4..4 + declared]).is_ok();
        ops.push(json!({"op": "frame", "kind": "recv", "max": max, "avail": bytes_json(&avail), "dec": dec, "_i": i}));
    }
}

fn gen_rpc(rng: &mut StdRng, n: usize, ops: &mut Vec<Value>) {
    let mat = Pool::new(rng);
    let pool = pool();
    for _ in 0..n {
        let cap = *["ping", "ping", "consensus", "addrs"].choose(rng).unwrap();
        let (ty, full) = match cap {
            "ping" => ("rpc.ping.Req", "zksync.network.ping.PingReq"),
            "consensus" => ("rpc.consensus.Req", "zksync.network.consensus.ConsensusReq"),
            _ => ("rpc.push_validator_addrs.Req", "zksync.network.gossip.PushValidatorAddrs"),
        };
        let desc = pool.get_message_by_name(full).unwrap();
        let mut ids = Ids(HashMap::new());
        let tree = gen_tree(&desc, rng, &mat, &mut ids, 0.01);
        let body = if rng.gen_bool(0.9) { encode_tree(&desc, &tree) } else { rand_bytes(rng, 12) };
        let max: usize = *[0usize, 16, 40, 1024, 4096].choose(rng).unwrap();
        let declared: usize = match rng.gen_range(0..10) {
            0 => max + 1,
            1 => u32::MAX as usize,
            2 => body.len() + 3,
            _ => body.len(),
        };
        let mut avail = le32(declared).to_vec();
        avail.extend_from_slice(&body);
        if rng.gen_bool(0.12) {
            avail.truncate(rng.gen_range(0..=avail.len()));
        }
        let dec = avail.len() >= 4 + declared && matches!(entry::decode(ty, &avail[4..4 + declared]), Some(Ok(_)));
        // how the payload is cut into DATA frames
        let mut chunks = vec![];
        let mut left = avail.len();
        while left > 0 {
            let c = std::cmp::min(left, *[1usize, 2, 3, 7, 100, 65535].choose(rng).unwrap());
            chunks.push(c);
            left -= c;
        }
        if rng.gen_bool(0.1) { chunks.insert(0, 0); } // an empty DATA frame
        ops.push(json!({"op": "frame", "kind": "mux", "cap": cap, "max": max, "avail": bytes_json(&avail), "chunks": chunks, "dec": dec}));
    }
}

fn noise_params() -> snow::params::NoiseParams {
    snow::params::NoiseParams {
        name: "zksync-bft".to_string(),
        base: snow::params::BaseChoice::Noise,
        handshake: snow::params::HandshakeChoice {
            pattern: snow::params::HandshakePattern::NN,
            modifiers: snow::params::HandshakeModifierList { list: vec![] },
        },
        dh: snow::params::DHChoice::Curve25519,
        cipher: snow::params::CipherChoice::ChaChaPoly,
        hash: snow::params::HashChoice::SHA256,
    }
}

fn gen_preface(rng: &mut StdRng, n: usize, ops: &mut Vec<Value>) {
    let enc_ok = vec![0x0a, 0x00]; // Encryption { noise_nn {} }
    let ep = |which: u8| vec![(which << 3) | 2, 0x00];
    // a decodable message padded with an unknown field up to exactly `total` bytes
    let padded = |base: &[u8], total: usize| -> Vec<u8> {
        let mut v = base.to_vec();
        let room = total - base.len() - 3; // tag + two-byte length
        v.push(0x7a);
        put_varint(&mut v, room as u64);
        assert!(room >= 128 && room < 16384);
        v.extend(std::iter::repeat(0u8).take(room));
        v
    };
    // exactly at and just above MAX_FRAME, at both stages, with fully present decodable bodies
    for (l1, l3) in [(10240usize, 2usize), (10241, 2), (2, 10240), (2, 10241)] {
        let b1 = if l1 > 2 { padded(&enc_ok, l1) } else { enc_ok.clone() };
        let b3 = if l3 > 2 { padded(&ep(1), l3) } else { ep(1) };
        let (s1, s3) = (framed(&b1), framed(&b3));
        let s1dec = matches!(entry::decode("preface.Encryption", &b1), Some(Ok(_)));
        let s3dec = matches!(entry::decode("preface.Endpoint", &b3), Some(Ok(_)));
        ops.push(json!({"op": "preface", "s1": bytes_json(&s1), "s1dec": s1dec, "hs": true, "hs_mode": "ok",
            "s3": bytes_json(&s3), "s3plain": bytes_json(&s3), "tamper": false, "s3dec": s3dec}));
    }
    for hs in ["big49", "big257", "big4096", "bigmax", "maxshort", "tiny", "short"] {
        let s1 = framed(&enc_ok);
        ops.push(json!({"op": "preface", "s1": bytes_json(&s1), "s1dec": true, "hs": false, "hs_mode": hs,
            "s3": bytes_json(&[]), "s3plain": bytes_json(&[]), "tamper": false, "s3dec": false}));
    }
    for _ in 0..n {
        // stage 1
        let body1: Vec<u8> = match rng.gen_range(0..20) { 0 => vec![], 1 => vec![0xff, 0x01], 2 => vec![0x12, 0x00], _ => enc_ok.clone() };
        let decl1 = match rng.gen_range(0..30) { 0 => 10241, 1 => u32::MAX as usize, 2 => body1.len() + 1, 3 => 10240, _ => body1.len() };
        let mut s1 = le32(decl1).to_vec();
        s1.extend_from_slice(&body1);
        if rng.gen_bool(0.04) { s1.truncate(rng.gen_range(0..=s1.len())); }
        let s1dec = s1.len() >= 4 + decl1 && matches!(entry::decode("preface.Encryption", &s1[4..4 + decl1]), Some(Ok(_)));
        let mut hs = *["ok", "ok", "ok", "ok", "ok", "ok", "ok", "ok", "ok", "tiny", "short", "none",
                       "big257", "big4096", "bigmax", "big49", "maxshort"].choose(rng).unwrap();
        if s1.len() < 4 + decl1 { hs = "none"; } // an incomplete first frame would swallow the handshake bytes
        // stage 3 (plaintext that the client encrypts correctly)
        let body3: Vec<u8> = match rng.gen_range(0..8) { 0 => vec![], 1 => vec![0xff], 2 => ep(3), 3 => ep(2), _ => ep(1) };
        let decl3 = match rng.gen_range(0..12) { 0 => 10241, 1 => 1 << 30, 2 => body3.len() + 2, _ => body3.len() };
        let mut s3 = le32(decl3).to_vec();
        s3.extend_from_slice(&body3);
        if rng.gen_bool(0.08) { s3.truncate(rng.gen_range(0..=s3.len())); }
        let tamper = rng.gen_bool(0.08);
        let s3_seen: Vec<u8> = if tamper { vec![] } else { s3.clone() };
        let s3dec = s3_seen.len() >= 4 + decl3 && matches!(entry::decode("preface.Endpoint", &s3_seen[4..4 + decl3]), Some(Ok(_)));
        ops.push(json!({"op": "preface", "s1": bytes_json(&s1), "s1dec": s1dec, "hs": hs == "ok", "hs_mode": hs,
            "s3": bytes_json(&s3_seen), "s3plain": bytes_json(&s3), "tamper": tamper, "s3dec": s3dec}));
    }
}

fn gen_noise(rng: &mut StdRng, n: usize, ops: &mut Vec<Value>) {
    let mut push = |segs: Vec<Value>, k: usize, frags: Vec<usize>| ops.push(json!({"op": "noise", "segs": segs, "k": k, "frags": frags}));
    let auth = |p: usize| json!({"n": p + 16, "body": p + 16, "auth": true, "mode": "auth"});
    // boundary payload sizes
    push(vec![auth(65519)], 4096, vec![]);
    push(vec![auth(65519), auth(1), auth(65519)], 65536, vec![1000, 64000, 7]);
    push(vec![auth(1), auth(0), auth(5)], 16, vec![]);
    push(vec![json!({"n": 15, "body": 15, "auth": false, "mode": "junk"})], 16, vec![]);
    push(vec![json!({"n": 0, "body": 0, "auth": false, "mode": "junk"})], 16, vec![]);
    push(vec![json!({"n": 65535, "body": 65535, "auth": false, "mode": "junk"})], 16, vec![]);
    push(vec![auth(10), json!({"n": 65535, "body": 100, "auth": false, "mode": "junk"})], 7, vec![3, 1, 1]);
    push(vec![], 8, vec![]);
    for _ in 0..n {
        let mut segs = vec![];
        for _ in 0..rng.gen_range(0..6) {
            match rng.gen_range(0..12) {
                0 => { let p = rng.gen_range(0..40usize); segs.push(json!({"n": p + 16, "body": p + 16, "auth": false, "mode": "tamper"})); break; }
                1 => { let nn = rng.gen_range(0..70usize); let have = rng.gen_range(0..=nn); segs.push(json!({"n": nn, "body": have, "auth": false, "mode": "junk"})); break; }
                2 => segs.push(auth(0)),
                _ => segs.push(auth(*[1usize, 2, 15, 16, 17, 100, 1000, 5000].choose(rng).unwrap())),
            }
        }
        let k = *[1usize, 2, 7, 64, 4096].choose(rng).unwrap();
        let frags: Vec<usize> = (0..rng.gen_range(0..6)).map(|_| *[1usize, 2, 3, 17, 500].choose(rng).unwrap()).collect();
        push(segs, k, frags);
    }
}

fn gen_canon(rng: &mut StdRng, n: usize, ops: &mut Vec<Value>) {
    let fixed = vec![
        json!([{"f": 2, "packed": 0}]),                       // the F9 input: bytes `12 00`
        json!([{"f": 4, "packed": 0}, {"f": 4, "packed": 0}]),
        json!([{"f": 1, "packed": 0}]),
        json!([{"f": 1, "packed": 2}]),
        json!([{"f": 5, "sub": [{"f": 2, "packed": 0}]}]),
        json!([{"f": 6, "sub": [{"f": 1, "direct": true}]}, {"f": 6, "sub": [{"f": 2, "packed": 0}, {"f": 2, "packed": 3}]}]),
        json!([]),
    ];
    for f in fixed { ops.push(json!({"op": "canon", "occ": f})); }
    fn scalar_occ(rng: &mut StdRng, f: u32) -> Value {
        if rng.gen_bool(0.5) { json!({"f": f, "direct": true}) } else { json!({"f": f, "packed": *[0u32, 0, 1, 2, 3].choose(rng).unwrap()}) }
    }
    for _ in 0..n {
        let mut occ = vec![];
        for _ in 0..rng.gen_range(0..6) {
            match rng.gen_range(0..7) {
                0 => occ.push(scalar_occ(rng, 1)),
                1 | 2 => occ.push(scalar_occ(rng, 2)),
                3 => occ.push(json!({"f": 3, "len": rng.gen_range(0..4)})),
                4 => occ.push(scalar_occ(rng, 4)),
                _ => {
                    let f = if rng.gen() { 5 } else { 6 };
                    let sub: Vec<Value> = (0..rng.gen_range(0..4)).map(|_| { let g = if rng.gen_bool(0.3) { 1 } else { 2 }; scalar_occ(rng, g) }).collect();
                    occ.push(json!({"f": f, "sub": sub}));
                }
            }
        }
        ops.push(json!({"op": "canon", "occ": occ}));
    }
}

// ---------------------------------------------------------------- consensus messages with extreme values

const BIG: [u64; 6] = [0, 1, 5, u64::MAX - 1, u64::MAX, 1 << 63];

fn gen_consensus(rng: &mut StdRng, n: usize, ops: &mut Vec<Value>) {
    let kinds = ["proposal", "commit", "timeout", "newview"];
    // selection function: same / different sender and kind, views at the wrap-around
    for k in kinds {
        for a in BIG {
            for b in BIG {
                ops.push(json!({"op": "sel", "old": {"key": 1, "kind": k, "inner": a}, "new": {"key": 1, "kind": k, "inner": b}}));
            }
        }
    }
    for _ in 0..n {
        let m = |rng: &mut StdRng| json!({"key": rng.gen_range(0..3), "kind": kinds.choose(rng).unwrap(), "inner": if rng.gen_bool(0.5) { *BIG.choose(rng).unwrap() } else { rng.gen_range(0..10) }});
        let (o, nw) = (m(rng), m(rng));
        ops.push(json!({"op": "sel", "old": o, "new": nw}));
    }
    let ctxj = json!({"genesis": 0, "epoch": 0, "weights": WEIGHTS, "quorum": certgen::quorum(&WEIGHTS), "subquorum": certgen::subquorum(&WEIGHTS)});
    // CommitQC::verify: signer bitmaps of every length class, extreme view / block numbers, wrong genesis / epoch
    let nval = WEIGHTS.len();
    let mut bitmaps: Vec<Vec<bool>> = vec![vec![], vec![true], vec![true; nval - 1], vec![true; nval], vec![true; nval + 1], vec![false; nval], vec![true; 64], vec![true; 65]];
    for _ in 0..n { let len = if rng.gen_bool(0.8) { nval } else { rng.gen_range(0..10) }; bitmaps.push((0..len).map(|_| rng.gen_bool(0.8)).collect()); }
    for signers in bitmaps {
        let g = if rng.gen_bool(0.9) { 0 } else { 1 };
        let e = if rng.gen_bool(0.9) { 0 } else { *BIG.choose(rng).unwrap() };
        let view = *BIG.choose(rng).unwrap();
        let num = *BIG.choose(rng).unwrap();
        // signatures: exactly the set the bitmap names (restricted to real indices), or one dropped
        let mut who: Vec<usize> = signers.iter().enumerate().filter(|(i, b)| **b && *i < nval).map(|(i, _)| i).collect();
        let full = who.clone();
        if rng.gen_bool(0.15) && !who.is_empty() { who.pop(); }
        let sig_ok = who == full;
        ops.push(json!({"op": "cqc", "ctx": ctxj, "qc": {"vote": {"view": {"g": g, "e": e, "v": view}, "n": num, "h": 7}, "signers": signers, "sig": sig_ok}, "who": who}));
    }
    // TimeoutQC::verify and get_implied_block
    for i in 0..n {
        let view = if rng.gen_bool(0.7) { rng.gen_range(1..20) } else { *BIG.choose(rng).unwrap() };
        let signers = certgen::random_subset(rng, &WEIGHTS);
        let q = certgen::random_tqc(rng, &WEIGHTS, view, &signers);
        let variants = certgen::corrupt_tqc(rng, &WEIGHTS, &q);
        let pick = if rng.gen_bool(0.5) || variants.is_empty() { q } else { variants.choose(rng).unwrap().1.clone() };
        ops.push(json!({"op": if i % 2 == 0 { "tqc" } else { "implied" }, "ctx": ctxj, "a": {"timeout": pick}, "first": 0}));
    }
    for _ in 0..n / 2 + 4 {
        let view = if rng.gen_bool(0.5) { rng.gen_range(1..20) } else { *BIG.choose(rng).unwrap() };
        let num = if rng.gen_bool(0.7) { rng.gen_range(0..20) } else { u64::MAX - 1 };
        let signers = certgen::random_subset(rng, &WEIGHTS);
        let q = abs::acqc(nval, abs::avote(view, num, 3), &signers);
        ops.push(json!({"op": "implied", "ctx": ctxj, "a": {"commit": q}, "first": 0}));
    }
    // extreme signed messages into a real replica (monitor only): each case = a fresh replica and a few messages
    for _ in 0..n / 4 + 8 {
        let mut msgs = vec![];
        for _ in 0..rng.gen_range(1..5) {
            let from = rng.gen_range(0..nval);
            let view = *BIG.choose(rng).unwrap();
            let kind = *kinds.choose(rng).unwrap();
            let signers: Vec<bool> = { let len = *[0usize, nval - 1, nval, nval + 1, 64].choose(rng).unwrap(); (0..len).map(|_| rng.gen()).collect() };
            msgs.push(json!({"from": from, "kind": kind, "view": view, "num": *BIG.choose(rng).unwrap(), "signers": signers,
                "hv": rng.gen::<bool>(), "hq": rng.gen::<bool>(), "payload": *[0usize, 1, 1000, 1001, 100_000].choose(rng).unwrap(), "tick": rng.gen_bool(0.2)}));
        }
        ops.push(json!({"op": "replica", "reset": true, "me": rng.gen_range(0..nval), "msgs": msgs}));
    }
}


/// sequences of signed commit / timeout votes for a fresh replica (vote caches, certificate formation, view advance)
fn gen_votes(rng: &mut StdRng, n: usize, ops: &mut Vec<Value>) {
    let nval = WEIGHTS.len();
    let ctxj = json!({"genesis": 0, "epoch": 0, "weights": WEIGHTS, "quorum": certgen::quorum(&WEIGHTS), "subquorum": certgen::subquorum(&WEIGHTS)});
    for _ in 0..n {
        let views: Vec<u64> = vec![0, 1, 2, rng.gen_range(0..6), u64::MAX - 1, u64::MAX];
        let base = *views.choose(rng).unwrap();
        let mut msgs = vec![];
        // half of the cases contain a full round: every member votes for the same thing at `base`, so that a
        // certificate forms, the caches are pruned and the view advances (wrapping at 2^64-1)
        let round = rng.gen_bool(0.6);
        let round_commit = rng.gen::<bool>();
        let mut order: Vec<usize> = (0..nval).collect();
        order.shuffle(rng);
        let total = if round { nval + rng.gen_range(0..8) } else { rng.gen_range(2..14) };
        let mut next_member = 0;
        for k in 0..total {
            let scripted = round && next_member < nval && (rng.gen_bool(0.7) || total - k <= nval - next_member);
            let from = if scripted { next_member += 1; order[next_member - 1] }
                else if rng.gen_bool(0.93) { rng.gen_range(0..nval) } else { nval + rng.gen_range(0..2) };
            let bad_sig = !scripted && rng.gen_bool(0.05);
            let v = if scripted || rng.gen_bool(0.6) { base } else { *views.choose(rng).unwrap() };
            let view = abs::AView { g: if scripted || rng.gen_bool(0.95) { 0 } else { 1 }, e: if scripted || rng.gen_bool(0.95) { 0 } else { 3 }, v };
            let signer = if from < nval { json!(from) } else { Value::Null };
            if (scripted && round_commit) || (!scripted && rng.gen_bool(0.6)) {
                let vote = abs::AVote { view, n: if scripted || rng.gen_bool(0.8) { 1 } else { *BIG.choose(rng).unwrap() }, h: if scripted { 0 } else { rng.gen_range(0..2) } };
                msgs.push(json!({"kind": "commit", "from": from, "bad_sig": bad_sig, "signer": signer, "sig": !bad_sig, "a": vote, "m": vote_j(&vote)}));
            } else {
                let hv = (!scripted && rng.gen_bool(0.4)).then(|| abs::avote(rng.gen_range(0..3), rng.gen_range(0..3), 1));
                let hq = (!scripted && rng.gen_bool(0.3)).then(|| {
                    let s = if rng.gen_bool(0.8) { certgen::random_subset(rng, &WEIGHTS) } else { vec![0] };
                    let mut q = abs::acqc(nval, abs::avote(rng.gen_range(0..3), rng.gen_range(0..3), 2), &s);
                    if rng.gen_bool(0.1) { q.signers.push(true); }
                    q
                });
                let t = abs::ATVote { view, hv, hq };
                msgs.push(json!({"kind": "timeout", "from": from, "bad_sig": bad_sig, "signer": signer, "sig": !bad_sig, "a": t, "m": tvote_j(&t, nval)}));
            }
        }
        // a third of the cases start with: validator i votes at `base`, validator j votes the same (keeps the partial
        // certificate alive), i votes for a FUTURE view, then i's old vote for `base` arrives again (re-sent / reordered)
        if rng.gen_range(0..3) == 0 && base < u64::MAX - 8 {
            let i = rng.gen_range(0..nval);
            let j = (i + 1 + rng.gen_range(0..nval - 1)) % nval;
            let fut = base + rng.gen_range(1..6);
            let commit = rng.gen::<bool>();
            let mut pat = vec![];
            for (from, v) in [(i, base), (j, base), (i, fut), (i, base)] {
                let view = abs::AView { g: 0, e: 0, v };
                if commit {
                    let vote = abs::AVote { view, n: 1, h: 0 };
                    pat.push(json!({"kind": "commit", "from": from, "bad_sig": false, "signer": from, "sig": true, "a": vote, "m": vote_j(&vote)}));
                } else {
                    let t = abs::ATVote { view, hv: None, hq: None };
                    pat.push(json!({"kind": "timeout", "from": from, "bad_sig": false, "signer": from, "sig": true, "a": t, "m": tvote_j(&t, nval)}));
                }
            }
            pat.extend(msgs);
            msgs = pat;
        }
        ops.push(json!({"op": "votes", "reset": true, "ctx": ctxj, "me": rng.gen_range(0..nval), "msgs": msgs}));
    }
}

/// JSON shape of the model (`Driver/C10.lean`) from the shared abstract certificate types
fn view_j(v: &abs::AView) -> Value { json!({"g": v.g, "e": v.e, "v": v.v}) }
fn vote_j(v: &abs::AVote) -> Value { json!({"view": view_j(&v.view), "n": v.n, "h": v.h}) }
fn cqc_sig_ok(q: &abs::ACqc, n: usize) -> bool {
    let mut want: Vec<(usize, abs::AVote)> = q.signers.iter().enumerate().filter(|(i, b)| **b && *i < n).map(|(i, _)| (i, q.vote.clone())).collect();
    let mut got = q.sig.clone();
    want.sort(); got.sort();
    want == got
}
fn cqc_j(q: &abs::ACqc, n: usize) -> Value { json!({"vote": vote_j(&q.vote), "signers": q.signers, "sig": cqc_sig_ok(q, n)}) }
fn tvote_j(t: &abs::ATVote, n: usize) -> Value {
    json!({"view": view_j(&t.view), "hv": t.hv.as_ref().map(vote_j), "hq": t.hq.as_ref().map(|q| cqc_j(q, n))})
}
fn tqc_j(q: &abs::ATqc, n: usize) -> Value {
    let mut want: Vec<(usize, abs::ATVote)> = vec![];
    for (t, s) in &q.map { for (i, b) in s.iter().enumerate() { if *b && i < n { want.push((i, t.clone())); } } }
    let mut got = q.sig.clone();
    want.sort(); got.sort();
    json!({"view": view_j(&q.view), "map": q.map.iter().map(|(t, s)| json!({"m": tvote_j(t, n), "signers": s})).collect::<Vec<_>>(), "sig": want == got})
}

// ---------------------------------------------------------------- executors

fn class_of_recv_err(e: &str) -> &'static str {
    if e.contains("message too large") { "too_large" }
    else if e.contains("read_exact(len)") { "eos_len" }
    else if e.contains("read_exact(msg)") { "eos_body" }
    else if e.contains("decode()") { "decode_err" }
    else { "other" }
}

fn mux_handshake_frame(accept: &[(Option<u64>, Option<u32>)], connect: &[(Option<u64>, Option<u32>)]) -> Vec<u8> {
    let caps = |t: &[(Option<u64>, Option<u32>)]| t.iter().map(|(id, m)| nproto::mux::handshake::Capability { id: *id, max_streams: *m }).collect();
    framed(&nproto::mux::Handshake { accept: caps(accept), connect: caps(connect) }.encode_to_vec())
}

fn pairs(v: &Value) -> Vec<(u64, u32)> {
    v.as_array().map(|a| a.iter().map(|p| (p[0].as_u64().unwrap_or(0), p[1].as_u64().unwrap_or(0) as u32)).collect()).unwrap_or_default()
}

fn caps(v: &Value) -> Vec<(Option<u64>, Option<u32>)> {
    v.as_array().map(|a| a.iter().map(|c| (c.get("id").and_then(|x| x.as_u64()), c.get("max").and_then(|x| x.as_u64()).map(|x| x as u32))).collect()).unwrap_or_default()
}

impl C10 {
    fn exec_std(&self, op: &Value) -> Value {
        match op["op"].as_str().unwrap() {
            "dur" | "ts" => {
                let p = zksync_protobuf::proto::std::Duration { seconds: op["s"].as_i64(), nanos: op["n"].as_i64().map(|x| x as i32) };
                let t = zksync_protobuf::proto::std::Timestamp { seconds: p.seconds, nanos: p.nanos };
                let d = if op["op"] == "dur" { time::Duration::read(&p) } else { time::Utc::read(&t).map(|u| u - time::UNIX_EPOCH) };
                match d {
                    Ok(d) => {
                        // `build()` (re-encoding for hashes / re-gossip) of an accepted value, and that it reads back
                        let b = d.build();
                        let back = time::Duration::read(&b).ok();
                        json!({"class": "ok", "secs": d.whole_seconds(), "nanos": d.subsec_nanoseconds(),
                            "build_s": b.seconds, "build_n": b.nanos, "_roundtrip": back == Some(d)})
                    }
                    Err(e) => json!({"class": "err", "_why": format!("{e:#}")}),
                }
            }
            "bitvec" => {
                let p = zksync_protobuf::proto::std::BitVector { size: op["size"].as_u64(), bytes: op["bytes"].as_u64().map(|n| vec![0xa5u8; n as usize]) };
                match bit_vec::BitVec::read(&p) {
                    Ok(v) => json!({"class": "ok", "len": v.len()}),
                    Err(e) => json!({"class": "err", "_why": format!("{e:#}")}),
                }
            }
            _ => {
                let p = zksync_protobuf::proto::std::SocketAddr { ip: op["ip"].as_u64().map(|n| vec![1u8; n as usize]), port: op["port"].as_u64().map(|x| x as u32) };
                match std::net::SocketAddr::read(&p) {
                    Ok(a) => json!({"class": "ok", "v": if a.is_ipv4() { 4 } else { 6 }, "port": a.port()}),
                    Err(e) => json!({"class": "err", "_why": format!("{e:#}")}),
                }
            }
        }
    }

    fn exec_read(&self, op: &Value, out: &mut Out) -> Value {
        let ty = op["ty"].as_str().unwrap_or("");
        let Some((_, _, dec)) = self.types.iter().find(|t| t.0 == ty) else { return json!({"unknown_type": ty}) };
        let bytes = hex::decode(op["wire"].as_str().unwrap_or("")).unwrap_or_default();
        match decode_as(ty, *dec, &bytes) {
            Ok(v) => {
                // S: whatever was decoded can be logged (Debug) without a panic
                if let Some(v) = v {
                    match catch(|| v.debug()) {
                        Err(site) => {
                            let msg = site.rsplit(": ").next().unwrap_or("").to_string();
                            if msg.contains("duration") {
                                out.oracle_fail(&format!("debug:time::Utc: {msg}"), "Debug of a decoded Timestamp panicked", op.clone());
                            } else {
                                out.oracle_fail(&format!("debug:{ty}: {msg}"), "Debug formatting of a decoded value panicked", op.clone());
                            }
                        }
                        Ok(shown) => {
                            // S: what was accepted re-encodes (build()) without a panic and reads back as the same value
                            match catch(|| v.reencoded_debug()) {
                                Err(site) => out.oracle_fail(&format!("build:{ty}: {}", site.rsplit(": ").next().unwrap_or("")), "build()/encode of a decoded value panicked", op.clone()),
                                Ok(Err(e)) => out.oracle_fail(&format!("roundtrip:{ty}"), &format!("a decoded value does not decode after re-encoding: {e}"), op.clone()),
                                Ok(Ok(again)) => if again != shown {
                                    out.oracle_fail(&format!("roundtrip:{ty}"), "a decoded value re-encodes to a different value", op.clone());
                                },
                            }
                        }
                    }
                }
                json!({"class": "ok"})
            }
            Err(e) => json!({"class": "err", "_why": e}),
        }
    }

    /// `Mux::run` (nobody reads) against a raw peer that completes the mux handshake and then writes `bytes`
    fn exec_mux(&self, op: &Value, out: &mut Out) -> Value {
        let c = &op["cfg"];
        let cfg = entry::MuxCfg {
            read_frame_size: c["rfs"].as_u64().unwrap(), read_buffer_size: c["rbs"].as_u64().unwrap(),
            read_frame_count: c["rfc"].as_u64().unwrap(), write_frame_size: 16384,
        };
        let (na, nc) = (op["na"].as_u64().unwrap() as u32, op["nc"].as_u64().unwrap() as u32);
        let mut bytes = json_bytes(&op["bytes"]);
        let pat = json_bytes(&op["pat"]);
        for _ in 0..op["times"].as_u64().unwrap_or(0) { bytes.extend_from_slice(&pat); }
        let eof = op["eof"].as_bool().unwrap_or(true);
        let r = self.rt.block_on(async {
            let root = ctx::test_root(&ctx::ManualClock::new());
            let pipe = RawPipe::default();
            let done: Arc<Mutex<Option<String>>> = Arc::default();
            let res: Result<Value, ctx::Canceled> = scope::run!(&root, |ctx, s| async move {
                let (p2, d2) = (pipe.clone(), done.clone());
                s.spawn_bg(async move {
                    let r = entry::mux_run_idle(ctx, p2, cfg, &[(0, na)], &[(0, nc)]).await;
                    *d2.lock().unwrap() = Some(r);
                    Ok(())
                });
                pipe.push(&mux_handshake_frame(&[(Some(0), Some(nc))], &[(Some(0), Some(na))]));
                settle(&pipe, &done).await;
                let base = pipe.consumed();
                pipe.push(&bytes);
                if eof { pipe.close(); }
                settle(&pipe, &done).await;
                let class = done.lock().unwrap().clone().unwrap_or_else(|| "pending".into());
                Ok(json!({"class": class, "consumed": pipe.consumed() - base}))
            }).await;
            res.unwrap_or_else(|_| json!({"class": "canceled"}))
        });
        // S (flood cases: after one OPEN every frame goes to that stream, whose consumer is parked; nothing is ever read by
        // the application): the mux may take from the transport at most what the configured limits let it park —
        // `read_frame_count` frames (header + length each) and `read_buffer_size` payload bytes — plus one frame in flight
        // (its header, length and up to one piece) and whatever costs no permit at all (zero-length DATA frames).
        if op["flood"].as_bool().unwrap_or(false) {
            let consumed = r["consumed"].as_u64().unwrap_or(0);
            let free = op["free_bytes"].as_u64().unwrap_or(0);
            let limit = 2 + 4 * cfg.read_frame_count + cfg.read_buffer_size + 4 + cfg.read_frame_size + free;
            if consumed > limit {
                out.oracle_fail("mux:unbounded_buffering",
                    &format!("mux accepted {consumed} bytes of unconsumed frames, limits allow at most {limit} (read_frame_count {} / read_buffer_size {})", cfg.read_frame_count, cfg.read_buffer_size),
                    op.clone());
            }
        }
        r
    }

    fn exec_muxhs(&self, op: &Value) -> Value {
        let (oa, oc) = (pairs(&op["ours_accept"]), pairs(&op["ours_connect"]));
        let frame = mux_handshake_frame(&caps(&op["accept"]), &caps(&op["connect"]));
        self.rt.block_on(async {
            let root = ctx::test_root(&ctx::ManualClock::new());
            let pipe = RawPipe::default();
            let done: Arc<Mutex<Option<String>>> = Arc::default();
            let res: Result<Value, ctx::Canceled> = scope::run!(&root, |ctx, s| async move {
                let (p2, d2, oa, oc) = (pipe.clone(), done.clone(), oa.clone(), oc.clone());
                s.spawn_bg(async move {
                    let r = entry::mux_run_idle(ctx, p2, entry::MuxCfg::rpc(), &oa, &oc).await;
                    *d2.lock().unwrap() = Some(r);
                    Ok(())
                });
                pipe.push(&frame);
                settle(&pipe, &done).await;
                let outb = pipe.take_out();
                // our own handshake frame, then one CLOSE header (2 bytes) per reusable stream
                let own = if outb.len() >= 4 { 4 + u32::from_le_bytes(outb[..4].try_into().unwrap()) as usize } else { outb.len() };
                let streams = (outb.len().saturating_sub(own)) / 2;
                pipe.close();
                settle(&pipe, &done).await;
                let class = done.lock().unwrap().clone().unwrap_or_else(|| "pending".into());
                Ok(json!({"class": class, "streams": if class == "protocol" { 0 } else { streams }}))
            }).await;
            res.unwrap_or_else(|_| json!({"class": "canceled"}))
        })
    }

    fn exec_frame_recv(&self, op: &Value, out: &mut Out) -> Value {
        let max = op["max"].as_u64().unwrap() as usize;
        let avail = json_bytes(&op["avail"]);
        let (res, peak) = self.rt.block_on(async {
            let ctx = ctx::test_root(&ctx::RealClock);
            let mut cur = std::io::Cursor::new(avail.clone());
            track_start();
            let r = entry::recv_proto::<time::Duration, _>(&ctx, &mut cur, max).await;
            (r, track_stop())
        });
        // S: nothing larger than the limit (plus bookkeeping slack) is allocated for a frame
        let ok_alloc = peak <= max + 4096;
        if !ok_alloc {
            out.oracle_fail("alloc:frame::recv_proto", "allocation above max_size", json!({"op": op, "peak": peak}));
        }
        match res {
            Ok(_) => json!({"class": "ok", "alloc_le_max": ok_alloc}),
            Err(e) => json!({"class": class_of_recv_err(&e), "alloc_le_max": ok_alloc, "_why": e}),
        }
    }

    /// one RPC call by a raw mux peer against `rpc::Service` (consensus / push_validator_addrs / ping servers)
    fn exec_frame_mux(&self, op: &Value, out: &mut Out) -> Value {
        let max = op["max"].as_u64().unwrap() as usize;
        let avail = json_bytes(&op["avail"]);
        let chunks: Vec<usize> = op["chunks"].as_array().map(|a| a.iter().map(|x| x.as_u64().unwrap() as usize).collect()).unwrap_or_default();
        let capsv = entry::rpc_capabilities();
        let which = match op["cap"].as_str().unwrap_or("ping") { "consensus" => 0, "addrs" => 1, _ => 2 };
        // stream ids are assigned in ascending capability order
        let mut sorted = capsv.to_vec();
        sorted.sort();
        let id: u16 = sorted.iter().take_while(|c| c.0 != capsv[which].0).map(|c| c.1 as u16).sum();
        let peer_accept: Vec<(Option<u64>, Option<u32>)> = capsv.iter().map(|c| (Some(c.0), Some(c.1))).collect();
        let r = self.rt.block_on(async {
            let root = ctx::test_root(&ctx::ManualClock::new());
            let pipe = RawPipe::default();
            let done: Arc<Mutex<Option<String>>> = Arc::default();
            let res: Result<Value, ctx::Canceled> = scope::run!(&root, |ctx, s| async move {
                let (p2, d2) = (pipe.clone(), done.clone());
                s.spawn_bg(async move {
                    let r = entry::rpc_service_run(ctx, p2, max).await;
                    *d2.lock().unwrap() = Some(r);
                    Ok(())
                });
                pipe.push(&mux_handshake_frame(&peer_accept, &[]));
                settle(&pipe, &done).await;
                let _ = pipe.take_out(); // handshake, initial CLOSEs, the servers' OPENs
                track_start();
                let mut wire = hdr(0x0000, false, id).to_vec(); // OPEN (we are the accepting end of the server's stream)
                let mut off = 0;
                for c in &chunks {
                    wire.extend_from_slice(&hdr(0x4000, false, id));
                    wire.extend_from_slice(&(*c as u16).to_le_bytes());
                    wire.extend_from_slice(&avail[off..off + c]);
                    off += c;
                }
                wire.extend_from_slice(&hdr(0x8000, false, id));
                pipe.push(&wire);
                settle(&pipe, &done).await;
                let peak = track_stop();
                // did the server answer with a DATA frame on this stream?
                let outb = pipe.take_out();
                let want = u16::from_le_bytes(hdr(0x4000, true, id));
                let mut i = 0;
                let mut responded = false;
                while i + 2 <= outb.len() {
                    let h = u16::from_le_bytes([outb[i], outb[i + 1]]);
                    i += 2;
                    if h & 0xC000 == 0x4000 {
                        if i + 2 > outb.len() { break; }
                        let l = u16::from_le_bytes([outb[i], outb[i + 1]]) as usize;
                        i += 2 + l;
                        if h == want { responded = true; }
                    }
                }
                let alive = done.lock().unwrap().is_none();
                let truncated = avail.len() >= 4 && (avail.len() - 4) < u32::from_le_bytes(avail[..4].try_into().unwrap()) as usize;
                Ok(json!({"class": if responded { "ok" } else { "rejected" }, "alive": alive, "_peak": peak, "_truncated_answered": truncated && responded}))
            }).await;
            res.unwrap_or_else(|_| json!({"class": "canceled"}))
        });
        let peak = r["_peak"].as_u64().unwrap_or(0) as usize;
        let mut r = r;
        // the write buffers of the mux are 16 kB (write_frame_size); a request buffer must stay within max_req_size
        let ok_alloc = peak <= std::cmp::max(max, 16384) + 8192;
        if !ok_alloc {
            out.oracle_fail("alloc:frame::mux_recv_proto", "allocation above max_req_size", json!({"op": op, "peak": peak}));
        }
        r["alloc_le_max"] = json!(ok_alloc);
        if r["_truncated_answered"] == json!(true) {
            out.oracle_fail("frame:truncated_accepted", "an RPC server handled and answered a request of which fewer than the announced bytes arrived", op.clone());
        }
        r
    }
}

fn canon_pool() -> MessageDescriptor {
    use prost_types::{field_descriptor_proto::{Label, Type}, DescriptorProto, FieldDescriptorProto, FileDescriptorProto, FileDescriptorSet, OneofDescriptorProto};
    let field = |name: &str, num: i32, rep: bool, ty: Type, tn: Option<&str>, oneof: Option<i32>| FieldDescriptorProto {
        name: Some(name.into()), number: Some(num),
        label: Some(if rep { Label::Repeated } else { Label::Optional } as i32),
        r#type: Some(ty as i32), type_name: tn.map(|s| s.to_string()),
        proto3_optional: if rep { None } else { Some(true) }, oneof_index: oneof, ..Default::default()
    };
    let oneof = |n: &str| OneofDescriptorProto { name: Some(format!("_{n}")), ..Default::default() };
    let s = DescriptorProto {
        name: Some("S".into()),
        field: vec![field("x", 1, false, Type::Uint64, None, Some(0)), field("y", 2, true, Type::Uint64, None, None)],
        oneof_decl: vec![oneof("x")], ..Default::default()
    };
    let t = DescriptorProto {
        name: Some("T".into()),
        field: vec![
            field("a", 1, false, Type::Uint64, None, Some(0)), field("r", 2, true, Type::Uint64, None, None),
            field("b", 3, false, Type::Bytes, None, Some(1)), field("f", 4, true, Type::Fixed32, None, None),
            field("m", 5, false, Type::Message, Some(".c10test.S"), Some(2)), field("ms", 6, true, Type::Message, Some(".c10test.S"), None),
        ],
        oneof_decl: vec![oneof("a"), oneof("b"), oneof("m")], ..Default::default()
    };
    let file = FileDescriptorProto { name: Some("c10test.proto".into()), package: Some("c10test".into()), syntax: Some("proto3".into()), message_type: vec![t, s], ..Default::default() };
    let pool = prost_reflect::DescriptorPool::from_file_descriptor_set(FileDescriptorSet { file: vec![file] }).expect("test schema");
    pool.get_message_by_name("c10test.T").unwrap()
}

fn canon_wire(occ: &Value, top: bool) -> Vec<u8> {
    let mut out = vec![];
    for o in occ.as_array().map(|a| a.as_slice()).unwrap_or(&[]) {
        let f = o["f"].as_u64().unwrap_or(1);
        let fixed32 = top && f == 4;
        let one = |out: &mut Vec<u8>| if fixed32 { out.extend_from_slice(&[1, 0, 0, 0]) } else { out.push(5) };
        if let Some(k) = o.get("packed").and_then(|x| x.as_u64()) {
            put_varint(&mut out, (f << 3) | 2);
            let mut body = vec![];
            for _ in 0..k { one(&mut body); }
            put_varint(&mut out, body.len() as u64);
            out.extend_from_slice(&body);
        } else if o.get("direct").is_some() {
            put_varint(&mut out, (f << 3) | if fixed32 { 5 } else { 0 });
            one(&mut out);
        } else if let Some(n) = o.get("len").and_then(|x| x.as_u64()) {
            put_varint(&mut out, (f << 3) | 2);
            put_varint(&mut out, n);
            out.extend(std::iter::repeat(9u8).take(n as usize));
        } else if let Some(sub) = o.get("sub") {
            let body = canon_wire(sub, false);
            put_varint(&mut out, (f << 3) | 2);
            put_varint(&mut out, body.len() as u64);
            out.extend_from_slice(&body);
        }
    }
    out
}

impl C10 {
    fn exec_preface(&self, op: &Value, out: &mut Out) -> Value {
        let s1 = json_bytes(&op["s1"]);
        let s3 = json_bytes(&op["s3plain"]);
        let mode = op["hs_mode"].as_str().unwrap_or("ok").to_string();
        let tamper = op["tamper"].as_bool().unwrap_or(false);
        let (res, peak) = self.rt.block_on(async {
            use tokio::io::{AsyncReadExt, AsyncWriteExt};
            let ctx = ctx::test_root(&ctx::RealClock);
            let mut listener = tokio::net::TcpListener::bind("127.0.0.1:0").await.expect("bind");
            let addr = listener.local_addr().unwrap();
            let client = async {
                let mut c = tokio::net::TcpStream::connect(addr).await?;
                c.set_nodelay(true)?;
                c.write_all(&s1).await?;
                match mode.as_str() {
                    "none" => {}
                    "tiny" => { c.write_all(&[5, 0, 1, 2, 3, 4, 5]).await?; }
                    "short" => { c.write_all(&[48, 0, 1, 2, 3, 4, 5, 6, 7, 8, 9, 10]).await?; }
                    // handshake frames whose announced length is far above the 32/48 bytes an honest peer sends,
                    // fully present ("big*") or cut short ("maxshort"): must end in an error, never in a panic
                    "big257" | "big4096" | "bigmax" | "big49" => {
                        let n: usize = match mode.as_str() { "big257" => 257, "big4096" => 4096, "big49" => 49, _ => 65535 };
                        c.write_all(&(n as u16).to_le_bytes()).await?;
                        c.write_all(&vec![0x5au8; n]).await?;
                    }
                    "maxshort" => { c.write_all(&[0xff, 0xff, 1, 2, 3, 4, 5, 6, 7, 8, 9, 10]).await?; }
                    _ => {
                        let mut hs = snow::Builder::new(noise_params()).build_initiator().unwrap();
                        let mut buf = vec![0u8; 65536];
                        let n = hs.write_message(&[], &mut buf).unwrap();
                        c.write_all(&(n as u16).to_le_bytes()).await?;
                        c.write_all(&buf[..n]).await?;
                        let mut l = [0u8; 2];
                        c.read_exact(&mut l).await?;
                        let n = u16::from_le_bytes(l) as usize;
                        c.read_exact(&mut buf[..n]).await?;
                        let mut payload = vec![0u8; 65536];
                        if hs.read_message(&buf[..n], &mut payload).is_ok() {
                            let mut t = hs.into_transport_mode().unwrap();
                            let n = t.write_message(&s3, &mut buf).unwrap();
                            if tamper { buf[n / 2] ^= 0x40; }
                            c.write_all(&(n as u16).to_le_bytes()).await?;
                            c.write_all(&buf[..n]).await?;
                        }
                    }
                }
                c.shutdown().await?;
                // keep the socket until the server is done with it
                let mut sink = vec![];
                let _ = c.read_to_end(&mut sink).await;
                Ok::<(), std::io::Error>(())
            };
            track_start();
            let (r, _) = tokio::join!(entry::preface_accept(&ctx, &mut listener), client);
            (r, track_stop())
        });
        // noise handshake uses a fixed 64 kB scratch buffer and two (65 537 + 65 519)-byte stream buffers
        let ok_alloc = peak <= 70_000;
        if !ok_alloc {
            out.oracle_fail("alloc:preface::accept", "allocation above the preface frame limit", json!({"op": op, "peak": peak}));
        }
        match res {
            Ok(name) => json!({"class": "accepted", "alloc_le_max": ok_alloc, "_endpoint": name}),
            Err(e) => {
                let class = if e.contains("recv_proto(encryption)") { "err_encryption" }
                    else if e.contains("server_handshake()") { "err_handshake" }
                    else if e.contains("recv_proto(endpoint)") { "err_endpoint" } else { "other" };
                json!({"class": class, "alloc_le_max": ok_alloc, "_why": e})
            }
        }
    }

    fn exec_noise(&self, op: &Value) -> Value {
        let k = op["k"].as_u64().unwrap_or(16) as usize;
        let segs = op["segs"].as_array().cloned().unwrap_or_default();
        let frags: Vec<usize> = op["frags"].as_array().map(|a| a.iter().map(|x| x.as_u64().unwrap() as usize).collect()).unwrap_or_default();
        self.rt.block_on(async {
            let root = ctx::test_root(&ctx::ManualClock::new());
            let pipe = RawPipe::default();
            let done: Arc<Mutex<Option<String>>> = Arc::default();
            let result: Arc<Mutex<Option<Result<(u64, String), String>>>> = Arc::default();
            let res: Result<Value, ctx::Canceled> = scope::run!(&root, |ctx, s| async move {
                let (p2, d2, r2) = (pipe.clone(), done.clone(), result.clone());
                s.spawn_bg(async move {
                    let r = entry::noise_server_read_all(ctx, p2, k).await;
                    *r2.lock().unwrap() = Some(r);
                    *d2.lock().unwrap() = Some("done".into());
                    Ok(())
                });
                // the harness is the initiator of the NN handshake
                let mut hs = snow::Builder::new(noise_params()).build_initiator().unwrap();
                let mut buf = vec![0u8; 65536 + 64];
                let n = hs.write_message(&[], &mut buf).unwrap();
                pipe.push(&(n as u16).to_le_bytes());
                pipe.push(&buf[..n]);
                settle(&pipe, &done).await;
                let reply = pipe.take_out();
                let n = u16::from_le_bytes([reply[0], reply[1]]) as usize;
                let mut payload = vec![0u8; 65536];
                hs.read_message(&reply[2..2 + n], &mut payload).expect("server handshake message");
                let mut t = hs.into_transport_mode().unwrap();
                let mut wire = vec![];
                for sgm in &segs {
                    let n = sgm["n"].as_u64().unwrap() as usize;
                    let body = sgm["body"].as_u64().unwrap() as usize;
                    match sgm["mode"].as_str().unwrap_or("junk") {
                        "auth" | "tamper" => {
                            let plain = vec![0x5au8; n - 16];
                            let m = t.write_message(&plain, &mut buf).unwrap();
                            if sgm["mode"] == "tamper" { buf[m - 1] ^= 1; }
                            wire.extend_from_slice(&(m as u16).to_le_bytes());
                            wire.extend_from_slice(&buf[..m]);
                        }
                        _ => {
                            wire.extend_from_slice(&(n as u16).to_le_bytes());
                            wire.extend(std::iter::repeat(0x33u8).take(body));
                        }
                    }
                }
                let mut off = 0;
                for f in &frags {
                    if off >= wire.len() { break; }
                    let e = std::cmp::min(wire.len(), off + f);
                    pipe.push(&wire[off..e]);
                    off = e;
                    settle(&pipe, &done).await;
                }
                pipe.push(&wire[off..]);
                pipe.close();
                settle(&pipe, &done).await;
                let r = result.lock().unwrap().clone();
                Ok(match r {
                    Some(Ok((total, end))) => json!({"total": total, "end": end}),
                    Some(Err(e)) => json!({"end": "handshake_error", "_why": e}),
                    None => json!({"end": "pending"}),
                })
            }).await;
            res.unwrap_or_else(|_| json!({"end": "canceled"}))
        })
    }

    fn exec_canon(&self, op: &Value) -> Value {
        let desc = canon_pool();
        let wire = canon_wire(&op["occ"], true);
        match zksync_protobuf::canonical_raw(&wire, &desc) {
            Ok(v) => json!({"class": "ok", "_len": v.len(), "_wire": hex::encode(&wire)}),
            Err(e) => json!({"class": "err", "_why": format!("{e:#}")}),
        }
    }
}

fn poll_once<F: std::future::Future>(f: F) -> Option<F::Output> {
    let mut f = Box::pin(f);
    let w = futures_noop_waker();
    let mut cx = Context::from_waker(&w);
    match f.as_mut().poll(&mut cx) {
        Poll::Ready(v) => Some(v),
        Poll::Pending => None,
    }
}

fn futures_noop_waker() -> Waker {
    use std::task::{RawWaker, RawWakerVTable};
    fn no(_: *const ()) {}
    fn cl(_: *const ()) -> RawWaker { RawWaker::new(std::ptr::null(), &VT) }
    static VT: RawWakerVTable = RawWakerVTable::new(cl, no, no, no);
    unsafe { Waker::from_raw(RawWaker::new(std::ptr::null(), &VT)) }
}

impl C10 {
    /// `tag` makes two messages of the same sender, kind and view distinct (different block number)
    fn qmsg(&mut self, j: &Value, tag: u64) -> validator::Signed<validator::ConsensusMsg> {
        let key = j["key"].as_u64().unwrap_or(0) as usize;
        let inner = j["inner"].as_u64().unwrap_or(0);
        let w = self.world();
        let n = w.n();
        let qc = abs::acqc(n, abs::avote(inner, tag, 3), &[]);
        let msg = match j["kind"].as_str().unwrap_or("") {
            "commit" => v2::ChonkyMsg::ReplicaCommit(w.vote(&abs::avote(inner, tag, 3))),
            "timeout" => v2::ChonkyMsg::ReplicaTimeout(w.tvote(&abs::ATVote { view: abs::aview(inner), hv: Some(abs::avote(0, tag, 3)), hq: None })),
            "proposal" => v2::ChonkyMsg::LeaderProposal(v2::LeaderProposal { proposal_payload: None, justification: v2::ProposalJustification::Commit(w.cqc(&qc)) }),
            _ => v2::ChonkyMsg::ReplicaNewView(v2::ReplicaNewView { justification: v2::ProposalJustification::Commit(w.cqc(&qc)) }),
        };
        w.signed(key, msg, false)
    }

    fn exec_sel(&mut self, op: &Value) -> Value {
        let old = self.qmsg(&op["old"], 1);
        let new = self.qmsg(&op["new"], 2);
        let (ov, nv) = (old.msg.view_number().0, new.msg.view_number().0);
        let (send, mut recv) = zksync_consensus_bft::create_input_channel();
        let mk = |m: validator::Signed<validator::ConsensusMsg>| zksync_consensus_bft::FromNetworkMessage { msg: m, ack: zksync_concurrency::oneshot::channel().0 };
        send.send(mk(old.clone()));
        send.send(mk(new.clone()));
        let ctx = ctx::test_root(&ctx::RealClock);
        let mut got = vec![];
        while let Some(Ok(m)) = poll_once(recv.recv(&ctx)) {
            got.push(m.msg);
        }
        let sel = if got.len() == 2 { "Keep" } else if got.len() == 1 && got[0] == new { "DiscardOld" }
            else if got.len() == 1 && got[0] == old { "DiscardNew" } else { "?" };
        json!({"sel": sel, "old_view": ov, "new_view": nv})
    }

    fn exec_cqc(&mut self, op: &Value) -> Value {
        let q = &op["qc"];
        let vote = abs::AVote { view: abs::AView { g: q["vote"]["view"]["g"].as_u64().unwrap(), e: q["vote"]["view"]["e"].as_u64().unwrap(), v: q["vote"]["view"]["v"].as_u64().unwrap() },
            n: q["vote"]["n"].as_u64().unwrap(), h: q["vote"]["h"].as_u64().unwrap() };
        let signers: Vec<bool> = q["signers"].as_array().unwrap().iter().map(|b| b.as_bool().unwrap()).collect();
        let who: Vec<usize> = op["who"].as_array().unwrap().iter().map(|x| x.as_u64().unwrap() as usize).collect();
        let a = abs::ACqc { vote: vote.clone(), signers, sig: who.into_iter().map(|i| (i, vote.clone())).collect() };
        let w = self.world();
        let qc = w.cqc(&a);
        match qc.verify(w.genesis, w.epoch, &w.schedule) {
            Ok(()) => json!({"class": "ok"}),
            Err(e) => {
                use v2::CommitQCVerifyError as E;
                let name = match e { E::InvalidMessage(_) => "InvalidMessage", E::BadSignersSet => "BadSignersSet", E::NotEnoughWeight { .. } => "NotEnoughWeight", E::BadSignature(_) => "BadSignature" };
                // the model names the two view checks separately; both are `InvalidMessage` here
                json!({"class": "err", "_err": name})
            }
        }
    }

    fn exec_tqc(&mut self, op: &Value) -> Value {
        let a: abs::AJust = serde_json::from_value(op["a"].clone()).expect("AJust");
        let first = op["first"].as_u64().unwrap_or(0);
        let implied = op["op"] == "implied";
        let w = self.world();
        let (j, _) = w.just(&a);
        let res = j.verify(w.genesis, w.epoch, &w.schedule);
        match res {
            Err(e) => json!({"class": "err", "_why": format!("{e:#}")}),
            Ok(()) => {
                if !implied { return json!({"class": "ok"}); }
                let view = j.view().number.0;
                let (n, rp) = j.get_implied_block(&w.schedule, validator::BlockNumber(first));
                json!({"class": "ok", "number": n.0, "repropose": rp.is_some(), "view": view})
            }
        }
    }


    fn exec_votes(&mut self, op: &Value, out: &mut Out) -> Value {
        let me = op["me"].as_u64().unwrap_or(0) as usize;
        let mut built = vec![];
        for m in op["msgs"].as_array().cloned().unwrap_or_default() {
            let w = self.world();
            let from = m["from"].as_u64().unwrap() as usize;
            let bad = m["bad_sig"].as_bool().unwrap_or(false);
            let msg = if m["kind"] == "commit" {
                let a: abs::AVote = serde_json::from_value(m["a"].clone()).expect("AVote");
                v2::ChonkyMsg::ReplicaCommit(w.vote(&a))
            } else {
                let a: abs::ATVote = serde_json::from_value(m["a"].clone()).expect("ATVote");
                v2::ChonkyMsg::ReplicaTimeout(w.tvote(&a))
            };
            built.push(w.signed(from, msg, bad));
        }
        let w = self.world.take().unwrap();
        let (classes, view) = self.rt.block_on(async {
            let mut rig = sim::Rig::new(&w, me).await;
            let mut classes = vec![];
            for m in built {
                if rig.dead { break; }
                classes.push(rig.step_msg(m, None).await.class);
            }
            let view = rig.snapshot().view.0;
            (classes, view)
        });
        self.world = Some(w);
        let mut verdicts = vec![];
        for c in &classes {
            if let Some(site) = c.strip_prefix("panic:") {
                out.oracle_fail(site, "a signed vote crashed the replica", op.clone());
                return json!({"panic": site});
            }
            verdicts.push(if c == "accepted" { "accepted".to_string() } else if c.starts_with("rejected") { "rejected".to_string() } else { c.clone() });
        }
        json!({"verdicts": verdicts, "view": view, "_classes": classes})
    }

    fn exec_replica(&mut self, op: &Value, out: &mut Out) -> Value {
        let me = op["me"].as_u64().unwrap_or(0) as usize;
        let msgs = op["msgs"].as_array().cloned().unwrap_or_default();
        let n = self.world().n();
        let mut built = vec![];
        for m in &msgs {
            let w = self.world();
            let view = m["view"].as_u64().unwrap();
            let num = m["num"].as_u64().unwrap();
            let signers: Vec<bool> = m["signers"].as_array().unwrap().iter().map(|b| b.as_bool().unwrap()).collect();
            let from = m["from"].as_u64().unwrap() as usize;
            let vote = abs::avote(view, num, 3);
            // fault model: correct validators only sign sane values, so a certificate over an absurd view / block number
            // carries genuine signatures of the (Byzantine) sender only, whatever its bitmap claims
            let sane = view < 1 << 32 && num < 1 << 32;
            let who: Vec<(usize, abs::AVote)> = signers.iter().enumerate()
                .filter(|(i, b)| **b && *i < n && (sane || *i == from)).map(|(i, _)| (i, vote.clone())).collect();
            let qc = abs::ACqc { vote: vote.clone(), signers, sig: who };
            let payload = m["payload"].as_u64().unwrap() as usize;
            let msg = match m["kind"].as_str().unwrap() {
                "commit" => v2::ChonkyMsg::ReplicaCommit(w.vote(&vote)),
                "timeout" => v2::ChonkyMsg::ReplicaTimeout(w.tvote(&abs::ATVote { view: abs::aview(view),
                    hv: m["hv"].as_bool().unwrap().then(|| vote.clone()), hq: m["hq"].as_bool().unwrap().then(|| qc.clone()) })),
                "proposal" => v2::ChonkyMsg::LeaderProposal(v2::LeaderProposal {
                    proposal_payload: (payload > 0).then(|| validator::Payload(vec![7u8; payload])),
                    justification: v2::ProposalJustification::Commit(w.cqc(&qc)) }),
                _ => v2::ChonkyMsg::ReplicaNewView(v2::ReplicaNewView { justification: v2::ProposalJustification::Commit(w.cqc(&qc)) }),
            };
            built.push((w.signed(from, msg, false), m["tick"].as_bool().unwrap_or(false)));
        }
        let w = self.world.take().unwrap();
        let classes: Vec<String> = self.rt.block_on(async {
            let mut rig = sim::Rig::new(&w, me).await;
            let mut classes = vec![];
            for (m, tick) in built {
                if rig.dead { break; }
                if tick {
                    classes.push(rig.step_tick(None).await.class);
                    if rig.dead { break; }
                }
                // the queue's filter and selection function see the message first, as in production
                let c1 = catch(|| { let _ = (m.msg.label(), m.msg.view_number()); m.verify().is_ok() });
                if let Err(site) = c1 { classes.push(format!("panic:{site}")); break; }
                classes.push(rig.step_msg(m, None).await.class);
            }
            classes
        });
        self.world = Some(w);
        for c in &classes {
            if let Some(site) = c.strip_prefix("panic:") {
                out.oracle_fail(site, "a well-signed consensus message crashed the replica", op.clone());
                return json!({"panic": site});
            }
        }
        json!({"_classes": classes})
    }
}


// ------------------------------------------------------------------------------------------------ a real node under absurd RPC messages

/// any panic on any thread (the node's engine may use blocking threads), first one wins
static ANY_PANIC: Mutex<Option<String>> = Mutex::new(None);

mod nodeop {
    use super::*;
    use zksync_consensus_engine::{testonly::TestEngine, BlockStoreState, Last, Transaction};
    use zksync_consensus_network::{testonly as nt, verif::{handshake as hk, mux as vmux, wire}, Config};

    pub const MAX_BLOCK: usize = 64 * 1024;
    pub const MAX_TX: usize = 4 * 1024;

    /// how the peer answers the node's `get_block` calls
    #[derive(Clone, Debug)]
    pub enum Serve { Right, None_, Wrong, Extreme, Oversized, Garbage, Hang, Empty }

    pub struct Peer {
        pub accept: HashMap<&'static str, vmux::Queue>,
        pub connect: HashMap<&'static str, vmux::Queue>,
        pub close: Option<tokio::sync::oneshot::Sender<()>>,
        pub serve: Arc<Mutex<Serve>>,
        pub served: Arc<Mutex<Vec<u64>>>,
        /// set when `Mux::run` of this connection returned (the node dropped us)
        pub dead: Arc<AtomicBool>,
    }

    pub async fn with_timeout<T>(ms: u64, f: impl std::future::Future<Output = T>) -> Option<T> {
        tokio::time::timeout(std::time::Duration::from_millis(ms), f).await.ok()
    }

    fn vcfg() -> vmux::Config {
        let c = entry::MuxCfg::rpc();
        vmux::Config { read_frame_size: c.read_frame_size, read_buffer_size: c.read_buffer_size, read_frame_count: c.read_frame_count, write_frame_size: c.write_frame_size }
    }

    async fn read_frame(ctx: &ctx::Ctx, r: &mut vmux::ReadHalf) -> Option<Vec<u8>> {
        let l = r.read_exact(ctx, 4).await.ok()?;
        if l.len() < 4 { return None; }
        let n = u32::from_le_bytes(l[..4].try_into().unwrap()) as usize;
        if n > 1 << 24 { return None; }
        let b = r.read_exact(ctx, n).await.ok()?;
        (b.len() == n).then_some(b)
    }

    /// one RPC call made by the peer: `Some(response body)` if the node answered
    pub async fn call(ctx: &ctx::Ctx, q: &vmux::Queue, framed_req: &[u8]) -> Option<Vec<u8>> {
        let mut st = with_timeout(300, q.open(ctx)).await?.ok()?;
        with_timeout(300, async {
            st.write.write_all(ctx, framed_req).await.ok()?;
            st.write.flush(ctx).await.ok()?;
            Some(())
        }).await??;
        let vmux::Stream { mut read, write } = st;
        drop(write);
        with_timeout(300, read_frame(ctx, &mut read)).await?
    }

    pub struct Blocks(pub Vec<validator::Block>);
    impl Blocks {
        pub fn get(&self, n: u64) -> Option<validator::Block> { self.0.iter().find(|b| b.number().0 == n).cloned() }
    }

    /// the peer's `get_block` server: answers every call of the node according to the current mode
    async fn serve_loop(ctx: &ctx::Ctx, q: vmux::Queue, mode: Arc<Mutex<Serve>>, served: Arc<Mutex<Vec<u64>>>, blocks: Arc<Blocks>) {
        loop {
            let Ok(mut st) = q.open(ctx).await else { return };
            let Some(req) = read_frame(ctx, &mut st.read).await else { continue };
            let Ok(req) = nproto::gossip::GetBlockRequest::decode(req.as_slice()) else { continue };
            let n = req.number.unwrap_or(0);
            served.lock().unwrap().push(n);
            let m = mode.lock().unwrap().clone();
            let resp: Option<Vec<u8>> = match m {
                Serve::Hang => { ctx.canceled().await; return }
                Serve::Right => Some(framed(&wire::rpc_get_block_resp(blocks.get(n)).encode())),
                Serve::None_ => Some(framed(&wire::rpc_get_block_resp(None).encode())),
                Serve::Wrong => Some(framed(&wire::rpc_get_block_resp(blocks.0.iter().find(|b| b.number().0 != n).cloned()).encode())),
                Serve::Extreme => {
                    // a block whose number is 2^64-1 / whose certificate is garbage
                    let b = validator::Block::PreGenesis(validator::PreGenesisBlock {
                        number: validator::BlockNumber(u64::MAX), payload: validator::Payload(vec![1, 2, 3]), justification: validator::Justification(vec![]) });
                    Some(framed(&wire::rpc_get_block_resp(Some(b)).encode()))
                }
                Serve::Oversized => { let mut v = le32(1 << 30).to_vec(); v.extend_from_slice(&[0u8; 64]); Some(v) }
                Serve::Garbage => Some(framed(&[0xff, 0xff, 0xff, 0x01])),
                Serve::Empty => Some(vec![]),
            };
            if let Some(r) = resp {
                let _ = st.write.write_all(ctx, &r).await;
                let _ = st.write.flush(ctx).await;
            }
        }
    }

    /// full gossip connection of a fresh anonymous peer: preface, noise, handshake with a valid node key, mux
    pub async fn connect_gossip<'env>(ctx: &'env ctx::Ctx, s: &scope::Scope<'env, anyhow::Error>, node: &Config, genesis: validator::GenesisHash,
        rng: &mut StdRng, blocks: Arc<Blocks>) -> Result<Peer, String> {
        let addr = *node.server_addr;
        // the node binds its listener asynchronously after start
        let mut stream = None;
        for _ in 0..200 {
            match with_timeout(3000, hk::Stream::connect(ctx, addr, hk::Endpoint::GossipNet)).await {
                Some(Ok(st)) => { stream = Some(st); break; }
                _ => tokio::time::sleep(std::time::Duration::from_millis(5)).await,
            }
        }
        let mut stream = stream.ok_or("connect failed")?;
        let me = nt::new_fullnode(rng, node);
        with_timeout(3000, hk::gossip_outbound(ctx, &me, genesis, &mut stream, &node.gossip.key.public())).await.ok_or("handshake timeout")?.map_err(|e| e.1)?;
        let mut accept = HashMap::new();
        let mut connect = HashMap::new();
        let (mut va, mut vc) = (vec![], vec![]);
        for (name, id, inflight) in entry::all_rpc_capabilities() {
            if name == "consensus" { continue; }
            let (a, c) = (vmux::Queue::new(ctx, inflight), vmux::Queue::new(ctx, inflight));
            va.push((id, a.clone()));
            vc.push((id, c.clone()));
            accept.insert(name, a);
            connect.insert(name, c);
        }
        let mux = vmux::Mux::new(vcfg(), &va, &vc);
        let (close, close_rx) = tokio::sync::oneshot::channel::<()>();
        let serve = Arc::new(Mutex::new(Serve::Hang));
        let served = Arc::new(Mutex::new(vec![]));
        let gb = connect["get_block"].clone();
        let (m2, s2) = (serve.clone(), served.clone());
        let dead = Arc::new(AtomicBool::new(false));
        let d2 = dead.clone();
        s.spawn_bg(async move {
            let _: Result<(), ctx::Canceled> = scope::run!(ctx, |ctx, s| async move {
                s.spawn_bg(async move { let _ = mux.run(ctx, stream).await; d2.store(true, Ordering::SeqCst); Ok(()) });
                s.spawn_bg(async move { serve_loop(ctx, gb, m2, s2, blocks).await; Ok(()) });
                let _ = ctx.wait(close_rx).await;
                Ok(())
            }).await;
            Ok(())
        });
        Ok(Peer { accept, connect, close: Some(close), serve, served, dead })
    }

    pub fn state_of(v: &Value, qc: &v2::CommitQC) -> BlockStoreState {
        let last = match (v.get("pre").and_then(|x| x.as_u64()), v.get("fin").and_then(|x| x.as_u64())) {
            (Some(n), _) => Some(Last::PreGenesis(validator::BlockNumber(n))),
            (_, Some(n)) => { let mut q = qc.clone(); q.message.proposal.number = validator::BlockNumber(n); Some(Last::FinalV2(q)) }
            _ => None,
        };
        BlockStoreState { first: validator::BlockNumber(v["first"].as_u64().unwrap_or(0)), last }
    }

    pub fn tx(len: usize) -> Transaction { Transaction(vec![0x42; len]) }
    pub async fn engine(ctx: &ctx::Ctx, setup: &validator::testonly::Setup, first: u64) -> TestEngine {
        TestEngine::new_with_first_block(ctx, setup, validator::BlockNumber(first)).await
    }
    pub fn new_config(rng: &mut StdRng, setup: &validator::testonly::Setup) -> Config {
        let mut cfg = nt::new_configs(rng, setup, 0)[0].clone();
        cfg.rpc.push_block_store_state_rate = limiter::Rate::INF;
        cfg.rpc.get_block_rate = limiter::Rate::INF;
        cfg.rpc.push_validator_addrs_rate = limiter::Rate::INF;
        cfg.rpc.push_tx_rate = limiter::Rate::INF;
        cfg.rpc.consensus_rate = limiter::Rate::INF;
        cfg.rpc.get_block_timeout = None;
        cfg.max_block_size = MAX_BLOCK;
        cfg.max_tx_size = MAX_TX;
        cfg.max_block_queue_size = 3;
        cfg
    }
    pub fn instance(cfg: Config, m: Arc<zksync_consensus_engine::EngineManager>) -> (nt::Instance, nt::InstanceRunner) {
        let (send, recv) = zksync_consensus_bft::create_input_channel();
        nt::Instance::new_with_channel(cfg, m, send, recv)
    }
    pub type Stream = hk::Stream;
    pub async fn connect_consensus<'env>(ctx: &'env ctx::Ctx, s: &scope::Scope<'env, anyhow::Error>, node: &Config, genesis: validator::GenesisHash,
        me: &validator::SecretKey) -> Result<(vmux::Queue, tokio::sync::oneshot::Sender<()>), String> {
        let addr = *node.server_addr;
        let mut stream = with_timeout(3000, hk::Stream::connect(ctx, addr, hk::Endpoint::ConsensusNet)).await.ok_or("connect timeout")?.map_err(|e| format!("{e:?}"))?;
        let peer = node.validator_key.as_ref().unwrap().public();
        with_timeout(3000, hk::consensus_outbound(ctx, me, genesis, &mut stream, &peer)).await.ok_or("handshake timeout")?.map_err(|e| e.1)?;
        let (name, id, inflight) = entry::all_rpc_capabilities().into_iter().find(|c| c.0 == "consensus").unwrap();
        let _ = name;
        let (a, c) = (vmux::Queue::new(ctx, inflight), vmux::Queue::new(ctx, inflight));
        let mux = vmux::Mux::new(vcfg(), &[(id, a.clone())], &[(id, c)]);
        let (close, close_rx) = tokio::sync::oneshot::channel::<()>();
        s.spawn_bg(async move {
            let _: Result<(), ctx::Canceled> = scope::run!(ctx, |ctx, s| async move {
                s.spawn_bg(async move { let _ = mux.run(ctx, stream).await; Ok(()) });
                let _ = ctx.wait(close_rx).await;
                Ok(())
            }).await;
            Ok(())
        });
        Ok((a, close))
    }
    pub fn req_bss(st: BlockStoreState) -> Vec<u8> { framed(&wire::rpc_push_block_store_state_req(st).encode()) }
    pub fn req_get(n: u64) -> Vec<u8> { framed(&wire::rpc_get_block_req(validator::BlockNumber(n)).encode()) }
    pub fn req_tx(t: Transaction) -> Vec<u8> { framed(&wire::rpc_push_tx_req(t).encode()) }
    pub fn req_addrs(a: Vec<validator::Signed<validator::NetAddress>>) -> Vec<u8> { framed(&wire::rpc_push_validator_addrs_req(a).encode()) }
    pub fn req_ping(d: [u8; 32]) -> Vec<u8> { framed(&wire::rpc_ping_req(d).encode()) }
    pub fn req_consensus(m: validator::Signed<validator::ConsensusMsg>) -> Vec<u8> { framed(&wire::rpc_consensus_req(m).encode()) }
}

fn gen_store_and_node(rng: &mut StdRng, n: usize, ops: &mut Vec<Value>) {
    // BlockStoreState::{contains, head, verify, next} on boundary states
    let pts: Vec<u64> = vec![0, 1, 2, 5, u64::MAX - 2, u64::MAX - 1, u64::MAX, 1 << 63];
    for first in &pts {
        for last in pts.iter().map(|x| Some(*x)).chain([None]) {
            for nn in [0u64, 1, 4, 5, 6, u64::MAX - 1, u64::MAX] {
                let fin = rng.gen_bool(0.3);
                ops.push(json!({"op": "bss", "first": first, "last": last, "fin": fin, "n": nn}));
            }
        }
    }
    for _ in 0..n {
        let a: u64 = if rng.gen() { rng.gen_range(0..10) } else { u64::MAX - rng.gen_range(0..10) };
        let b: Option<u64> = if rng.gen_bool(0.1) { None } else if rng.gen() { Some(rng.gen_range(0..10)) } else { Some(u64::MAX - rng.gen_range(0..10)) };
        let c: u64 = if rng.gen() { rng.gen_range(0..10) } else { u64::MAX - rng.gen_range(0..10) };
        ops.push(json!({"op": "bss", "first": a, "last": b, "fin": rng.gen_bool(0.3), "n": c}));
    }
    // a real node under absurd but well-formed RPC messages
    let ext: Vec<u64> = vec![0, 1, u64::MAX - 1, u64::MAX];
    let serves = ["right", "none", "wrong", "extreme", "oversized", "garbage", "hang", "empty"];
    let mut cases: Vec<(u64, u64, Vec<Value>)> = vec![];
    // directed: every (first, last kind, last) boundary combination once, followed by a pending fetch
    for fb in [0u64, 3] {
        let fp = if fb == 0 { 0 } else { 1 };
        let mut nums = ext.clone();
        nums.extend([fp, fb.saturating_sub(1), fb, fb + 1]);
        nums.sort(); nums.dedup();
        for kind in ["pre", "fin"] {
            let mut steps = vec![];
            for &l in &nums {
                let mut fs = vec![0u64, fp, fb, l, l.wrapping_add(1), u64::MAX];
                fs.sort(); fs.dedup();
                for &f in &fs {
                    let mut st = json!({"first": f});
                    st[kind] = json!(l);
                    steps.push(json!({"k": "bss", "state": st, "serve": serves[(l as usize ^ f as usize) % serves.len()]}));
                }
            }
            steps.push(json!({"k": "bss", "state": {"first": u64::MAX}, "serve": "hang"}));
            // each case = one node; keep cases short
            for chunk in steps.chunks(6) { cases.push((fb, fp, chunk.to_vec())); }
        }
    }
    for _ in 0..n {
        let fb = *[0u64, 1, 3].choose(rng).unwrap();
        let fp = if fb == 0 { 0 } else { rng.gen_range(0..=fb) };
        let num = |rng: &mut StdRng| -> u64 { match rng.gen_range(0..6) { 0 => fp, 1 => fb, 2 => fb + 1, 3 => fb.saturating_sub(1), _ => *ext.choose(rng).unwrap() } };
        let mut steps = vec![];
        for _ in 0..rng.gen_range(1..6) {
            match rng.gen_range(0..10) {
                0..=3 => {
                    let mut st = json!({"first": num(rng)});
                    match rng.gen_range(0..5) { 0 => {}, 1 | 2 => { st["pre"] = json!(num(rng)); }, _ => { st["fin"] = json!(num(rng)); } }
                    steps.push(json!({"k": "bss", "state": st, "serve": serves.choose(rng).unwrap()}));
                }
                4 => steps.push(json!({"k": "get", "n": num(rng)})),
                5 | 6 => {
                    let addrs: Vec<Value> = (0..rng.gen_range(0..4)).map(|_| json!({
                        "who": *["v0", "v0", "v1", "unknown"].choose(rng).unwrap(), "bad_sig": rng.gen_bool(0.15),
                        "version": *ext.choose(rng).unwrap(),
                        "secs": *[0i64, 1, i64::MAX, i64::MIN, 253_402_300_800, -377_705_116_801].choose(rng).unwrap(),
                        "nanos": *[0i32, 999_999_999, -1].choose(rng).unwrap(), "v6": rng.gen::<bool>(), "port": *[0u16, 1, u16::MAX].choose(rng).unwrap()})).collect();
                    steps.push(json!({"k": "addrs", "addrs": addrs}));
                }
                7 => steps.push(json!({"k": "tx", "len": *[0usize, 1, 4096, 4097, 100_000].choose(rng).unwrap()})),
                8 => steps.push(json!({"k": "ping"})),
                _ => steps.push(json!({"k": "consensus", "kind": *["commit", "timeout", "newview", "proposal"].choose(rng).unwrap(),
                        "view": *ext.choose(rng).unwrap(), "num": *ext.choose(rng).unwrap(), "bad_sig": rng.gen_bool(0.2)})),
            }
        }
        cases.push((fb, fp, steps));
    }
    for (i, (fb, fp, steps)) in cases.into_iter().enumerate() {
        ops.push(json!({"op": "node", "reset": true, "seed": 1000 + i as u64, "first_block": fb, "first_pre": fp, "steps": steps}));
    }
}

impl C10 {
    fn exec_bss(&mut self, op: &Value) -> Value {
        use zksync_consensus_engine::{BlockStoreState, Last};
        let first = op["first"].as_u64().unwrap_or(0);
        let n = validator::BlockNumber(op["n"].as_u64().unwrap_or(0));
        let last = op["last"].as_u64().map(|l| {
            if op["fin"].as_bool().unwrap_or(false) {
                let w = self.world();
                let nval = w.n();
                Last::FinalV2(w.cqc(&abs::acqc(nval, abs::avote(1, l, 3), &[])))
            } else { Last::PreGenesis(validator::BlockNumber(l)) }
        });
        let s = BlockStoreState { first: validator::BlockNumber(first), last };
        let contains = s.contains(n);
        let next = match catch(|| s.next().0) { Ok(x) => json!(x), Err(_) => json!("panic") };
        json!({"contains": contains, "head": s.head().0, "verify": if s.verify().is_ok() { "ok" } else { "err" }, "next": next})
    }

    fn exec_node(&mut self, op: &Value, out: &mut Out) -> Value {
        use nodeop::*;
        use zksync_consensus_engine::{BlockStoreState, Last};
        *ANY_PANIC.lock().unwrap() = None;
        let seed = op["seed"].as_u64().unwrap_or(0);
        let fb = op["first_block"].as_u64().unwrap_or(0);
        let fp = op["first_pre"].as_u64().unwrap_or(0);
        let steps = op["steps"].as_array().cloned().unwrap_or_default();
        let rt = &self.rt;
        let res: Result<Value, String> = catch(|| rt.block_on(async {
            let root = ctx::test_root(&ctx::RealClock);
            let mut rng = <StdRng as rand::SeedableRng>::seed_from_u64(seed);
            let mut spec = validator::testonly::SetupSpec::new(&mut rng, 2);
            spec.first_block = validator::BlockNumber(fb);
            spec.first_pregenesis_block = validator::BlockNumber(fp);
            let mut setup = validator::testonly::Setup::from_spec(&mut rng, spec);
            setup.push_blocks_v2(&mut rng, 6);
            let blocks = Arc::new(Blocks(setup.blocks.clone()));
            let genesis = setup.genesis_hash();
            let some_qc = match setup.blocks.last().unwrap() { validator::Block::FinalV2(b) => b.justification.clone(), _ => unreachable!() };
            let track = std::sync::atomic::AtomicUsize::new(0);
            let (setup_r, steps_r, track_r, blocks_r, some_qc_r) = (&setup, &steps, &track, &blocks, &some_qc);
            let r: Result<Value, anyhow::Error> = scope::run!(&root, |ctx, s| async move {
                let (setup, steps, track, blocks, some_qc) = (setup_r, steps_r, track_r, blocks_r, some_qc_r);
                let engine = engine(ctx, setup, fp).await;
                let manager = engine.manager.clone();
                s.spawn_bg(async { let _ = engine.runner.run(ctx).await; Ok(()) });
                let cfg = new_config(&mut rng, setup);
                let (mut inst, runner) = instance(cfg.clone(), manager.clone());
                let node_done: Arc<Mutex<Option<String>>> = Arc::default();
                let nd = node_done.clone();
                s.spawn_bg(async move {
                    let r = runner.run(ctx).await;
                    *nd.lock().unwrap() = Some(format!("{r:?}"));
                    Ok(())
                });
                // the consensus component's input queue: drain and acknowledge, as the replica's loop does
                s.spawn_bg(async move {
                    while let Ok(req) = inst.consensus_receiver.recv(ctx).await {
                        let _ = (req.msg.msg.label(), req.msg.msg.view_number());
                        let _ = req.ack.send(());
                    }
                    Ok(())
                });
                let mut log = vec![];
                let mut peer: Option<Peer> = None;
                track_start();
                for st in steps {
                    if peer.as_ref().is_some_and(|p| p.dead.load(Ordering::SeqCst)) {
                        // the node dropped the connection (e.g. after a bad get_block answer): a peer simply reconnects
                        if let Some(mut p) = peer.take() { if let Some(c) = p.close.take() { let _ = c.send(()); } }
                        log.push("reconnect".into());
                    }
                    if peer.is_none() {
                        match connect_gossip(ctx, s, &cfg, genesis, &mut rng, blocks.clone()).await {
                            Ok(p) => peer = Some(p),
                            Err(e) => { log.push(format!("connect: {e}")); break; }
                        }
                    }
                    let p = peer.as_mut().unwrap();
                    let k = st["k"].as_str().unwrap_or("");
                    if std::env::var("C10_TRACE").is_ok() { eprintln!("step {st}"); }
                    let outcome: String = match k {
                        "bss" => {
                            *p.serve.lock().unwrap() = match st["serve"].as_str().unwrap_or("hang") {
                                "right" => Serve::Right, "none" => Serve::None_, "wrong" => Serve::Wrong, "extreme" => Serve::Extreme,
                                "oversized" => Serve::Oversized, "garbage" => Serve::Garbage, "empty" => Serve::Empty, _ => Serve::Hang };
                            let state = state_of(&st["state"], some_qc);
                            let r = call(ctx, &p.accept["push_block_store_state"], &req_bss(state)).await;
                            // give the fetcher the chance to act on the announcement (call us, get an answer)
                            let before = p.served.lock().unwrap().len();
                            for _ in 0..20 {
                                tokio::time::sleep(std::time::Duration::from_millis(2)).await;
                                if p.served.lock().unwrap().len() > before { tokio::time::sleep(std::time::Duration::from_millis(10)).await; break; }
                            }
                            format!("bss:{}:asked={:?}", if r.is_some() { "acked" } else { "no_response" }, &p.served.lock().unwrap()[before..])
                        }
                        "get" => {
                            let r = call(ctx, &p.accept["get_block"], &req_get(st["n"].as_u64().unwrap_or(0))).await;
                            format!("get:{}", match r { Some(b) => format!("resp{}", b.len()), None => "no_response".into() })
                        }
                        "tx" => {
                            let r = call(ctx, &p.accept["push_tx"], &req_tx(tx(st["len"].as_u64().unwrap_or(0) as usize))).await;
                            format!("tx:{}", if r.is_some() { "acked" } else { "no_response" })
                        }
                        "ping" => {
                            let r = call(ctx, &p.accept["ping"], &req_ping([7u8; 32])).await;
                            format!("ping:{}", if r.is_some() { "pong" } else { "no_response" })
                        }
                        "addrs" => {
                            let mut v = vec![];
                            for a in st["addrs"].as_array().cloned().unwrap_or_default() {
                                let key: validator::SecretKey = match a["who"].as_str().unwrap_or("") { "v0" => setup.validator_keys[0].clone(), "v1" => setup.validator_keys[1].clone(), _ => rng.gen() };
                                let t = zksync_protobuf::proto::std::Timestamp { seconds: a["secs"].as_i64(), nanos: a["nanos"].as_i64().map(|x| x as i32) };
                                let Ok(ts) = time::Utc::read(&t) else { continue };
                                let ip: std::net::IpAddr = if a["v6"].as_bool().unwrap_or(false) { std::net::Ipv6Addr::LOCALHOST.into() } else { std::net::Ipv4Addr::LOCALHOST.into() };
                                let msg = validator::NetAddress { addr: std::net::SocketAddr::new(ip, a["port"].as_u64().unwrap_or(0) as u16), version: a["version"].as_u64().unwrap_or(0), timestamp: ts };
                                let mut sg = key.sign_msg(msg);
                                if a["bad_sig"].as_bool().unwrap_or(false) { sg.msg.version = sg.msg.version.wrapping_add(1); }
                                v.push(sg);
                            }
                            let r = call(ctx, &p.accept["push_validator_addrs"], &req_addrs(v)).await;
                            format!("addrs:{}", if r.is_some() { "acked" } else { "no_response" })
                        }
                        "consensus" => {
                            let me = setup.validator_keys[1].clone();
                            match connect_consensus(ctx, s, &cfg, genesis, &me).await {
                                Err(e) => format!("consensus:connect:{e}"),
                                Ok((q, close)) => {
                                    let view = v2::View { genesis, epoch: validator::EpochNumber(0), number: validator::ViewNumber(st["view"].as_u64().unwrap_or(0)) };
                                    let vote = v2::ReplicaCommit { view, proposal: v2::BlockHeader { number: validator::BlockNumber(st["num"].as_u64().unwrap_or(0)), payload: validator::Payload(vec![1]).hash() } };
                                    let mut qc = some_qc.clone();
                                    qc.message = vote.clone();
                                    let m = match st["kind"].as_str().unwrap_or("") {
                                        "commit" => v2::ChonkyMsg::ReplicaCommit(vote),
                                        "timeout" => v2::ChonkyMsg::ReplicaTimeout(v2::ReplicaTimeout { view, high_vote: Some(vote), high_qc: Some(qc) }),
                                        "proposal" => v2::ChonkyMsg::LeaderProposal(v2::LeaderProposal { proposal_payload: Some(validator::Payload(vec![0; 10])), justification: v2::ProposalJustification::Commit(qc) }),
                                        _ => v2::ChonkyMsg::ReplicaNewView(v2::ReplicaNewView { justification: v2::ProposalJustification::Commit(qc) }),
                                    };
                                    let mut sg = me.sign_msg(validator::ConsensusMsg::V2(m));
                                    if st["bad_sig"].as_bool().unwrap_or(false) { sg.sig = me.sign_msg(validator::ConsensusMsg::V2(v2::ChonkyMsg::ReplicaCommit(v2::ReplicaCommit { view, proposal: v2::BlockHeader { number: validator::BlockNumber(77), payload: validator::Payload(vec![2]).hash() } }))).sig; }
                                    let r = call(ctx, &q, &req_consensus(sg)).await;
                                    let _ = close.send(());
                                    format!("consensus:{}", if r.is_some() { "acked" } else { "no_response" })
                                }
                            }
                        }
                        _ => "?".into(),
                    };
                    log.push(outcome);
                    if ANY_PANIC.lock().unwrap().is_some() || node_done.lock().unwrap().is_some() { break; }
                }
                track.store(track_stop(), Ordering::Relaxed);
                if std::env::var("C10_TRACE").is_ok() { eprintln!("steps done {log:?}"); }
                // the adversarial peer goes away; a fresh honest peer checks that the node still works
                if let Some(mut p) = peer.take() { if let Some(c) = p.close.take() { let _ = c.send(()); } }
                tokio::time::sleep(std::time::Duration::from_millis(5)).await;
                let mut ping = false;
                let mut fetched = false;
                if let Ok(p) = connect_gossip(ctx, s, &cfg, genesis, &mut rng, blocks.clone()).await {
                    *p.serve.lock().unwrap() = Serve::Right;
                    let data = [9u8; 32];
                    if let Some(b) = call(ctx, &p.accept["ping"], &req_ping(data)).await {
                        ping = nproto::ping::PingResp::decode(b.as_slice()).map(|r| r.data == Some(data.to_vec())).unwrap_or(false);
                    }
                    let want = manager.queued().next();
                    if blocks.get(want.0).is_some() {
                        let honest = BlockStoreState { first: blocks.0[0].number(), last: Some(Last::from(blocks.0.last().unwrap())) };
                        let _ = call(ctx, &p.accept["push_block_store_state"], &req_bss(honest)).await;
                        fetched = with_timeout(5000, manager.wait_until_persisted(ctx, want)).await.map(|r| r.is_ok()).unwrap_or(false);
                    } else {
                        fetched = true;
                    }
                    log.push(format!("probe:asked={:?}", p.served.lock().unwrap()));
                } else {
                    log.push("probe:connect failed".into());
                }
                let done = node_done.lock().unwrap().clone();
                Ok(json!({"ping": ping, "fetched": fetched, "_node": done, "_steps": log}))
            }).await;
            let peak = track.load(Ordering::Relaxed);
            match r {
                Ok(mut v) => { v["_peak"] = json!(peak); Ok(v) }
                Err(e) => Err(format!("{e:#}")),
            }
        })).unwrap_or_else(|site| Err(format!("panic: {site}")));
        TRACK_ON.store(false, Ordering::Relaxed);
        let panic = ANY_PANIC.lock().unwrap().take();
        if let Some(site) = panic {
            // the scope re-panics into `exec`'s catch otherwise; report here with the message sequence as the input
            out.oracle_fail(&format!("node: {site}"), "a well-formed RPC message crashed a task of the node", op.clone());
            return json!({"panic": site, "_res": format!("{res:?}")});
        }
        match res {
            Ok(v) => {
                let peak = v["_peak"].as_u64().unwrap_or(0) as usize;
                // largest legitimate buffers: a block / consensus message (max_block_size + 100 kB), noise buffers, setup
                if peak > nodeop::MAX_BLOCK + 400 * 1024 {
                    out.oracle_fail("alloc:node", "a node task allocated far above its configured limits", json!({"op": op, "peak": peak}));
                }
                if v["ping"] != json!(true) || v["fetched"] != json!(true) {
                    out.oracle_fail("node:not_live", "the node stopped serving / fetching after well-formed RPC messages", json!({"op": op, "obs": v}));
                }
                v
            }
            Err(e) => {
                out.oracle_fail("node:error", "the node instance failed", json!({"op": op, "err": e}));
                json!({"ping": false, "fetched": false, "_err": e})
            }
        }
    }
}


// ------------------------------------------------------------------------------------------------ truncated frames on a mux stream

/// a VALID message is announced with its full length, but only a prefix of its body arrives before CLOSE: cut at 0, at every
/// top-level field boundary (where the prefix is a valid encoding of a different value), mid-field, and not at all
fn gen_trunc(rng: &mut StdRng, n: usize, ops: &mut Vec<Value>) {
    use zksync_consensus_network::verif::wire;
    let mut msgs: Vec<(&'static str, String, Vec<u8>)> = vec![];
    for k in [1usize, 2, 5] {
        let addrs: Vec<validator::Signed<validator::NetAddress>> = (0..k).map(|i| {
            let key: validator::SecretKey = rng.gen();
            key.sign_msg(validator::NetAddress { addr: std::net::SocketAddr::from(([127, 0, 0, 1], 1000 + i as u16)), version: i as u64, timestamp: time::UNIX_EPOCH + time::Duration::seconds(1_700_000_000) })
        }).collect();
        msgs.push(("rpc.push_validator_addrs.Req", format!("addrs:{k}"), wire::rpc_push_validator_addrs_req(addrs).encode()));
    }
    let blk = validator::Block::PreGenesis(validator::PreGenesisBlock { number: validator::BlockNumber(7), payload: validator::Payload(vec![1, 2, 3, 4]), justification: validator::Justification(vec![5, 6]) });
    msgs.push(("rpc.get_block.Resp", "block:some".into(), wire::rpc_get_block_resp(Some(blk)).encode()));
    msgs.push(("rpc.get_block.Req", "get:9".into(), wire::rpc_get_block_req(validator::BlockNumber(9)).encode()));
    msgs.push(("rpc.ping.Req", "ping".into(), wire::rpc_ping_req([3u8; 32]).encode()));
    msgs.push(("rpc.push_tx.Req", "tx:40".into(), wire::rpc_push_tx_req(zksync_consensus_engine::Transaction(vec![9u8; 40])).encode()));
    msgs.push(("rpc.push_block_store_state.Req", "state".into(), wire::rpc_push_block_store_state_req(zksync_consensus_engine::BlockStoreState {
        first: validator::BlockNumber(2), last: Some(zksync_consensus_engine::Last::PreGenesis(validator::BlockNumber(5))) }).encode()));
    {
        let key: validator::SecretKey = rng.gen();
        let vote = v2::ReplicaCommit { view: v2::View { genesis: rng.gen(), epoch: validator::EpochNumber(0), number: validator::ViewNumber(3) },
            proposal: v2::BlockHeader { number: validator::BlockNumber(1), payload: validator::Payload(vec![1]).hash() } };
        msgs.push(("rpc.consensus.Req", "consensus".into(), wire::rpc_consensus_req(key.sign_msg(validator::ConsensusMsg::V2(v2::ChonkyMsg::ReplicaCommit(vote)))).encode()));
    }
    for (ty, what, body) in msgs {
        let l = body.len();
        let mut cuts: Vec<usize> = vec![0, l];
        for (_, e) in tlv_spans(&body) { cuts.push(e); if e + 1 < l { cuts.push(e + 1); } }
        if l > 1 { cuts.push(l - 1); cuts.push(1); cuts.push(l / 2); }
        for _ in 0..n { cuts.push(rng.gen_range(0..=l)); }
        cuts.sort(); cuts.dedup();
        for cut in cuts {
            let delivered = &body[..cut];
            let mut avail = le32(l).to_vec();
            avail.extend_from_slice(delivered);
            // what the decoder says about the bytes it would be given on a complete frame
            let dec = cut == l && matches!(entry::decode(ty, delivered), Some(Ok(_)));
            // (diagnostic) would the delivered prefix decode on its own? these are the dangerous cuts
            let prefix_decodes = matches!(entry::decode(ty, delivered), Some(Ok(_)));
            let chunks: Vec<usize> = { let mut v = vec![]; let mut left = avail.len(); while left > 0 { let c = std::cmp::min(left, *[3usize, 50, 1000].choose(rng).unwrap()); v.push(c); left -= c; } v };
            ops.push(json!({"op": "trunc", "ty": ty, "sent": what, "max": 1 << 20, "announced": l, "delivered": cut, "avail": bytes_json(&avail),
                "chunks": chunks, "dec": dec, "prefix_decodes": prefix_decodes}));
        }
    }
}

impl C10 {
    fn exec_trunc(&self, op: &Value, out: &mut Out) -> Value {
        let ty = op["ty"].as_str().unwrap_or("").to_string();
        let max = op["max"].as_u64().unwrap_or(0) as usize;
        let avail = json_bytes(&op["avail"]);
        let chunks: Vec<usize> = op["chunks"].as_array().map(|a| a.iter().map(|x| x.as_u64().unwrap() as usize).collect()).unwrap_or_default();
        let (announced, delivered) = (op["announced"].as_u64().unwrap_or(0), op["delivered"].as_u64().unwrap_or(0));
        let res = self.rt.block_on(async {
            let root = ctx::test_root(&ctx::ManualClock::new());
            let pipe = RawPipe::default();
            let done: Arc<Mutex<Option<String>>> = Arc::default();
            let result: Arc<Mutex<Option<Result<(String, usize), String>>>> = Arc::default();
            let r: Result<Option<Result<(String, usize), String>>, ctx::Canceled> = scope::run!(&root, |ctx, s| async move {
                let (p2, d2, r2, ty2) = (pipe.clone(), done.clone(), result.clone(), ty.clone());
                s.spawn_bg(async move {
                    let r = entry::mux_recv_named(ctx, p2, &ty2, max).await;
                    *r2.lock().unwrap() = Some(r);
                    *d2.lock().unwrap() = Some("done".into());
                    Ok(())
                });
                // the peer is the connecting end of stream 0 of capability 0
                pipe.push(&mux_handshake_frame(&[], &[(Some(0), Some(1))]));
                settle(&pipe, &done).await;
                let mut wire = hdr(0x0000, true, 0).to_vec();
                let mut off = 0;
                for c in &chunks {
                    wire.extend_from_slice(&hdr(0x4000, true, 0));
                    wire.extend_from_slice(&(*c as u16).to_le_bytes());
                    wire.extend_from_slice(&avail[off..off + c]);
                    off += c;
                }
                wire.extend_from_slice(&hdr(0x8000, true, 0));
                pipe.push(&wire);
                settle(&pipe, &done).await;
                let r = result.lock().unwrap().clone();
                Ok(r)
            }).await;
            r.ok().flatten()
        });
        match res {
            Some(Ok((what, size))) => {
                // S: a value may only be delivered when every announced byte arrived
                if delivered < announced {
                    out.oracle_fail("frame:truncated_accepted:mux_recv_proto",
                        &format!("truncated frame accepted as a complete message: sent {} / announced {announced} bytes, delivered {delivered} < {announced}, decoded as {what}", op["sent"].as_str().unwrap_or("?")),
                        op.clone());
                }
                json!({"class": "ok", "_decoded": what, "_size": size})
            }
            Some(Err(e)) => {
                let class = if e.contains("end of stream") { "eos" } else if e.contains("too large") { "too_large" } else { "decode_err" };
                json!({"class": class, "_why": e})
            }
            None => json!({"class": "pending"}),
        }
    }
}

impl Prop for C10 {
    fn gen(&mut self, opts: &Opts) -> Vec<Value> {
        let mut rng = opts.rng();
        let n = opts.n;
        let mut ops = vec![];
        gen_std(&mut rng, n / 4, &mut ops);
        self.gen_reads(&mut rng, n * 4, &mut ops);
        gen_mux(&mut rng, n / 2, opts.thorough, &mut ops);
        gen_frames(&mut rng, n / 2, &mut ops);
        gen_rpc(&mut rng, n / 8, &mut ops);
        gen_preface(&mut rng, n / 8, &mut ops);
        gen_noise(&mut rng, n / 8, &mut ops);
        gen_canon(&mut rng, n / 4, &mut ops);
        gen_consensus(&mut rng, n / 8, &mut ops);
        gen_votes(&mut rng, n / 8, &mut ops);
        gen_trunc(&mut rng, n / 500, &mut ops);
        gen_store_and_node(&mut rng, n / 100, &mut ops);
        if let Ok(only) = std::env::var("C10_ONLY") { ops.retain(|o| o["op"] == only.as_str()); }
        // certificates: add the model's view of the realised value (map in the real BTreeMap order)
        let nval = WEIGHTS.len();
        for op in ops.iter_mut() {
            if op["op"] == "tqc" || op["op"] == "implied" {
                let a: abs::AJust = serde_json::from_value(op["a"].clone()).expect("AJust");
                let (_, ordered) = self.world().just(&a);
                match &ordered {
                    abs::AJust::Commit(q) => { op["just"] = json!({"commit": cqc_j(q, nval)}); }
                    abs::AJust::Timeout(q) => { op["just"] = json!({"timeout": tqc_j(q, nval)}); op["qc"] = tqc_j(q, nval); }
                }
            }
        }
        ops
    }

    fn exec(&mut self, op: &Value, out: &mut Out) -> Value {
        install_hook();
        FIRST_PANIC.with(|p| *p.borrow_mut() = None);
        let kind = op["op"].as_str().unwrap_or("?").to_string();
        out.count(&format!("op={kind}"));
        let r = match kind.as_str() {
            "dur" | "ts" | "bitvec" | "sockaddr" => {
                let mut r = catch(|| self.exec_std(op));
                // S: an accepted duration / timestamp re-encodes to something that reads back as the same value
                if let Ok(v) = &r {
                    if v["class"] == "ok" && v.get("_roundtrip") == Some(&json!(false)) {
                        out.oracle_fail("std_conv:build_overflow", "build() of an accepted Duration/Timestamp does not read back (seconds overflowed)", op.clone());
                    }
                }
                // S: a decoded timestamp can be rendered (the debug page prints `NetAddress.timestamp` with Display)
                if kind == "ts" && matches!(&r, Ok(v) if v["class"] == "ok") {
                    let t = zksync_protobuf::proto::std::Timestamp { seconds: op["s"].as_i64(), nanos: op["n"].as_i64().map(|x| x as i32) };
                    if let Ok(u) = time::Utc::read(&t) {
                        let shown = catch(|| u.to_string().len());
                        if let Err(site) = &shown {
                            let msg = site.rsplit(": ").next().unwrap_or("");
                            out.oracle_fail(&format!("display:time::Utc: {msg}"), "Display of a decoded Timestamp panicked", op.clone());
                        }
                        let dbg = catch(|| format!("{u:?}").len());
                        if let Err(site) = &dbg {
                            let msg = site.rsplit(": ").next().unwrap_or("");
                            out.oracle_fail(&format!("debug:time::Utc: {msg}"), "Debug of a decoded Timestamp panicked", op.clone());
                        }
                        if let Ok(v) = r.as_mut() { v["display_ok"] = json!(shown.is_ok()); v["debug_ok"] = json!(dbg.is_ok()); }
                    }
                }
                r
            }
            "read" | "wire" => { let o = &mut *out; let this = &*self; catch(move || this.exec_read(op, o)) }
            "mux" => { let o = &mut *out; let this = &*self; catch(move || this.exec_mux(op, o)) }
            "muxhs" => catch(|| self.exec_muxhs(op)),
            "frame" => {
                let o = &mut *out; let this = &*self;
                if op["kind"] == "mux" { catch(move || this.exec_frame_mux(op, o)) } else { catch(move || this.exec_frame_recv(op, o)) }
            }
            "preface" => { let o = &mut *out; let this = &*self; catch(move || this.exec_preface(op, o)) }
            "noise" => catch(|| self.exec_noise(op)),
            "canon" => catch(|| self.exec_canon(op)),
            "sel" => catch(|| self.exec_sel(op)),
            "cqc" => catch(|| self.exec_cqc(op)),
            "tqc" | "implied" => catch(|| self.exec_tqc(op)),
            "votes" => { let o = &mut *out; catch(|| self.exec_votes(op, o)) }
            "bss" => catch(|| self.exec_bss(op)),
            "trunc" => { let o = &mut *out; let this = &*self; catch(move || this.exec_trunc(op, o)) }
            "node" => { let o = &mut *out; catch(|| self.exec_node(op, o)) }
            "replica" => { let o = &mut *out; catch(|| self.exec_replica(op, o)) }
            _ => Ok(json!({"bad_op": true})),
        };
        TRACK_ON.store(false, Ordering::Relaxed);
        match r {
            Ok(v) => {
                if let Some(c) = v.get("class").and_then(|c| c.as_str()) { out.count(&format!("{kind}:{c}")); }
                if let Some(c) = v.get("end").and_then(|c| c.as_str()) { out.count(&format!("{kind}:{c}")); }
                v
            }
            Err(site) => {
                let site = FIRST_PANIC.with(|p| p.borrow_mut().take()).unwrap_or(site);
                out.oracle_fail(&site, &format!("panic while handling network input (op {kind})"), op.clone());
                json!({"panic": site})
            }
        }
    }
}

fn main() {
    let _ = (BTreeMap::<u8, u8>::new(), catch_async(async {}));
    vharness::main_for(&mut C10::new());
}
