//! C03: no vote equivocation by a correct validator, even across crashes (replica correspondence with crash
//! injection at every durable write, both outcomes; equivocating leader).
use vharness::replica::{Mode, ReplicaProp};

fn main() {
    vharness::main_for(&mut ReplicaProp::new(Mode::Crash, "C03"));
}
