//! C18: the validator address book (`gossip::ValidatorAddrsWatch`, through the hook `network::verif::addrs`).
//!
//! Ops (stateful; the first op of every case carries `"reset": true`):
//!   {"op":"update","vs":[key..],"batch":[A..]}        A = {"k":key,"m":[addr,version,secs,nanos],"sb":signer,"sm":[addr,version,secs,nanos]}
//!   {"op":"announce","k":key,"a":addr,"s":secs,"n":nanos}
//!   {"op":"stash"}      remember the current book and the set of announcements seen in this case
//!   {"op":"converge"}   compare the current book / seen set with the stashed ones
//!   {"op":"contended","calls":[update|announce ..],"poll":[i..]}   the calls overlap: they queue on the book's lock (held by
//!                       the harness) in the listed order, then run to completion polled in the order `poll`
//!   {"op":"seq","reset":true,"ops":[..]}              a whole case as one op (replay files)
//! `A` is realised as a genuinely BLS-signed value: `sb` signs the message `sm`, the announcement claims key `k`
//! and message `m` (forged iff sb != k or sm != m). Keys / addresses are small integer ids.
//!
//! Observation: {"class":"ok|dup|badsig|announce|stash|converge","ok":b,"notified":b,"book":[[key,addr,version,secs,nanos,verifies]..]}
use std::{
    collections::{BTreeMap, HashMap},
    net::{Ipv4Addr, SocketAddr},
    sync::Arc,
};

use rand::{rngs::StdRng, seq::SliceRandom, Rng, SeedableRng};
use serde_json::{json, Value};
use vharness::{catch, Opts, Out, Prop};
use zksync_concurrency::time;
use zksync_consensus_network::verif::addrs::{AddrBook, SignedAddr};
use zksync_consensus_roles::validator;

const NKEYS: usize = 6;
const U64MAX: u64 = u64::MAX;

/// abstract message: (addr id, version, secs, nanos)
type AMsg = (u64, u64, i64, i32);

#[derive(Clone, Debug, PartialEq, Eq, Hash)]
struct AAnn {
    k: usize,
    m: AMsg,
    sb: usize,
    sm: AMsg,
}

impl AAnn {
    fn honest(k: usize, m: AMsg) -> Self {
        Self { k, m, sb: k, sm: m }
    }
    fn valid(&self) -> bool {
        self.sb == self.k && self.sm == self.m
    }
    fn json(&self) -> Value {
        json!({"k": self.k, "m": [self.m.0, self.m.1, self.m.2, self.m.3], "sb": self.sb, "sm": [self.sm.0, self.sm.1, self.sm.2, self.sm.3]})
    }
    fn parse(v: &Value) -> Self {
        let m = |x: &Value| -> AMsg {
            (x[0].as_u64().expect("addr"), x[1].as_u64().expect("version"), x[2].as_i64().expect("secs"), x[3].as_i64().expect("nanos") as i32)
        };
        Self { k: v["k"].as_u64().expect("k") as usize, m: m(&v["m"]), sb: v["sb"].as_u64().expect("sb") as usize, sm: m(&v["sm"]) }
    }
    /// the (version, timestamp) the order is about
    fn ord(&self) -> (u64, i64, i32) {
        (self.m.1, self.m.2, self.m.3)
    }
}

/// sign-consistent (seconds, nanoseconds), as `time::Duration::new` would normalise them
fn norm(m: AMsg) -> AMsg {
    let (s, mut n) = (m.2, m.3);
    if (s > 0 && n < 0) || (s < 0 && n > 0) {
        n = -n;
    }
    (m.0, m.1, s, n)
}

fn addr_of(id: u64) -> SocketAddr {
    SocketAddr::new(Ipv4Addr::new(10, 0, (id >> 8) as u8, id as u8).into(), 3000 + (id % 1000) as u16)
}

fn addr_id(a: &SocketAddr) -> u64 {
    match a.ip() {
        std::net::IpAddr::V4(ip) => {
            let o = ip.octets();
            ((o[2] as u64) << 8) | o[3] as u64
        }
        _ => 999_999,
    }
}

fn utc_of(secs: i64, nanos: i32) -> time::Utc {
    time::UNIX_EPOCH + time::Duration::new(secs, nanos)
}

fn net_address(m: &AMsg) -> validator::NetAddress {
    validator::NetAddress { addr: addr_of(m.0), version: m.1, timestamp: utc_of(m.2, m.3) }
}

fn abs_msg(m: &validator::NetAddress) -> AMsg {
    let d = m.timestamp - time::UNIX_EPOCH;
    (addr_id(&m.addr), m.version, d.whole_seconds(), d.subsec_nanoseconds())
}

type BookList = Vec<(usize, AMsg, bool)>;

struct C18 {
    keys: Vec<validator::SecretKey>,
    key_id: HashMap<validator::PublicKey, usize>,
    rt: tokio::runtime::Runtime,
    sigs: HashMap<(usize, AMsg), validator::Signature>,
    schedules: HashMap<Vec<usize>, validator::Schedule>,
    verified: HashMap<validator::Signed<validator::NetAddress>, bool>,
    book: AddrBook,
    // per case
    case_ops: Vec<Value>,
    case_vs: Option<Vec<usize>>,
    case_mixed: bool,
    seen: Vec<AAnn>,
    stash: Option<(BookList, Vec<AAnn>, Option<Vec<usize>>, bool)>,
}

impl C18 {
    fn new() -> Self {
        // fixed key material: observations only contain key ids, so the keys need not depend on the seed
        let mut rng = StdRng::seed_from_u64(0xC18);
        let keys: Vec<validator::SecretKey> = (0..NKEYS).map(|_| rng.gen()).collect();
        let key_id = keys.iter().enumerate().map(|(i, k)| (k.public(), i)).collect();
        Self {
            keys,
            key_id,
            rt: tokio::runtime::Builder::new_current_thread().enable_all().build().unwrap(),
            sigs: HashMap::new(),
            schedules: HashMap::new(),
            verified: HashMap::new(),
            book: AddrBook::new(),
            case_ops: vec![],
            case_vs: None,
            case_mixed: false,
            seen: vec![],
            stash: None,
        }
    }

    /// realises an abstract announcement; every (signer, message) pair is signed once per run
    fn realise(&mut self, a: &AAnn) -> SignedAddr {
        let keys = &self.keys;
        let sig = self
            .sigs
            .entry((a.sb, a.sm))
            .or_insert_with(|| keys[a.sb].sign_msg(net_address(&a.sm)).sig)
            .clone();
        Arc::new(validator::Signed { msg: net_address(&a.m), key: self.keys[a.k].public(), sig })
    }

    fn schedule(&mut self, vs: &[usize]) -> validator::Schedule {
        let keys = &self.keys;
        self.schedules
            .entry(vs.to_vec())
            .or_insert_with(|| {
                validator::Schedule::new(
                    vs.iter().map(|&i| validator::ValidatorInfo { key: keys[i].public(), weight: 1, leader: true }),
                    validator::LeaderSelection { frequency: 1, mode: validator::LeaderSelectionMode::RoundRobin },
                )
                .expect("schedule")
            })
            .clone()
    }

    fn verifies(&mut self, s: &validator::Signed<validator::NetAddress>) -> bool {
        if let Some(&b) = self.verified.get(s) {
            return b;
        }
        let b = s.verify().is_ok();
        self.verified.insert(s.clone(), b);
        b
    }

    /// `current()`, canonical: sorted by key id
    fn snapshot(&mut self, out: &mut Out, input: &Value) -> (BookList, HashMap<usize, SignedAddr>) {
        let cur = self.book.current();
        let mut list = vec![];
        let mut raw = HashMap::new();
        for (k, v) in cur.iter() {
            let id = match self.key_id.get(k) {
                Some(&i) => i,
                None => {
                    out.oracle_fail("foreign_key", "the book holds an entry for a key that is not in the key universe", input.clone());
                    continue;
                }
            };
            if &v.key != k {
                out.oracle_fail("filed_under_wrong_key", "entry stored under a key different from the one it names", input.clone());
            }
            // what a subscriber reads (`ValidatorAddrs::get`) must be the same entry
            match self.book.get(k) {
                Some(g) if Arc::ptr_eq(&g, v) || *g == **v => {}
                _ => out.oracle_fail("get_mismatch", "ValidatorAddrs::get disagrees with current()", input.clone()),
            }
            let ok = self.verifies(v);
            list.push((id, abs_msg(&v.msg), ok));
            raw.insert(id, v.clone());
        }
        list.sort();
        (list, raw)
    }

    fn case_input(&self) -> Value {
        json!({"op": "seq", "reset": true, "ops": self.case_ops})
    }

    fn book_json(list: &BookList) -> Value {
        Value::Array(list.iter().map(|(k, m, ok)| json!([k, m.0, m.1, m.2, m.3, ok])).collect())
    }

    fn exec_one(&mut self, op: &Value, out: &mut Out) -> Value {
        if op["reset"].as_bool() == Some(true) {
            self.book = AddrBook::new();
            self.case_ops.clear();
            self.case_vs = None;
            self.case_mixed = false;
            self.seen.clear();
        }
        let mut rec = op.clone();
        if self.case_ops.is_empty() {
            rec["reset"] = json!(true);
        }
        self.case_ops.push(rec);
        match op["op"].as_str().unwrap_or("") {
            "update" => self.exec_update(op, out),
            "announce" => self.exec_announce(op, out),
            "stash" => {
                let input = self.case_input();
                let (list, _) = self.snapshot(out, &input);
                self.stash = Some((list.clone(), self.seen.clone(), self.case_vs.clone(), self.case_mixed));
                json!({"class": "stash", "ok": true, "book": Self::book_json(&list)})
            }
            "converge" => self.exec_converge(out),
            "contended" => self.exec_contended(op, out),
            _ => json!({"bad_op": true}),
        }
    }

    fn exec_update(&mut self, op: &Value, out: &mut Out) -> Value {
        let vs: Vec<usize> = op["vs"].as_array().expect("vs").iter().map(|x| x.as_u64().unwrap() as usize).collect();
        let batch: Vec<AAnn> = op["batch"].as_array().expect("batch").iter().map(AAnn::parse).collect();
        let data: Vec<SignedAddr> = batch.iter().map(|a| self.realise(a)).collect();
        let schedule = self.schedule(&vs);
        let input = self.case_input();
        match &self.case_vs {
            None if self.case_ops.len() == 1 => self.case_vs = Some(vs.clone()),
            Some(v) if *v == vs => {}
            _ => self.case_mixed = true,
        }
        let (before, before_raw) = self.snapshot(out, &input);
        let _ = self.book.take_notified();
        let res = {
            let (book, rt) = (&self.book, &self.rt);
            catch(|| rt.block_on(book.update(&schedule, &data)))
        };
        let res = match res {
            Ok(r) => r,
            Err(site) => {
                out.oracle_fail(&site, "ValidatorAddrsWatch::update panicked", input);
                return json!({"panic": site});
            }
        };
        let notified = self.book.take_notified();
        let (after, after_raw) = self.snapshot(out, &input);
        let class = match &res {
            Ok(()) => "ok",
            Err(e) if format!("{e:#}").contains("duplicate entry") => "dup",
            Err(_) => "badsig",
        };
        out.count(&format!("update:{class}"));
        out.count(&format!("batch_len={}", batch.len().min(8)));

        // ---------------- property monitors (ground truth = the abstract announcements) ----------------
        let bmap: BTreeMap<usize, &(usize, AMsg, bool)> = before.iter().map(|e| (e.0, e)).collect();
        let amap: BTreeMap<usize, &(usize, AMsg, bool)> = after.iter().map(|e| (e.0, e)).collect();
        // authenticity: everything stored verifies
        for e in &after {
            if !e.2 {
                out.oracle_fail("stored_not_authentic", "the book holds an announcement whose signature does not verify", input.clone());
            }
        }
        // nothing removed; replaced only by strictly newer (version, timestamp), by a member's valid batch entry
        for (k, b) in &bmap {
            match amap.get(k) {
                None => out.oracle_fail("entry_removed", "an entry disappeared from the book", input.clone()),
                Some(a) => {
                    let same = Arc::ptr_eq(&before_raw[k], &after_raw[k]) || *before_raw[k] == *after_raw[k];
                    if !same && (a.1 .1, a.1 .2, a.1 .3) <= (b.1 .1, b.1 .2, b.1 .3) {
                        out.oracle_fail("replaced_by_not_newer", "an entry was replaced by one that is not strictly newer in (version, timestamp)", input.clone());
                    }
                }
            }
        }
        let mut inserted = 0;
        for (k, _) in &amap {
            let changed = match before_raw.get(k) {
                None => true,
                Some(b) => !(Arc::ptr_eq(b, &after_raw[k]) || **b == *after_raw[k]),
            };
            if !changed {
                continue;
            }
            inserted += 1;
            if !vs.contains(k) {
                out.oracle_fail("nonmember_stored", "an announcement of a non-member was stored", input.clone());
            }
            // the new entry is one of the batch, and a genuine one
            match data.iter().position(|d| Arc::ptr_eq(d, &after_raw[k])) {
                None => out.oracle_fail("not_from_batch", "a new entry is not an entry of the batch", input.clone()),
                Some(i) => {
                    if !batch[i].valid() {
                        out.oracle_fail("forged_stored", "a forged announcement was stored", input.clone());
                    }
                }
            }
        }
        if res.is_err() && (before != after || inserted > 0 || notified) {
            out.oracle_fail("rejected_batch_changed_book", "a rejected batch changed the address book / notified subscribers", input.clone());
        }
        if res.is_ok() && notified != (inserted > 0) {
            out.oracle_fail("notification_mismatch", "subscribers notified iff at least one entry inserted: violated", input.clone());
        }
        // batches that must be rejected / accepted (from ground truth)
        let mut keys_seen = vec![];
        let mut dup = false;
        for a in &batch {
            if keys_seen.contains(&a.k) {
                dup = true;
            }
            keys_seen.push(a.k);
        }
        let forged_fresh = batch.iter().any(|a| {
            !a.valid() && vs.contains(&a.k) && bmap.get(&a.k).map_or(true, |b| a.ord() > (b.1 .1, b.1 .2, b.1 .3))
        });
        if (dup || forged_fresh) && res.is_ok() {
            out.oracle_fail("bad_batch_accepted", "a batch with a duplicated key or a forged fresh member entry was accepted", input.clone());
        }
        if !(dup || forged_fresh) && res.is_err() {
            out.oracle_fail("good_batch_rejected", "a batch without duplicates / forged fresh entries was rejected", input.clone());
        }
        if res.is_ok() {
            // an accepted batch leaves every member key at least as new as the batch's entry for it
            for a in &batch {
                if vs.contains(&a.k) {
                    match amap.get(&a.k) {
                        Some(e) if (e.1 .1, e.1 .2, e.1 .3) >= a.ord() => {}
                        _ => out.oracle_fail("newer_entry_dropped", "after an accepted batch the book is older than a member entry of the batch", input.clone()),
                    }
                }
            }
            self.seen.extend(batch.iter().cloned());
        }
        if batch.iter().any(|a| !a.valid()) {
            out.count(if res.is_ok() { "forged_in_batch:tolerated" } else { "forged_in_batch:rejected" });
        }
        json!({"class": class, "ok": res.is_ok(), "notified": notified, "book": Self::book_json(&after), "_err": res.err().map(|e| format!("{e:#}").chars().take(48).collect::<String>())})
    }

    fn exec_announce(&mut self, op: &Value, out: &mut Out) -> Value {
        let k = op["k"].as_u64().expect("k") as usize;
        let a = op["a"].as_u64().expect("a");
        let (s, n) = (op["s"].as_i64().expect("s"), op["n"].as_i64().expect("n") as i32);
        let input = self.case_input();
        self.case_mixed = true;
        let (before, _) = self.snapshot(out, &input);
        let _ = self.book.take_notified();
        let res = {
            let (book, rt, key) = (&self.book, &self.rt, &self.keys[k]);
            catch(|| rt.block_on(book.announce(key, addr_of(a), utc_of(s, n))))
        };
        if let Err(site) = res {
            out.oracle_fail(&site, "ValidatorAddrsWatch::announce panicked", input);
            return json!({"panic": site});
        }
        let notified = self.book.take_notified();
        let (after, _) = self.snapshot(out, &input);
        let old = before.iter().find(|e| e.0 == k);
        let new = after.iter().find(|e| e.0 == k);
        let wrap = old.map_or(false, |o| o.1 .1 == U64MAX);
        out.count(if wrap { "announce:wrap_at_u64_max" } else { "announce" });
        match new {
            None => out.oracle_fail("announce_not_stored", "announce did not store the announcement", input.clone()),
            Some(e) => {
                if !e.2 || e.1 .0 != a || (e.1 .2, e.1 .3) != (s, n) {
                    out.oracle_fail("announce_wrong_entry", "announce stored an entry that does not verify / has other content", input.clone());
                }
                match old {
                    None if e.1 .1 != 0 => out.oracle_fail("announce_version", "first announcement must have version 0", input.clone()),
                    // documented boundary: `version + 1` wraps at u64::MAX in the release profile (see Props/C18
                    // `announce_wraps_at_u64_max`); only the node's own signature can create that state
                    Some(o) if !wrap && (e.1 .1 != o.1 .1 + 1) => {
                        // the property itself: the entry of a committee member is only replaced by a strictly newer one
                        if (e.1 .1, e.1 .2, e.1 .3) <= (o.1 .1, o.1 .2, o.1 .3) {
                            out.oracle_fail("announce_replaced_by_not_newer", "announce replaced the node's own entry by one that is not strictly newer (version, timestamp)", input.clone());
                        }
                        out.oracle_fail("announce_version", "announcement version must be stored version + 1", input.clone())
                    }
                    _ => {}
                }
            }
        }
        for e in &before {
            if e.0 != k && !after.contains(e) {
                out.oracle_fail("announce_touched_other_key", "announce changed another validator's entry", input.clone());
            }
        }
        json!({"class": "announce", "ok": true, "notified": notified, "wrap": wrap, "book": Self::book_json(&after)})
    }

    /// k update()/announce() calls that overlap: the harness holds the book's sender lock (like an in-flight
    /// handler), polls every call once so that they queue on the fair FIFO lock in the listed order, releases the
    /// lock and polls them to completion in the seeded order `poll`. The model applies the calls atomically in
    /// queue order.
    fn exec_contended(&mut self, op: &Value, out: &mut Out) -> Value {
        use std::{future::Future, pin::Pin, task::{Context, Poll, Waker}};
        enum Call {
            Update { vs: Vec<usize>, batch: Vec<AAnn>, data: Vec<SignedAddr>, schedule: validator::Schedule },
            Announce { k: usize, a: u64, s: i64, n: i32 },
        }
        let mut calls = vec![];
        for c in op["calls"].as_array().expect("calls") {
            match c["op"].as_str().unwrap_or("") {
                "update" => {
                    let vs: Vec<usize> = c["vs"].as_array().expect("vs").iter().map(|x| x.as_u64().unwrap() as usize).collect();
                    let batch: Vec<AAnn> = c["batch"].as_array().expect("batch").iter().map(AAnn::parse).collect();
                    let data: Vec<SignedAddr> = batch.iter().map(|a| self.realise(a)).collect();
                    let schedule = self.schedule(&vs);
                    match &self.case_vs {
                        None if self.case_ops.len() == 1 => self.case_vs = Some(vs.clone()),
                        Some(v) if *v == vs => {}
                        _ => self.case_mixed = true,
                    }
                    calls.push(Call::Update { vs, batch, data, schedule });
                }
                "announce" => {
                    self.case_mixed = true;
                    calls.push(Call::Announce {
                        k: c["k"].as_u64().expect("k") as usize,
                        a: c["a"].as_u64().expect("a"),
                        s: c["s"].as_i64().expect("s"),
                        n: c["n"].as_i64().expect("n") as i32,
                    });
                }
                _ => return json!({"bad_op": true}),
            }
        }
        let n = calls.len();
        let mut poll: Vec<usize> = op["poll"].as_array().map(|a| a.iter().map(|x| x.as_u64().unwrap() as usize).filter(|&i| i < n).collect()).unwrap_or_default();
        for i in 0..n {
            if !poll.contains(&i) {
                poll.push(i);
            }
        }
        let input = self.case_input();
        let (before, before_raw) = self.snapshot(out, &input);
        let _ = self.book.take_notified();
        let outcome = {
            let (book, rt, keys, calls) = (&self.book, &self.rt, &self.keys, &calls);
            catch(|| {
                let _enter = rt.enter();
                let guard = rt.block_on(book.hold_lock());
                let mut futs: Vec<Pin<Box<dyn Future<Output = Result<(), String>> + '_>>> = calls
                    .iter()
                    .map(|c| -> Pin<Box<dyn Future<Output = Result<(), String>> + '_>> {
                        match c {
                            Call::Update { data, schedule, .. } => Box::pin(async move { book.update(schedule, data).await.map_err(|e| format!("{e:#}")) }),
                            Call::Announce { k, a, s, n } => Box::pin(async move {
                                book.announce(&keys[*k], addr_of(*a), utc_of(*s, *n)).await;
                                Ok(())
                            }),
                        }
                    })
                    .collect();
                let waker = Waker::noop();
                let mut cx = Context::from_waker(waker);
                let mut results: Vec<Option<Result<(), String>>> = vec![None; n];
                let mut early = 0usize;
                // first poll in the listed order: the calls queue on the lock in this order
                for i in 0..n {
                    if let Poll::Ready(r) = futs[i].as_mut().poll(&mut cx) {
                        results[i] = Some(r);
                        early += 1;
                    }
                }
                drop(guard);
                for _round in 0..n + 2 {
                    for &i in &poll {
                        if results[i].is_none() {
                            if let Poll::Ready(r) = futs[i].as_mut().poll(&mut cx) {
                                results[i] = Some(r);
                            }
                        }
                    }
                    if results.iter().all(|r| r.is_some()) {
                        break;
                    }
                }
                (results, early)
            })
        };
        let (results, early) = match outcome {
            Ok(x) => x,
            Err(site) => {
                out.oracle_fail(&site, "overlapping update/announce calls panicked", input);
                // the lock guard may have been leaked by the unwinding: start from a fresh book
                return json!({"panic": site});
            }
        };
        let notified = self.book.take_notified();
        let (after, after_raw) = self.snapshot(out, &input);
        if results.iter().any(|r| r.is_none()) {
            out.oracle_fail("contended_stuck", "an update/announce call did not complete after the lock was released", input.clone());
            return json!({"class": "contended", "stuck": true, "book": Self::book_json(&after)});
        }
        let results: Vec<Result<(), String>> = results.into_iter().map(|r| r.unwrap()).collect();
        let classes: Vec<&str> = calls
            .iter()
            .zip(&results)
            .map(|(c, r)| match (c, r) {
                (Call::Announce { .. }, _) => "announce",
                (_, Ok(())) => "ok",
                (_, Err(e)) if e.contains("duplicate entry") => "dup",
                (_, Err(_)) => "badsig",
            })
            .collect();
        out.count(&format!("contended:k={n}"));
        if early > 0 {
            out.count("contended:completed_while_lock_held");
        }
        for c in &classes {
            out.count(&format!("contended_call:{c}"));
        }

        // ---------------- monitors: whatever the interleaving, the calls must look atomic ----------------
        let announced: Vec<usize> = calls.iter().filter_map(|c| if let Call::Announce { k, .. } = c { Some(*k) } else { None }).collect();
        let bmap: BTreeMap<usize, &(usize, AMsg, bool)> = before.iter().map(|e| (e.0, e)).collect();
        let amap: BTreeMap<usize, &(usize, AMsg, bool)> = after.iter().map(|e| (e.0, e)).collect();
        let ord = |e: &(usize, AMsg, bool)| (e.1 .1, e.1 .2, e.1 .3);
        for e in &after {
            if !e.2 {
                out.oracle_fail("stored_not_authentic", "the book holds an announcement whose signature does not verify (overlapping calls)", input.clone());
            }
        }
        for (k, b) in &bmap {
            match amap.get(k) {
                None => out.oracle_fail("entry_removed", "an entry disappeared from the book (overlapping calls)", input.clone()),
                Some(a) => {
                    if !announced.contains(k) && ord(a) < ord(b) {
                        out.oracle_fail("replaced_by_not_newer", "overlapping calls left an entry older than the one stored before", input.clone());
                    }
                }
            }
        }
        for (c, r) in calls.iter().zip(&results) {
            let Call::Update { vs, batch, data, .. } = c else { continue };
            if r.is_ok() {
                // the stored entry is at least as new as every member entry of every accepted batch: together with
                // "every new entry is a valid entry of an accepted batch" this is "stored = maximum of what was accepted"
                for a in batch {
                    if vs.contains(&a.k) && !announced.contains(&a.k) {
                        match amap.get(&a.k) {
                            Some(e) if ord(e) >= a.ord() => {}
                            _ => out.oracle_fail(
                                "replaced_by_not_newer",
                                "overlapping update() calls: the book ends older than a member entry of an accepted batch (an entry was replaced by a non-newer one)",
                                input.clone(),
                            ),
                        }
                    }
                }
                self.seen.extend(batch.iter().cloned());
            } else {
                for d in data {
                    if after_raw.values().any(|x| Arc::ptr_eq(x, d)) {
                        out.oracle_fail("rejected_batch_changed_book", "a rejected batch handled concurrently left an entry in the book", input.clone());
                    }
                }
            }
        }
        for (k, _) in &amap {
            let changed = match before_raw.get(k) {
                None => true,
                Some(b) => !(Arc::ptr_eq(b, &after_raw[k]) || **b == *after_raw[k]),
            };
            if !changed || announced.contains(k) {
                continue;
            }
            let mut found = false;
            for (c, r) in calls.iter().zip(&results) {
                let Call::Update { vs, batch, data, .. } = c else { continue };
                if let Some(i) = data.iter().position(|d| Arc::ptr_eq(d, &after_raw[k])) {
                    found = true;
                    if r.is_err() || !batch[i].valid() || !vs.contains(k) {
                        out.oracle_fail("forged_stored", "overlapping calls stored an entry that is forged / a non-member's / from a rejected batch", input.clone());
                    }
                }
            }
            if !found {
                out.oracle_fail("not_from_batch", "a new entry is not an entry of any of the overlapping batches", input.clone());
            }
        }
        json!({"class": "contended", "ok": true, "results": classes, "notified": notified, "book": Self::book_json(&after),
               "_early": early, "_errs": results.iter().map(|r| r.as_ref().err().map(|e| e.chars().take(40).collect::<String>())).collect::<Vec<_>>()})
    }

    fn exec_converge(&mut self, out: &mut Out) -> Value {
        let input = self.case_input();
        let (list, _) = self.snapshot(out, &input);
        let Some((sbook, sseen, svs, smixed)) = self.stash.clone() else {
            return json!({"class": "converge", "ok": true, "same_seen": false, "equal": false, "book": Self::book_json(&list)});
        };
        let same_seen = self.seen.iter().all(|a| sseen.contains(a)) && sseen.iter().all(|a| self.seen.contains(a));
        let equal = sbook == list;
        // hypothesis of the convergence statement, from ground truth
        let comparable = !smixed && !self.case_mixed && svs.is_some() && svs == self.case_vs;
        let mut unique = true;
        for a in &self.seen {
            for b in &self.seen {
                if a.valid() && b.valid() && a.k == b.k && a.ord() == b.ord() && a.m.0 != b.m.0 {
                    unique = false;
                }
            }
        }
        out.count(&format!("converge:same_seen={same_seen},unique={unique},equal={equal}"));
        if comparable && same_seen && unique && !equal {
            out.oracle_fail(
                "divergence",
                "two books that saw the same announcements (same committee, unique (version,timestamp) per validator) differ",
                json!({"op": "seq", "reset": true, "ops": self.case_ops, "_stashed_book": Self::book_json(&sbook)}),
            );
        }
        json!({"class": "converge", "ok": true, "same_seen": same_seen, "equal": equal, "book": Self::book_json(&list)})
    }
}

// ------------------------------------------------------------------------------------------------ generator

/// the generator's own picture of the book (only used to *aim* the cases, never to judge them)
#[derive(Default, Clone)]
struct Shadow(BTreeMap<usize, AAnn>);

impl Shadow {
    fn fresh(&self, a: &AAnn) -> bool {
        self.0.get(&a.k).map_or(true, |x| a.ord() > x.ord())
    }
    fn apply(&mut self, vs: &[usize], batch: &[AAnn]) -> bool {
        let mut c = self.0.clone();
        let mut done = vec![];
        for a in batch {
            if done.contains(&a.k) {
                return false;
            }
            done.push(a.k);
            if !vs.contains(&a.k) {
                continue;
            }
            if let Some(x) = c.get(&a.k) {
                if a.ord() <= x.ord() {
                    continue;
                }
            }
            if !a.valid() {
                return false;
            }
            c.insert(a.k, a.clone());
        }
        self.0 = c;
        true
    }
}

const VERSIONS: &[u64] = &[0, 1, 2, 3, 4, 5, 7, 1 << 32, (1 << 63) - 1, 1 << 63, U64MAX - 2, U64MAX - 1, U64MAX];
const TIMES: &[(i64, i32)] = &[
    (0, 0),
    (0, 1),
    (0, -1),
    (-1, 0),
    (-1, -999_999_999),
    (1, 0),
    (1, 999_999_999),
    (2, 0),
    (1_700_000_000, 0),
    (1_700_000_000, 1),
    (1_700_000_001, 0),
    (i64::MAX, 999_999_999),
    (i64::MAX, 0),
    (i64::MAX - 1, 999_999_999),
    (i64::MIN + 1, 0),
    (i64::MIN + 1, -5),
];

struct Gen {
    rng: StdRng,
    /// pool of honest announcements per key (pre-signed once: the executor caches signatures by content)
    pool: Vec<Vec<AAnn>>,
    next_addr: u64,
}

impl Gen {
    fn new(rng: StdRng) -> Self {
        let mut g = Self { rng, pool: vec![vec![]; NKEYS], next_addr: 1 };
        // ~33 honest announcements per key: small versions x few times (many ties), plus extremes
        for k in 0..NKEYS {
            for v in 0..5u64 {
                for t in [(1_700_000_000i64, 0i32), (1_700_000_000, 1), (1_700_000_001, 0), (5, 0)] {
                    let a = g.addr();
                    g.pool[k].push(AAnn::honest(k, (a, v, t.0, t.1)));
                }
            }
            for _ in 0..13 {
                let v = *VERSIONS.choose(&mut g.rng).unwrap();
                let t = *TIMES.choose(&mut g.rng).unwrap();
                let a = g.addr();
                g.pool[k].push(AAnn::honest(k, (a, v, t.0, t.1)));
            }
            // double-signed: same (version, timestamp), different address
            let a = g.addr();
            g.pool[k].push(AAnn::honest(k, (a, 2, 1_700_000_000, 1)));
        }
        g
    }
    fn addr(&mut self) -> u64 {
        self.next_addr += 1;
        self.next_addr
    }
    fn honest(&mut self, k: usize) -> AAnn {
        self.pool[k].choose(&mut self.rng).unwrap().clone()
    }
    /// an honest announcement of `k` that is fresh / not fresh w.r.t. the shadow, if the pool has one
    fn honest_rel(&mut self, sh: &Shadow, k: usize, fresh: bool) -> Option<AAnn> {
        let c: Vec<&AAnn> = self.pool[k].iter().filter(|a| sh.fresh(a) == fresh).collect();
        c.choose(&mut self.rng).map(|a| (*a).clone())
    }
    /// a forged variant of an honest announcement `h` (whose signature is reused where possible)
    fn forge(&mut self, h: &AAnn, want_fresh: Option<(&Shadow, bool)>) -> AAnn {
        let mut f = h.clone();
        match self.rng.gen_range(0..6) {
            // signed by another validator (over the very same message)
            0 => f.sb = (h.k + 1 + self.rng.gen_range(0..NKEYS - 1)) % NKEYS,
            // genuine signature of the validator, address edited
            1 => f.m.0 = h.m.0 + 1000,
            // genuine signature, version bumped (replay of an old signature as something newer)
            2 => f.m.1 = h.m.1.wrapping_add(1),
            // genuine signature, timestamp moved
            3 => f.m.2 = h.m.2.saturating_add(1),
            // somebody else's genuine announcement relabelled with this key
            4 => {
                let o = (h.k + 1) % NKEYS;
                let oh = self.honest(o);
                f = AAnn { k: h.k, m: oh.m, sb: o, sm: oh.m };
            }
            // genuine signature, version lowered / timestamp lowered
            _ => {
                if self.rng.gen_bool(0.5) {
                    f.m.1 = h.m.1.saturating_sub(1)
                } else {
                    f.m.3 = if h.m.2 > 0 { (h.m.3 - 1).max(0) } else { h.m.3 };
                    f.m.0 = h.m.0 + 2000;
                }
            }
        }
        if f.valid() {
            f.m.0 = h.m.0 + 3000;
        }
        if let Some((sh, fresh)) = want_fresh {
            if sh.fresh(&f) != fresh {
                // aim: take the version/timestamp from the stored entry
                if let Some(x) = sh.0.get(&f.k) {
                    f.m.1 = x.m.1;
                    f.m.2 = x.m.2;
                    f.m.3 = x.m.3;
                    if fresh {
                        if f.m.1 < U64MAX {
                            f.m.1 += 1
                        } else if f.m.2 < i64::MAX {
                            f.m.2 += 1
                        }
                    }
                    if f.valid() {
                        f.m.0 += 4000;
                    }
                }
            }
        }
        f
    }
    fn committee(&mut self) -> Vec<usize> {
        match self.rng.gen_range(0..10) {
            0..=5 => vec![0, 1, 2, 3, 4],
            6 => (0..NKEYS).collect(),
            7 => vec![2, 0],
            _ => {
                let mut v: Vec<usize> = (0..NKEYS).filter(|_| self.rng.gen_bool(0.6)).collect();
                if v.is_empty() {
                    v.push(self.rng.gen_range(0..NKEYS));
                }
                v.shuffle(&mut self.rng);
                v
            }
        }
    }
    fn distinct_keys(&mut self, n: usize) -> Vec<usize> {
        let mut ks: Vec<usize> = (0..NKEYS).collect();
        ks.shuffle(&mut self.rng);
        ks.truncate(n.min(NKEYS));
        ks
    }

    /// one batch of the given family, aimed with the shadow
    fn batch(&mut self, sh: &Shadow, vs: &[usize], family: usize) -> Vec<AAnn> {
        let n = self.rng.gen_range(1..=5);
        let ks = self.distinct_keys(n);
        let mut b: Vec<AAnn> = ks.iter().map(|&k| self.honest(k)).collect();
        match family {
            // honest batch, random freshness
            0 => {}
            // honest, all fresh where possible (keeps the book moving)
            1 => {
                b = ks.iter().map(|&k| self.honest_rel(sh, k, true).unwrap_or_else(|| self.honest(k))).collect();
            }
            // forged *fresh* member entry placed after valid fresh ones
            2 => {
                b = ks.iter().map(|&k| self.honest_rel(sh, k, true).unwrap_or_else(|| self.honest(k))).collect();
                let k = *vs.choose(&mut self.rng).unwrap();
                b.retain(|a| a.k != k);
                let h = self.honest(k);
                let f = self.forge(&h, Some((sh, true)));
                let pos = if self.rng.gen_bool(0.7) { b.len() } else { self.rng.gen_range(0..=b.len()) };
                b.insert(pos, f);
            }
            // forged *stale* entry (must be skipped without verification)
            3 => {
                let stored: Vec<usize> = sh.0.keys().cloned().collect();
                if let Some(&k) = stored.choose(&mut self.rng) {
                    b.retain(|a| a.k != k);
                    let h = sh.0[&k].clone();
                    let f = self.forge(&h, Some((sh, false)));
                    let pos = self.rng.gen_range(0..=b.len());
                    b.insert(pos, f);
                }
            }
            // duplicated key
            4 => {
                let i = self.rng.gen_range(0..b.len());
                let k = b[i].k;
                let second = match self.rng.gen_range(0..4) {
                    0 => b[i].clone(),
                    1 => self.honest(k),
                    2 => {
                        let h = self.honest(k);
                        self.forge(&h, None)
                    }
                    _ => self.honest_rel(sh, k, false).unwrap_or_else(|| self.honest(k)),
                };
                let pos = self.rng.gen_range(i + 1..=b.len());
                b.insert(pos, second);
                if self.rng.gen_bool(0.3) {
                    // and a forged fresh entry somewhere: which error comes first?
                    let k2 = *vs.choose(&mut self.rng).unwrap();
                    if !b.iter().any(|a| a.k == k2) {
                        let h = self.honest(k2);
                        let f = self.forge(&h, Some((sh, true)));
                        let pos = self.rng.gen_range(0..=b.len());
                        b.insert(pos, f);
                    }
                }
            }
            // ties: equal version, equal (version, timestamp), exact re-delivery
            5 => {
                let stored: Vec<usize> = sh.0.keys().cloned().collect();
                if let Some(&k) = stored.choose(&mut self.rng) {
                    b.retain(|a| a.k != k);
                    let x = sh.0[&k].clone();
                    let mut t = x.clone();
                    match self.rng.gen_range(0..5) {
                        0 => {}
                        1 => t = AAnn::honest(k, (x.m.0 + 500, x.m.1, x.m.2, x.m.3)),
                        2 => t = AAnn::honest(k, (x.m.0 + 501, x.m.1, x.m.2, if x.m.2 >= 0 && x.m.3 < 999_999_999 { x.m.3 + 1 } else { x.m.3 })),
                        3 => t = AAnn::honest(k, (x.m.0 + 502, x.m.1, x.m.2.saturating_sub(1), if x.m.2 == 1 || x.m.2 == 0 { 0 } else { x.m.3 })),
                        _ => t = AAnn::honest(k, (x.m.0 + 503, x.m.1.saturating_sub(1), i64::MAX, 999_999_999)),
                    }
                    b.push(t);
                }
            }
            // non-members: valid, forged, duplicated non-member
            6 => {
                let non: Vec<usize> = (0..NKEYS).filter(|k| !vs.contains(k)).collect();
                if let Some(&k) = non.choose(&mut self.rng) {
                    b.retain(|a| a.k != k);
                    let h = self.honest(k);
                    let e = if self.rng.gen_bool(0.5) { h.clone() } else { self.forge(&h, None) };
                    b.push(e);
                    if self.rng.gen_bool(0.25) {
                        b.push(h);
                    }
                }
            }
            // extreme versions / timestamps
            _ => {
                for a in b.iter_mut() {
                    let v = *VERSIONS.choose(&mut self.rng).unwrap();
                    let t = *TIMES.choose(&mut self.rng).unwrap();
                    *a = AAnn::honest(a.k, (a.m.0, v, t.0, t.1));
                }
            }
        }
        for a in b.iter_mut() {
            a.m = norm(a.m);
            a.sm = norm(a.sm);
        }
        b
    }

    fn update_op(vs: &[usize], batch: &[AAnn], reset: bool) -> Value {
        let mut o = json!({"op": "update", "vs": vs, "batch": batch.iter().map(|a| a.json()).collect::<Vec<_>>()});
        if reset {
            o["reset"] = json!(true);
        }
        o
    }

    /// a case of mixed batches (and sometimes own announcements, committee changes)
    fn case_mixed(&mut self, ops: &mut Vec<Value>) {
        let mut sh = Shadow::default();
        let mut vs = self.committee();
        let len = self.rng.gen_range(4..=18);
        let with_announce = self.rng.gen_bool(0.25);
        let change_committee = self.rng.gen_bool(0.15);
        for i in 0..len {
            if change_committee && self.rng.gen_bool(0.2) {
                vs = self.committee();
            }
            if with_announce && self.rng.gen_bool(0.25) {
                let k = self.rng.gen_range(0..NKEYS);
                let t = *TIMES.choose(&mut self.rng).unwrap();
                // half of the re-announcements keep the address this key announced before (the periodic refresh):
                // the pair (same address, clock not ahead of the stored timestamp) is where "newer" rests on the version alone
                let a = match sh.0.get(&k) {
                    Some(x) if self.rng.gen_bool(0.5) => x.m.0,
                    _ => self.addr(),
                };
                let mut o = json!({"op": "announce", "k": k, "a": a, "s": t.0, "n": t.1});
                if i == 0 {
                    o["reset"] = json!(true);
                }
                // shadow: version + 1 (wrapping), unconditional insert
                let v = sh.0.get(&k).map_or(0, |x| x.m.1.wrapping_add(1));
                sh.0.insert(k, AAnn::honest(k, (a, v, t.0, t.1)));
                ops.push(o);
                continue;
            }
            let family = match self.rng.gen_range(0..20) {
                0..=3 => 0,
                4..=8 => 1,
                9..=11 => 2,
                12..=13 => 3,
                14..=15 => 4,
                16..=17 => 5,
                18 => 6,
                _ => 7,
            };
            let b = self.batch(&sh, &vs, family);
            sh.apply(&vs, &b);
            ops.push(Self::update_op(&vs, &b, i == 0));
        }
    }

    /// periodic refresh: the node re-announces the SAME address while its clock stands still, steps back or advances;
    /// in between, a peer's batch carries the node's own latest announcement back
    fn case_reannounce(&mut self, ops: &mut Vec<Value>) {
        let k = self.rng.gen_range(0..5);
        let a = self.addr();
        let t0 = 1_700_000_600i64;
        let mut first = true;
        let mut v = 0u64;
        for (i, dt) in [0i64, 0, -30, 45, -600, 0].iter().enumerate() {
            let mut o = json!({"op": "announce", "k": k, "a": a, "s": t0 + dt, "n": 0});
            if first {
                o["reset"] = json!(true);
                first = false;
            }
            ops.push(o);
            if i == 2 {
                // the own announcement comes back from a peer (a duplicate: nothing may change)
                let own = AAnn::honest(k, (a, v, t0 + dt, 0));
                ops.push(Self::update_op(&[0, 1, 2, 3, 4], &[own], false));
            }
            v += 1;
        }
    }

    /// the restart scenario at the top of the version range: the node's own announcement with version
    /// u64::MAX - 1 / u64::MAX comes back from a peer, then the node announces again
    fn case_announce_top(&mut self, ops: &mut Vec<Value>, top: u64) {
        let k = self.rng.gen_range(0..5);
        let a = self.addr();
        let own = AAnn::honest(k, (a, top, 1_700_000_000, 0));
        ops.push(Self::update_op(&[0, 1, 2, 3, 4], &[own], true));
        let a2 = self.addr();
        ops.push(json!({"op": "announce", "k": k, "a": a2, "s": 1_700_000_005i64, "n": 0}));
        let a3 = self.addr();
        ops.push(json!({"op": "announce", "k": k, "a": a3, "s": 1_700_000_009i64, "n": 0}));
    }

    fn contended_op(calls: &[Value], poll: &[usize]) -> Value {
        json!({"op": "contended", "calls": calls, "poll": poll})
    }

    /// overlapping calls on one book, in two queue orders (two books: stash / converge)
    fn case_contended(&mut self, ops: &mut Vec<Value>) {
        let vs = vec![0usize, 1, 2, 3, 4];
        let t0 = 1_700_000_000i64;
        let x = self.rng.gen_range(0..5usize);
        let y = (x + 1 + self.rng.gen_range(0..4usize)) % 5;
        let base = *[0u64, 1, 5, 1 << 32, U64MAX - 4].choose(&mut self.rng).unwrap();
        // the ladder of X: strictly increasing, by version or by timestamp only
        let by_ts = self.rng.gen_bool(0.3);
        let mut ladder = vec![];
        for i in 0..5u64 {
            let a = self.addr();
            ladder.push(if by_ts { AAnn::honest(x, (a, base, t0 + i as i64, 0)) } else { AAnn::honest(x, (a, base + i, t0 - i as i64, 0)) });
        }
        let ya = self.addr();
        let y1 = AAnn::honest(y, (ya, 3, t0, 7));
        let ya2 = self.addr();
        let y2 = AAnn::honest(y, (ya2, 4, t0, 0));
        // setup: the book holds X@ladder[0] (and sometimes Y)
        let mut setup = vec![];
        let mut first = vec![ladder[0].clone()];
        if self.rng.gen_bool(0.5) {
            first.push(y1.clone());
        }
        let mut sh = Shadow::default();
        sh.apply(&vs, &first);
        setup.push(Self::update_op(&vs, &first, true));
        if self.rng.gen_bool(0.3) {
            let b = self.batch(&sh, &vs, 1);
            sh.apply(&vs, &b);
            setup.push(Self::update_op(&vs, &b, false));
        }
        let upd = |b: Vec<AAnn>| json!({"op": "update", "vs": vs, "batch": b.iter().map(|a| a.json()).collect::<Vec<_>>()});
        let variant = self.rng.gen_range(0..8);
        let mut calls: Vec<Value> = match variant {
            // same validator, two versions
            0 | 1 => vec![upd(vec![ladder[1].clone()]), upd(vec![ladder[2].clone(), y2.clone()])],
            // different validators
            2 => vec![upd(vec![ladder[1].clone()]), upd(vec![y2.clone()])],
            // a forged batch (valid fresh Y first, then forged fresh X) next to a valid one for X
            3 => {
                let f = self.forge(&ladder[3].clone(), None);
                vec![upd(vec![y2.clone(), f]), upd(vec![ladder[1].clone()])]
            }
            // three versions of the same validator
            4 => vec![upd(vec![ladder[1].clone()]), upd(vec![ladder[3].clone()]), upd(vec![ladder[2].clone(), y2.clone()])],
            // a duplicated-key batch, a valid one, and a stale re-delivery
            5 => vec![upd(vec![ladder[2].clone(), ladder[3].clone()]), upd(vec![ladder[1].clone()]), upd(vec![ladder[0].clone(), y2.clone()])],
            // own announcement racing with a batch that carries a higher version of the same key
            6 => {
                let a = self.addr();
                vec![json!({"op": "announce", "k": x, "a": a, "s": t0 + 50, "n": 0}), upd(vec![ladder[2].clone()])]
            }
            // random batches aimed at the setup state
            _ => {
                let k = self.rng.gen_range(2..=3);
                (0..k)
                    .map(|_| {
                        let fam = *[1usize, 1, 2, 3, 5].choose(&mut self.rng).unwrap();
                        let b = self.batch(&sh, &vs, fam);
                        upd(b)
                    })
                    .collect()
            }
        };
        let n = calls.len();
        for node in 0..2 {
            ops.extend(setup.iter().cloned());
            let mut poll: Vec<usize> = (0..n).collect();
            poll.shuffle(&mut self.rng);
            ops.push(Self::contended_op(&calls, &poll));
            ops.push(json!({"op": if node == 0 { "stash" } else { "converge" }}));
            // the other queue order
            if n == 2 {
                calls.reverse();
            } else {
                let before = calls.clone();
                while calls == before {
                    calls.shuffle(&mut self.rng);
                }
            }
        }
    }

    /// two nodes, same committee: node A gets the batches in one order / partition, node B in another
    fn case_twins(&mut self, ops: &mut Vec<Value>) {
        let vs = if self.rng.gen_bool(0.7) { vec![0, 1, 2, 3, 4] } else { self.committee() };
        let unique = self.rng.gen_bool(0.8);
        // the announcements both will see: a few per key
        let mut all: Vec<AAnn> = vec![];
        for k in 0..NKEYS {
            let n = self.rng.gen_range(0..=3);
            for _ in 0..n {
                let h = self.honest(k);
                if unique && all.iter().any(|x| x.k == h.k && x.ord() == h.ord() && x.m.0 != h.m.0) {
                    continue;
                }
                if !all.contains(&h) {
                    all.push(h);
                }
            }
        }
        if all.is_empty() {
            all.push(self.honest(0));
        }
        if !unique && self.rng.gen_bool(0.7) {
            // a validator that signed two addresses with the same (version, timestamp): arrival order decides
            let k = self.rng.gen_range(0..NKEYS);
            let x = self.honest(k);
            let a = self.addr();
            let twin = AAnn::honest(k, (a, x.m.1, x.m.2, x.m.3));
            // make the pair the newest of its key so that it is what the books end with
            all.retain(|y| y.k != k || y.ord() < x.ord());
            all.push(x);
            all.push(twin);
        }
        let noise = self.rng.gen_bool(0.4);
        for node in 0..2 {
            let mut order = all.clone();
            order.shuffle(&mut self.rng);
            // partition into batches with distinct keys
            let mut batches: Vec<Vec<AAnn>> = vec![];
            for a in order {
                let new = match batches.last() {
                    None => true,
                    Some(b) => b.iter().any(|x| x.k == a.k) || b.len() >= 4 || self.rng.gen_bool(0.4),
                };
                if new {
                    batches.push(vec![]);
                }
                batches.last_mut().unwrap().push(a);
            }
            let mut sh = Shadow::default();
            let mut first = true;
            for b in batches {
                if noise && self.rng.gen_bool(0.3) {
                    // a rejected batch in between (must not count as seen, must not change anything)
                    // (family 3: an accepted batch with a stale forged entry, seen by this node only)
                    let fam = *[2, 2, 4, 4, 3].choose(&mut self.rng).unwrap();
                    let nb = self.batch(&sh, &vs, fam);
                    sh.apply(&vs, &nb);
                    ops.push(Self::update_op(&vs, &nb, first));
                    first = false;
                }
                sh.apply(&vs, &b);
                ops.push(Self::update_op(&vs, &b, first));
                first = false;
            }
            ops.push(json!({"op": if node == 0 { "stash" } else { "converge" }}));
        }
    }
}

impl Prop for C18 {
    fn gen(&mut self, opts: &Opts) -> Vec<Value> {
        let mut g = Gen::new(opts.rng());
        let mut ops = vec![];
        // directed cases first
        g.case_announce_top(&mut ops, U64MAX - 1);
        g.case_announce_top(&mut ops, U64MAX);
        g.case_reannounce(&mut ops);
        for i in 0..opts.n {
            if i % 16 == 9 {
                g.case_reannounce(&mut ops);
            }
            match i % 8 {
                3 | 7 => g.case_twins(&mut ops),
                1 | 5 => g.case_contended(&mut ops),
                _ => g.case_mixed(&mut ops),
            }
        }
        ops
    }

    fn exec(&mut self, op: &Value, out: &mut Out) -> Value {
        if op["op"].as_str() == Some("seq") {
            let mut last = json!({"bad_op": true});
            let mut first = true;
            for o in op["ops"].as_array().cloned().unwrap_or_default() {
                let mut o = o;
                if first && op["reset"].as_bool() == Some(true) {
                    o["reset"] = json!(true);
                }
                first = false;
                last = self.exec_one(&o, out);
            }
            return last;
        }
        self.exec_one(op, out)
    }

    fn extra_stats(&self) -> Value {
        json!({"distinct_signatures_made": self.sigs.len(), "distinct_announcements_verified_by_monitor": self.verified.len()})
    }
}

fn main() {
    vharness::main_for(&mut C18::new());
}
