//! C12: connections are admitted only for authenticated, expected, unique peers.
//!
//! Three op families, all executed on the real code through the `verif` hooks of `zksync_consensus_network`:
//!  * `hs`      one call of `gossip::handshake::{inbound,outbound}` / `consensus::handshake::{inbound,outbound}` by an
//!              honest party (the victim) over a real Noise session on a loopback TCP connection; the remote end is
//!              scripted: an honest peer (the real opposite function), or an adversary that holds only the keys in
//!              `adv` and otherwise forges, sends malformed frames, reflects, replays a frame recorded on another
//!              session, or relays between two sessions (man in the middle), optionally rewriting fields;
//!  * `pool_*`  `PoolWatch` call sequences, plus concurrent batches on a multi-thread runtime;
//!  * `node_*`  a real `Network` (public `Network::new`): `run_inbound_stream`, gossip `run_outbound_stream`,
//!              consensus `maintain_connection`, disconnects; observation = the four pools.
//! Monitors (S) are evaluated on what the harness itself knows (who holds which secret key, which bytes went
//! where), never on the model's prediction.
use std::{
    future::Future as _,
    collections::{BTreeMap, BTreeSet, HashMap, HashSet},
    net::SocketAddr,
    sync::Arc,
    time::Duration,
};

use prost::Message as _;
use rand::{rngs::StdRng, seq::SliceRandom, Rng, SeedableRng};
use serde_json::{json, Value};
use tokio::io::{AsyncReadExt, AsyncWriteExt};
use vharness::{catch, Opts, Out, Prop};
use zksync_concurrency::{ctx, limiter, net, scope, sync};
use zksync_consensus_engine::testonly::TestEngine;
use zksync_consensus_network as network;
use zksync_consensus_network::{
    proto,
    verif::{handshake as hk, pool::Pool},
};
use zksync_consensus_roles::{node, validator};
use zksync_protobuf::ProtoFmt;

const N_KEYS: usize = 6;
const COMMITTEE: usize = 4;
const OP_TIMEOUT: Duration = Duration::from_secs(20);
/// label offset of a session id that belongs to no session
const OTHER: u64 = 1000;

#[derive(Clone, Copy, PartialEq, Eq, Debug)]
enum Net {
    Gossip,
    Consensus,
}

impl Net {
    fn name(self) -> &'static str {
        match self {
            Net::Gossip => "gossip",
            Net::Consensus => "consensus",
        }
    }
    fn endpoint(self) -> hk::Endpoint {
        match self {
            Net::Gossip => hk::Endpoint::GossipNet,
            Net::Consensus => hk::Endpoint::ConsensusNet,
        }
    }
    fn parse(v: &Value) -> Net {
        match v.as_str() {
            Some("gossip") => Net::Gossip,
            Some("consensus") => Net::Consensus,
            x => panic!("bad net {x:?}"),
        }
    }
}

#[derive(Clone, Copy, PartialEq, Eq, Debug)]
enum Dir {
    In,
    Out,
}

impl Dir {
    fn name(self) -> &'static str {
        match self {
            Dir::In => "inbound",
            Dir::Out => "outbound",
        }
    }
    fn parse(v: &Value) -> Dir {
        match v.as_str() {
            Some("in") => Dir::In,
            Some("out") => Dir::Out,
            x => panic!("bad dir {x:?}"),
        }
    }
    fn opposite(self) -> Dir {
        match self {
            Dir::In => Dir::Out,
            Dir::Out => Dir::In,
        }
    }
}

/// All key material (fixed, independent of the run's seed) and the listeners shared by every op.
struct World {
    nkeys: Vec<node::SecretKey>,
    vkeys: Vec<validator::SecretKey>,
    genesis: Vec<validator::GenesisHash>,
    setup: validator::testonly::Setup,
}

impl World {
    fn new() -> Self {
        let mut rng = StdRng::seed_from_u64(0xC12);
        let setup = validator::testonly::Setup::new(&mut rng, COMMITTEE);
        let mut vkeys: Vec<validator::SecretKey> = setup.validator_keys.clone();
        while vkeys.len() < N_KEYS {
            vkeys.push(rng.gen());
        }
        let nkeys = (0..N_KEYS).map(|_| rng.gen()).collect();
        let genesis = vec![setup.genesis_hash(), rng.gen(), rng.gen()];
        Self { nkeys, vkeys, genesis, setup }
    }
    fn genesis_idx(&self, g: &validator::GenesisHash) -> i64 {
        self.genesis.iter().position(|x| x == g).map(|i| i as i64).unwrap_or(-1)
    }
}

/// the eight points of small order on Curve25519 (compressed Edwards form); [0] is the neutral element
const SMALL_ORDER: [&str; 8] = [
    "0100000000000000000000000000000000000000000000000000000000000000",
    "ecffffffffffffffffffffffffffffffffffffffffffffffffffffffffffff7f",
    "0000000000000000000000000000000000000000000000000000000000000000",
    "0000000000000000000000000000000000000000000000000000000000000080",
    "26e8958fc2b227b045c3f489f2ef98f0d5dfac05d3c63339b13802886d53fc05",
    "26e8958fc2b227b045c3f489f2ef98f0d5dfac05d3c63339b13802886d53fc85",
    "c7176a703d4dd84fba3c0b760d10670f2a2053fa2c39ccc64ec7fd7792ac037a",
    "c7176a703d4dd84fba3c0b760d10670f2a2053fa2c39ccc64ec7fd7792ac03fa",
]; 

/// A decoded handshake frame of either network.
#[derive(Clone)]
enum Typed {
    G { s: node::Signed<node::SessionId>, genesis: validator::GenesisHash },
    C { s: validator::Signed<node::SessionId>, genesis: validator::GenesisHash },
}

fn parse_frame(net: Net, bytes: &[u8]) -> Option<Typed> {
    match net {
        Net::Gossip => {
            let p = proto::gossip::Handshake::decode(bytes).ok()?;
            Some(Typed::G {
                s: zksync_protobuf::read_required(&p.session_id).ok()?,
                genesis: zksync_protobuf::read_required(&p.genesis).ok()?,
            })
        }
        Net::Consensus => {
            let p = proto::consensus::Handshake::decode(bytes).ok()?;
            Some(Typed::C {
                s: zksync_protobuf::read_required(&p.session_id).ok()?,
                genesis: zksync_protobuf::read_required(&p.genesis).ok()?,
            })
        }
    }
}

fn encode_frame(t: &Typed) -> Vec<u8> {
    match t {
        Typed::G { s, genesis } => proto::gossip::Handshake {
            session_id: Some(s.build()),
            genesis: Some(genesis.build()),
            is_static: Some(false),
            build_version: None,
        }
        .encode_to_vec(),
        Typed::C { s, genesis } => proto::consensus::Handshake {
            session_id: Some(s.build()),
            genesis: Some(genesis.build()),
        }
        .encode_to_vec(),
    }
}

/// Real session ids seen in one op and their abstract labels.
#[derive(Default, Clone)]
struct Sids(Vec<(Vec<u8>, u64)>);

impl Sids {
    fn add(&mut self, id: Vec<u8>, label: u64) {
        self.0.push((id, label));
    }
    fn label(&self, id: &[u8]) -> i64 {
        self.0.iter().find(|(x, _)| x == id).map(|(_, l)| *l as i64).unwrap_or(-1)
    }
    fn bytes(&self, label: u64) -> Vec<u8> {
        self.0.iter().find(|(_, l)| *l == label).map(|(x, _)| x.clone()).expect("sid label")
    }
}

/// Abstract view of a frame: key index, session label, symbolic signature (signer, signed label), genesis index.
#[derive(Clone, Debug, PartialEq)]
struct Abs {
    key: i64,
    msg: i64,
    sig: Option<(i64, i64)>,
    genesis: i64,
}

impl Abs {
    fn json(&self) -> Value {
        json!({"key": self.key, "msg": self.msg,
               "sig": self.sig.map(|(a, b)| json!([a, b])).unwrap_or(Value::Null), "genesis": self.genesis})
    }
}

impl World {
    /// Symbolic reading of a real signature: the (key, session id) pair among the known ones that it verifies for.
    fn abstract_frame(&self, t: &Typed, sids: &Sids) -> Abs {
        match t {
            Typed::G { s, genesis } => {
                let key = self.nkeys.iter().position(|k| k.public() == s.key).map(|i| i as i64).unwrap_or(-1);
                let msg = sids.label(&s.msg.0);
                let mut cands: Vec<(usize, &(Vec<u8>, u64))> = vec![];
                for (i, _) in self.nkeys.iter().enumerate() {
                    for e in &sids.0 {
                        cands.push((i, e));
                    }
                }
                // the claimed pair first (the common case)
                cands.sort_by_key(|(i, e)| !((*i as i64) == key && (e.1 as i64) == msg));
                let sig = cands.into_iter().find_map(|(i, e)| {
                    let c = node::Signed { msg: node::SessionId(e.0.clone()), key: self.nkeys[i].public(), sig: s.sig.clone() };
                    c.verify().ok().map(|_| (i as i64, e.1 as i64))
                });
                Abs { key, msg, sig, genesis: self.genesis_idx(genesis) }
            }
            Typed::C { s, genesis } => {
                let key = self.vkeys.iter().position(|k| k.public() == s.key).map(|i| i as i64).unwrap_or(-1);
                let msg = sids.label(&s.msg.0);
                let mut cands: Vec<(usize, &(Vec<u8>, u64))> = vec![];
                for (i, _) in self.vkeys.iter().enumerate() {
                    for e in &sids.0 {
                        cands.push((i, e));
                    }
                }
                cands.sort_by_key(|(i, e)| !((*i as i64) == key && (e.1 as i64) == msg));
                let sig = cands.into_iter().find_map(|(i, e)| {
                    let c = validator::Signed { msg: node::SessionId(e.0.clone()), key: self.vkeys[i].public(), sig: s.sig.clone() };
                    c.verify().ok().map(|_| (i as i64, e.1 as i64))
                });
                Abs { key, msg, sig, genesis: self.genesis_idx(genesis) }
            }
        }
    }

    /// A frame the adversary makes itself: claimed key `key`, carried id `msg`, signature by `signer` over `signed`.
    fn forge(&self, net: Net, key: usize, msg: &[u8], signer: usize, signed: &[u8], genesis: usize) -> Vec<u8> {
        let genesis = self.genesis[genesis];
        let t = match net {
            Net::Gossip => {
                let sig = self.nkeys[signer].sign_msg(node::SessionId(signed.to_vec())).sig;
                Typed::G { s: node::Signed { msg: node::SessionId(msg.to_vec()), key: self.nkeys[key].public(), sig }, genesis }
            }
            Net::Consensus => {
                let sig = self.vkeys[signer].sign_msg(node::SessionId(signed.to_vec())).sig;
                Typed::C { s: validator::Signed { msg: node::SessionId(msg.to_vec()), key: self.vkeys[key].public(), sig }, genesis }
            }
        };
        encode_frame(&t)
    }

    /// What the adversary does to a frame in transit towards a receiver whose session id is `recv_sid`.
    fn tweak(&self, net: Net, tw: &Value, bytes: &[u8], recv_sid: &[u8], adv: &BTreeSet<usize>) -> Vec<u8> {
        let kind = tw.get("t").and_then(|x| x.as_str()).unwrap_or("none");
        if kind == "none" {
            return bytes.to_vec();
        }
        let Some(mut t) = parse_frame(net, bytes) else { return bytes.to_vec() };
        match (&mut t, kind) {
            (Typed::G { s, .. }, "msg_this") => s.msg = node::SessionId(recv_sid.to_vec()),
            (Typed::C { s, .. }, "msg_this") => s.msg = node::SessionId(recv_sid.to_vec()),
            (Typed::G { s, .. }, "key") => s.key = self.nkeys[tw["k"].as_u64().unwrap() as usize].public(),
            (Typed::C { s, .. }, "key") => s.key = self.vkeys[tw["k"].as_u64().unwrap() as usize].public(),
            (Typed::G { genesis, .. }, "genesis") => *genesis = self.genesis[tw["g"].as_u64().unwrap() as usize],
            (Typed::C { genesis, .. }, "genesis") => *genesis = self.genesis[tw["g"].as_u64().unwrap() as usize],
            (Typed::G { s, .. }, "resign") => {
                let a = tw["a"].as_u64().unwrap() as usize;
                assert!(adv.contains(&a), "generator bug: the adversary signs only with keys it holds");
                *s = self.nkeys[a].sign_msg(node::SessionId(recv_sid.to_vec()));
            }
            (Typed::C { s, .. }, "resign") => {
                let a = tw["a"].as_u64().unwrap() as usize;
                assert!(adv.contains(&a), "generator bug: the adversary signs only with keys it holds");
                *s = self.vkeys[a].sign_msg(node::SessionId(recv_sid.to_vec()));
            }
            (_, k) => panic!("bad tweak {k}"),
        }
        encode_frame(&t)
    }

    /// Frames that `recv_proto` cannot turn into a `Handshake`.
    fn malformed(&self, net: Net, how: &str, sid: &[u8]) -> Malformed {
        let valid = parse_frame(net, &self.forge(net, 4, sid, 4, sid, 0)).unwrap();
        match how {
            "eof" => Malformed::Eof,
            "empty" => Malformed::Frame(vec![]),
            "oversize" => Malformed::Raw((10 * 1024u32 + 1).to_le_bytes().to_vec()),
            "truncated" => {
                let mut v = 100u32.to_le_bytes().to_vec();
                v.extend_from_slice(&[7u8; 10]);
                Malformed::Raw(v)
            }
            "garbage" => Malformed::Frame((0..57u8).map(|i| i.wrapping_mul(37) ^ 0xA5).collect()),
            "no_session" => Malformed::Frame(match &valid {
                Typed::G { genesis, .. } => proto::gossip::Handshake { session_id: None, genesis: Some(genesis.build()), is_static: Some(false), build_version: None }.encode_to_vec(),
                Typed::C { genesis, .. } => proto::consensus::Handshake { session_id: None, genesis: Some(genesis.build()) }.encode_to_vec(),
            }),
            "no_genesis" => Malformed::Frame(match &valid {
                Typed::G { s, .. } => proto::gossip::Handshake { session_id: Some(s.build()), genesis: None, is_static: Some(false), build_version: None }.encode_to_vec(),
                Typed::C { s, .. } => proto::consensus::Handshake { session_id: Some(s.build()), genesis: None }.encode_to_vec(),
            }),
            // gossip: `is_static` is required / `build_version` must be SemVer; consensus: a signed validator message
            // of another variant in place of the session id
            "variant" => Malformed::Frame(match &valid {
                Typed::G { s, genesis } => proto::gossip::Handshake { session_id: Some(s.build()), genesis: Some(genesis.build()), is_static: None, build_version: None }.encode_to_vec(),
                Typed::C { genesis, .. } => {
                    let na = validator::NetAddress { addr: "127.0.0.1:1".parse().unwrap(), version: 0, timestamp: zksync_concurrency::time::UNIX_EPOCH };
                    let s = self.vkeys[4].sign_msg(na);
                    proto::consensus::Handshake { session_id: Some(s.build()), genesis: Some(genesis.build()) }.encode_to_vec()
                }
            }),
            "version" => Malformed::Frame(match &valid {
                Typed::G { s, genesis } => proto::gossip::Handshake { session_id: Some(s.build()), genesis: Some(genesis.build()), is_static: Some(true), build_version: Some("not-semver".into()) }.encode_to_vec(),
                Typed::C { s, .. } => proto::consensus::Handshake { session_id: Some(s.build()), genesis: None }.encode_to_vec(),
            }),
            "bad_sig" => Malformed::Frame(match &valid {
                Typed::G { s, genesis } => {
                    let mut p = s.build();
                    if let Some(x) = p.sig.as_mut() { x.ed25519 = Some(vec![1, 2, 3]); }
                    proto::gossip::Handshake { session_id: Some(p), genesis: Some(genesis.build()), is_static: Some(false), build_version: None }.encode_to_vec()
                }
                Typed::C { s, genesis } => {
                    let mut p = s.build();
                    if let Some(x) = p.sig.as_mut() { x.bn254 = Some(vec![1, 2, 3]); }
                    proto::consensus::Handshake { session_id: Some(p), genesis: Some(genesis.build()) }.encode_to_vec()
                }
            }),
            "bad_key" => Malformed::Frame(match &valid {
                Typed::G { s, genesis } => {
                    let mut p = s.build();
                    if let Some(x) = p.key.as_mut() { x.ed25519 = Some(vec![9; 5]); }
                    proto::gossip::Handshake { session_id: Some(p), genesis: Some(genesis.build()), is_static: Some(false), build_version: None }.encode_to_vec()
                }
                Typed::C { s, genesis } => {
                    let mut p = s.build();
                    if let Some(x) = p.key.as_mut() { x.bn254 = Some(vec![9; 5]); }
                    proto::consensus::Handshake { session_id: Some(p), genesis: Some(genesis.build()) }.encode_to_vec()
                }
            }),
            // a peer that holds NO secret key: a small-order Ed25519 point as public key with the signature (R, S = 0) for
            // R = the identity resp. the key itself, over the RIGHT session id (such signatures verify for every message
            // under a verification that does not reject small-order keys); consensus (BLS): the point at infinity as key
            // and as signature
            x if x.starts_with("weak_key_") => {
                let i: usize = x["weak_key_".len()..].parse().expect("index");
                Malformed::Frame(match &valid {
                    Typed::G { s, genesis } => {
                        let key = hex::decode(SMALL_ORDER[i % SMALL_ORDER.len()]).unwrap();
                        let r = if i >= SMALL_ORDER.len() { key.clone() } else { hex::decode(SMALL_ORDER[0]).unwrap() };
                        let mut sig = r;
                        sig.extend_from_slice(&[0u8; 32]);
                        let mut p = s.build();
                        if let Some(x) = p.key.as_mut() { x.ed25519 = Some(key); }
                        if let Some(x) = p.sig.as_mut() { x.ed25519 = Some(sig); }
                        proto::gossip::Handshake { session_id: Some(p), genesis: Some(genesis.build()), is_static: Some(false), build_version: None }.encode_to_vec()
                    }
                    Typed::C { s, genesis } => {
                        let mut p = s.build();
                        let klen = p.key.as_ref().and_then(|k| k.bn254.as_ref()).map(|b| b.len()).unwrap_or(96);
                        let slen = p.sig.as_ref().and_then(|k| k.bn254.as_ref()).map(|b| b.len()).unwrap_or(48);
                        let inf = |n: usize| { let mut v = vec![0u8; n]; v[0] = 0xc0; v };
                        if let Some(x) = p.key.as_mut() { x.bn254 = Some(inf(klen)); }
                        if let Some(x) = p.sig.as_mut() { x.bn254 = Some(inf(slen)); }
                        proto::consensus::Handshake { session_id: Some(p), genesis: Some(genesis.build()) }.encode_to_vec()
                    }
                })
            }
            x => panic!("bad malformed kind {x}"),
        }
    }
}

enum Malformed {
    /// close the connection without sending anything
    Eof,
    /// a length-prefixed frame with this payload
    Frame(Vec<u8>),
    /// these raw bytes (inside the encrypted stream), then close
    Raw(Vec<u8>),
}

async fn send_frame(s: &mut hk::Stream, bytes: &[u8]) -> std::io::Result<()> {
    s.write_all(&(bytes.len() as u32).to_le_bytes()).await?;
    s.write_all(bytes).await?;
    s.flush().await
}

async fn send_raw(s: &mut hk::Stream, bytes: &[u8]) -> std::io::Result<()> {
    s.write_all(bytes).await?;
    s.flush().await
}

/// `None`: EOF / error / absurd length.
async fn recv_frame(s: &mut hk::Stream) -> Option<Vec<u8>> {
    let mut len = [0u8; 4];
    s.read_exact(&mut len).await.ok()?;
    let n = u32::from_le_bytes(len) as usize;
    if n > (1 << 20) {
        return None;
    }
    let mut v = vec![0u8; n];
    s.read_exact(&mut v).await.ok()?;
    Some(v)
}

// ------------------------------------------------------------------------------------------------ sessions

struct Listener {
    addr: SocketAddr,
    l: net::tcp::Listener,
}

impl Listener {
    fn new() -> Self {
        let a = net::tcp::testonly::reserve_listener();
        Self { addr: *a, l: a.bind(false).expect("bind") }
    }
}

/// One Noise session over a loopback TCP connection, through the real preface. Returns (dialling end, accepting end).
async fn pipe(ctx: &ctx::Ctx, l: &mut Listener, ep: hk::Endpoint) -> anyhow::Result<(hk::Stream, hk::Stream)> {
    let (c, s) = tokio::join!(hk::Stream::connect(ctx, l.addr, ep), hk::Stream::accept(ctx, &mut l.l));
    let c = c.map_err(|e| anyhow::anyhow!("connect: {e:?}"))?;
    let (s, e) = s.map_err(|e| anyhow::anyhow!("accept: {e:?}"))?;
    anyhow::ensure!(e == ep, "endpoint");
    Ok((c, s))
}

fn err_name(e: hk::HsError) -> &'static str {
    match e {
        hk::HsError::Genesis => "genesis",
        hk::HsError::Session => "session",
        hk::HsError::Peer => "peer",
        hk::HsError::Signature => "signature",
        hk::HsError::Stream => "stream",
    }
}

fn gossip_cfg(w: &World, me: usize) -> network::Config {
    network::Config {
        build_version: None,
        server_addr: net::tcp::ListenerAddr::new("127.0.0.1:1".parse().unwrap()),
        public_addr: net::Host("127.0.0.1:1".into()),
        gossip: network::GossipConfig {
            key: w.nkeys[me].clone(),
            dynamic_inbound_limit: 0,
            static_inbound: HashSet::new(),
            static_outbound: HashMap::new(),
        },
        validator_key: None,
        max_block_size: 1 << 20,
        max_tx_size: 1 << 20,
        ping_timeout: None,
        tcp_accept_rate: limiter::Rate::INF,
        rpc: network::RpcConfig::default(),
        max_block_queue_size: 10,
    }
}

/// The parameters of one honest execution of a handshake function.
#[derive(Clone, Copy, Debug)]
struct Party {
    net: Net,
    dir: Dir,
    me: usize,
    genesis: usize,
    peer: usize,
}

/// `Ok(key index the connection is attributed to)` / `Err((class, text))`.
type Verdict = Result<i64, (String, String)>;

/// Calls the real handshake function.
async fn honest_call(w: &World, ctx: &ctx::Ctx, p: Party, stream: &mut hk::Stream) -> Verdict {
    let g = w.genesis[p.genesis];
    let r: Result<i64, (hk::HsError, String)> = match (p.net, p.dir) {
        (Net::Gossip, Dir::Out) => hk::gossip_outbound(ctx, &gossip_cfg(w, p.me), g, stream, &w.nkeys[p.peer].public())
            .await
            .map(|c| w.nkeys.iter().position(|k| k.public() == c.key).map(|i| i as i64).unwrap_or(-1)),
        (Net::Gossip, Dir::In) => hk::gossip_inbound(ctx, &gossip_cfg(w, p.me), g, stream)
            .await
            .map(|c| w.nkeys.iter().position(|k| k.public() == c.key).map(|i| i as i64).unwrap_or(-1)),
        // returns Ok(()): the caller attributes the connection to the dialled peer
        (Net::Consensus, Dir::Out) => hk::consensus_outbound(ctx, &w.vkeys[p.me], g, stream, &w.vkeys[p.peer].public())
            .await
            .map(|()| p.peer as i64),
        (Net::Consensus, Dir::In) => hk::consensus_inbound(ctx, &w.vkeys[p.me], g, stream)
            .await
            .map(|k| w.vkeys.iter().position(|x| x.public() == k).map(|i| i as i64).unwrap_or(-1)),
    };
    r.map_err(|(c, s)| (err_name(c).to_string(), s))
}

fn verdict_json(v: &Verdict) -> Value {
    match v {
        Ok(k) => json!({"ok": true, "key": k}),
        Err((c, s)) => json!({"ok": false, "err": c, "_err": s}),
    }
}

/// What the scripted remote end did and saw.
struct Played {
    /// frames read from the victim, in order (`None`: not observable — the remote was the real opposite function)
    sent: Option<Vec<Vec<u8>>>,
    /// the frame written to the victim (adversarial scripts)
    delivered: Option<Vec<u8>>,
    /// verdict of the second honest party (honest / relay scripts)
    other: Option<Verdict>,
    /// direction of that second party
    other_dir: Option<Dir>,
    /// secret keys held by whoever terminates the victim's session
    holds: BTreeSet<usize>,
    /// the remote end of the victim's session, if still open
    stream: Option<hk::Stream>,
}

fn adv_set(op: &Value) -> BTreeSet<usize> {
    op["adv"].as_array().map(|a| a.iter().map(|x| x.as_u64().unwrap() as usize).collect()).unwrap_or_default()
}

/// Plays the remote script on `rs`, the remote end of the victim's session (label `sid`).
#[allow(clippy::too_many_arguments)]
thread_local! {
    /// set by `node_conn` for an outbound attempt towards a peer that is not connected yet: (node, consensus?, key index).
    /// While the remote end has the node's handshake frame in hand and has not answered, the peer must not be registered.
    static OUT_PROBE: std::cell::RefCell<Option<(Arc<hk::Node>, bool, usize)>> = const { std::cell::RefCell::new(None) };
}

async fn play_remote(
    w: &'static World,
    ctx: &'static ctx::Ctx,
    l: &mut Listener,
    v: Party,
    sid: u64,
    remote: &Value,
    adv: &BTreeSet<usize>,
    mut rs: hk::Stream,
    sids: &mut Sids,
    fails: &mut Vec<(String, String)>,
) -> anyhow::Result<Played> {
    let my_sid = sids.bytes(sid);
    let kind = remote["kind"].as_str().unwrap_or("?").to_string();
    let u = |k: &str| remote[k].as_u64().unwrap_or_else(|| panic!("remote.{k}")) as usize;
    let mut pl = Played { sent: Some(vec![]), delivered: None, other: None, other_dir: None, holds: adv.clone(), stream: None };
    match kind.as_str() {
        "honest" => {
            let p = Party { net: v.net, dir: v.dir.opposite(), me: u("me"), genesis: u("genesis"), peer: u("peer") };
            let r = honest_call(w, ctx, p, &mut rs).await;
            pl.sent = None;
            pl.other = Some(r);
            pl.other_dir = Some(p.dir);
            pl.holds = [p.me].into_iter().collect();
            pl.stream = Some(rs);
        }
        "forge" | "reflect" | "replay" | "malformed" => {
            // an outbound victim speaks first
            let mut from_victim: Option<Vec<u8>> = None;
            if v.dir == Dir::Out {
                from_victim = recv_frame(&mut rs).await;
                if let Some(f) = &from_victim {
                    pl.sent.as_mut().unwrap().push(f.clone());
                }
                // the node has dialled, sent its frame and is waiting for the answer: nothing is authenticated yet, so the
                // dialled identity must not appear in the outbound pool (debug page, metrics, wait_for_connections read it)
                if let Some((node, consensus, key)) = OUT_PROBE.with(|p| p.borrow().clone()) {
                    tokio::time::sleep(Duration::from_millis(20)).await;
                    let present = if consensus {
                        node.consensus_outbound().iter().any(|(k, _)| *k == w.vkeys[key].public())
                    } else {
                        node.gossip_outbound().iter().any(|(k, _)| *k == w.nkeys[key].public())
                    };
                    if present {
                        fails.push((
                            format!("node/registered-before-authentication/{}/outbound", if consensus { "consensus" } else { "gossip" }),
                            format!("validator / node {key} is listed in the outbound pool while the remote end has not answered the handshake yet"),
                        ));
                    }
                }
            }
            let frame: Option<Vec<u8>> = match kind.as_str() {
                "forge" => {
                    let signer = u("signer");
                    assert!(adv.contains(&signer), "generator bug: the adversary signs only with keys it holds");
                    let other: Vec<u8> = (0..32u8).map(|i| i ^ 0x5A).collect();
                    sids.add(other.clone(), sid + OTHER);
                    let pick = |s: &str| if remote[s].as_str() == Some("this") { my_sid.clone() } else { other.clone() };
                    Some(w.forge(v.net, u("key"), &pick("msg"), signer, &pick("signed"), u("genesis")))
                }
                "reflect" => {
                    anyhow::ensure!(v.dir == Dir::Out, "reflect needs an outbound victim");
                    from_victim.as_ref().map(|f| w.tweak(v.net, &remote["tweak"], f, &my_sid, adv))
                }
                "replay" => {
                    // record a frame of honest party `me` on a second session (label sid+1)
                    let rdir = Dir::parse(&remote["rdir"]);
                    let p = Party { net: v.net, dir: rdir, me: u("me"), genesis: u("genesis"), peer: *adv.iter().next().unwrap_or(&0) };
                    let (c, s) = pipe(ctx, l, v.net.endpoint()).await?;
                    sids.add(c.id(), sid + 1);
                    if c.id() != s.id() {
                        fails.push(("noise/session-id-differs-at-the-two-ends".into(), "the two ends of one Noise session report different ids".into()));
                    }
                    let (mut honest_end, mut adv_end) = if rdir == Dir::Out { (c, s) } else { (s, c) };
                    let sid2 = adv_end.id();
                    let h = tokio::spawn(async move { honest_call(w, ctx, p, &mut honest_end).await });
                    let rec = if rdir == Dir::Out {
                        recv_frame(&mut adv_end).await
                    } else {
                        // a legitimate handshake under a key the adversary holds makes the inbound party answer
                        let a = *adv.iter().next().expect("adv key");
                        send_frame(&mut adv_end, &w.forge(v.net, a, &sid2, a, &sid2, p.genesis)).await.ok();
                        recv_frame(&mut adv_end).await
                    };
                    drop(adv_end);
                    let _ = h.await;
                    let rec = rec.ok_or_else(|| anyhow::anyhow!("replay: nothing recorded"))?;
                    Some(w.tweak(v.net, &remote["tweak"], &rec, &my_sid, adv))
                }
                _ => None,
            };
            if kind == "malformed" {
                match w.malformed(v.net, remote["how"].as_str().unwrap_or("?"), &my_sid) {
                    Malformed::Eof => {}
                    Malformed::Frame(f) => { send_frame(&mut rs, &f).await.ok(); }
                    Malformed::Raw(b) => { send_raw(&mut rs, &b).await.ok(); }
                }
                if remote["how"].as_str() == Some("eof") || remote["how"].as_str() == Some("truncated") {
                    // close: the victim sees EOF
                    drop(rs);
                    return Ok(pl);
                }
            } else if let Some(f) = &frame {
                send_frame(&mut rs, f).await.ok();
                pl.delivered = Some(f.clone());
            } else {
                drop(rs);
                return Ok(pl);
            }
            if v.dir == Dir::In {
                if let Some(f) = recv_frame(&mut rs).await {
                    pl.sent.as_mut().unwrap().push(f);
                    pl.stream = Some(rs);
                }
            } else {
                pl.stream = Some(rs);
            }
        }
        "relay" => {
            // second session (label sid+1) with an honest party of the opposite direction
            let p = Party { net: v.net, dir: v.dir.opposite(), me: u("me"), genesis: u("genesis"), peer: u("peer") };
            let (c, s) = pipe(ctx, l, v.net.endpoint()).await?;
            sids.add(c.id(), sid + 1);
            if c.id() != s.id() {
                fails.push(("noise/session-id-differs-at-the-two-ends".into(), "the two ends of one Noise session report different ids".into()));
            }
            let (mut honest_end, mut adv_end) = if p.dir == Dir::Out { (c, s) } else { (s, c) };
            let sid2 = adv_end.id();
            let h = tokio::spawn(async move {
                let r = honest_call(w, ctx, p, &mut honest_end).await;
                drop(honest_end);
                r
            });
            let mut keep_victim_side = true;
            if v.dir == Dir::Out {
                // victim -> other -> victim
                match recv_frame(&mut rs).await {
                    Some(f) => {
                        pl.sent.as_mut().unwrap().push(f.clone());
                        send_frame(&mut adv_end, &w.tweak(v.net, &remote["to_other"], &f, &sid2, adv)).await.ok();
                        match recv_frame(&mut adv_end).await {
                            Some(r) => {
                                let d = w.tweak(v.net, &remote["to_victim"], &r, &my_sid, adv);
                                send_frame(&mut rs, &d).await.ok();
                                pl.delivered = Some(d);
                            }
                            None => keep_victim_side = false,
                        }
                    }
                    None => keep_victim_side = false,
                }
            } else {
                // other -> victim -> other
                match recv_frame(&mut adv_end).await {
                    Some(f) => {
                        let d = w.tweak(v.net, &remote["to_victim"], &f, &my_sid, adv);
                        send_frame(&mut rs, &d).await.ok();
                        pl.delivered = Some(d);
                        match recv_frame(&mut rs).await {
                            Some(r) => {
                                pl.sent.as_mut().unwrap().push(r.clone());
                                send_frame(&mut adv_end, &w.tweak(v.net, &remote["to_other"], &r, &sid2, adv)).await.ok();
                            }
                            None => keep_victim_side = false,
                        }
                    }
                    None => keep_victim_side = false,
                }
            }
            if !keep_victim_side {
                drop(rs);
            } else {
                pl.stream = Some(rs);
            }
            // the other party either got its answer or sees EOF when the adversary's end is dropped
            let other = if pl.stream.is_some() && v.dir == Dir::In {
                let r = h.await?;
                drop(adv_end);
                r
            } else {
                drop(adv_end);
                h.await?
            };
            pl.other = Some(other);
            pl.other_dir = Some(p.dir);
        }
        x => anyhow::bail!("bad remote kind {x}"),
    }
    Ok(pl)
}

// ------------------------------------------------------------------------------------------------ the property

struct PoolState {
    pool: Arc<Pool<u64, u64>>,
    allowed: BTreeSet<u64>,
    limit: u64,
}

struct LiveConn {
    net: Net,
    dir: Dir,
    task: Job,
    /// the remote end; dropping it ends the connection
    stream: Option<hk::Stream>,
    /// the TCP address the node's statistics record for this connection
    addr: SocketAddr,
    /// `maintain_connection` never returns by itself
    abort_after_close: bool,
}

/// One admission path of the node running as a task. The crate's scopes must not be dropped half-way (they abort
/// the process), so a task is never aborted: it runs inside a `scope` whose main task waits for `stop`; when that
/// fires the scope cancels the context of the admission path, which then returns by itself.
struct Job {
    handle: tokio::task::JoinHandle<Option<anyhow::Result<()>>>,
    stop: Option<tokio::sync::oneshot::Sender<()>>,
}

enum JobKind {
    GossipIn(hk::Stream),
    ConsensusIn(hk::Stream),
    GossipOut(node::PublicKey, SocketAddr),
    ConsensusOut(validator::PublicKey),
}

fn spawn_job(ctx: &'static ctx::Ctx, node: Arc<hk::Node>, kind: JobKind) -> Job {
    let (stop, stop_rx) = tokio::sync::oneshot::channel::<()>();
    let handle = tokio::spawn(async move {
        let res: std::sync::Mutex<Option<anyhow::Result<()>>> = std::sync::Mutex::new(None);
        let (done, done_rx) = tokio::sync::oneshot::channel::<()>();
        let _: anyhow::Result<()> = scope::run!(ctx, |ctx, s| async {
            s.spawn_bg::<()>(async {
                let r = match kind {
                    JobKind::GossipIn(st) => node.gossip_run_inbound(ctx, st).await,
                    JobKind::ConsensusIn(st) => node.consensus_run_inbound(ctx, st).await,
                    JobKind::GossipOut(pk, addr) => node.gossip_run_outbound(ctx, &pk, addr).await,
                    JobKind::ConsensusOut(pk) => node.consensus_maintain_connection(ctx, &pk).await,
                };
                *res.lock().unwrap() = Some(r);
                let _ = done.send(());
                Ok(())
            });
            tokio::select! {
                _ = stop_rx => {}
                _ = done_rx => {}
            }
            Ok(())
        })
        .await;
        let r = res.lock().unwrap().take();
        r
    });
    Job { handle, stop: Some(stop) }
}

impl Job {
    /// Cancels the admission path (if it is still running) and waits for it to return.
    async fn stop(mut self) -> String {
        drop(self.stop.take());
        match tokio::time::timeout(Duration::from_secs(10), &mut self.handle).await {
            Ok(Ok(Some(Err(e)))) => format!("{e:#}"),
            Ok(Ok(Some(Ok(())))) => "returned Ok".into(),
            Ok(Ok(None)) => "no result".into(),
            Ok(Err(e)) => format!("task: {e}"),
            Err(_) => "still running".into(),
        }
    }
    /// Waits for the admission path to return by itself.
    async fn join(&mut self) -> String {
        match tokio::time::timeout(Duration::from_secs(10), &mut self.handle).await {
            Ok(Ok(Some(Err(e)))) => format!("{e:#}"),
            Ok(Ok(Some(Ok(())))) => "returned Ok".into(),
            Ok(Ok(None)) => "no result".into(),
            Ok(Err(e)) => format!("task: {e}"),
            Err(_) => "still running".into(),
        }
    }
}

struct NodeState {
    node: Arc<hk::Node>,
    me: usize,
    vme: Option<usize>,
    genesis: usize,
    static_in: BTreeSet<usize>,
    static_out: BTreeSet<usize>,
    dyn_limit: u64,
    live: BTreeMap<u64, LiveConn>,
    addr2conn: HashMap<SocketAddr, u64>,
    /// keys held by the remote end of each connection ever attempted
    holds: HashMap<u64, BTreeSet<usize>>,
    /// connections admitted by reflecting the node's own frame on a dial of its own key (finding F8)
    reflected: BTreeSet<u64>,
    _engine: TestEngine,
}

pub struct C12 {
    rt: tokio::runtime::Runtime,
    w: &'static World,
    ctx: &'static ctx::Ctx,
    /// listener every in-harness session is accepted on
    main: Listener,
    /// the node's public address (target of its loopback dial)
    public: Listener,
    /// dial targets of the node's other outbound connections (one per live connection)
    aux: Vec<Listener>,
    pool: Option<PoolState>,
    node: Option<NodeState>,
    /// the ops of the current stateful case (the replayable input of a pool / node monitor failure)
    case_ops: Vec<Value>,
    /// every Noise session id seen in this run
    seen_ids: HashSet<Vec<u8>>,
}

impl C12 {
    /// The current case as one replayable op line.
    fn case_input(&self) -> Value {
        json!({"op": "case", "reset": true, "ops": self.case_ops})
    }

    fn new() -> Self {
        let rt = tokio::runtime::Builder::new_multi_thread().worker_threads(4).enable_all().build().unwrap();
        let g = rt.enter();
        let main = Listener::new();
        let public = Listener::new();
        let aux = (0..12).map(|_| Listener::new()).collect();
        drop(g);
        Self {
            rt,
            w: Box::leak(Box::new(World::new())),
            ctx: Box::leak(Box::new(ctx::test_root(&ctx::RealClock))),
            main,
            public,
            aux,
            pool: None,
            node: None,
            case_ops: vec![],
            seen_ids: HashSet::new(),
        }
    }
}

fn victim_of(op: &Value) -> Party {
    Party {
        net: Net::parse(&op["net"]),
        dir: Dir::parse(&op["dir"]),
        me: op["me"].as_u64().expect("me") as usize,
        genesis: op["genesis"].as_u64().expect("genesis") as usize,
        peer: op["peer"].as_u64().unwrap_or(0) as usize,
    }
}

/// Monitors of one accepted handshake, evaluated on what the harness knows. `delivered`: abstract view of the frame
/// the adversary wrote to the accepting party (if the remote was scripted).
#[allow(clippy::too_many_arguments)]
fn monitor_accept(
    fails: &mut Vec<(String, String)>,
    who: &str,
    p: Party,
    sid: u64,
    key: i64,
    holds: &BTreeSet<usize>,
    delivered: Option<&Abs>,
    reflected: bool,
) {
    let net = p.net.name();
    let dir = p.dir.name();
    if key < 0 || !holds.contains(&(key as usize)) {
        // attribution: the remote end of this session does not hold the secret key of the accepted identity
        let site = if reflected && p.dir == Dir::Out && key == p.me as i64 {
            format!("attribution/self-key-reflected/{net}/outbound")
        } else {
            format!("attribution/key-not-held-by-remote/{net}/{dir}{who}")
        };
        fails.push((site, format!("handshake::{dir} attributed the connection to key {key}, but the remote end of this session holds only the keys {holds:?}")));
    }
    if let Some(a) = delivered {
        if a.sig.map(|s| s.1) != Some(sid as i64) || a.msg != sid as i64 {
            fails.push((format!("session-binding/{net}/{dir}{who}"), format!("accepted a handshake whose signature is not over the id of this session: {a:?}")));
        }
        if a.sig.map(|s| s.0) != Some(key) || a.key != key {
            fails.push((format!("signature/{net}/{dir}{who}"), format!("accepted key {key} on a frame {a:?}")));
        }
        if a.genesis != p.genesis as i64 {
            fails.push((format!("genesis/{net}/{dir}{who}"), format!("accepted a handshake for another chain: {a:?}")));
        }
    }
    if p.dir == Dir::Out && key != p.peer as i64 {
        fails.push((format!("expected-peer/{net}/{dir}{who}"), format!("dialled {} but accepted {key}", p.peer)));
    }
}

impl C12 {
    fn exec_hs(&mut self, op: &Value, out: &mut Out) -> Value {
        let (w, ctx) = (self.w, self.ctx);
        let v = victim_of(op);
        let sid = op["sid"].as_u64().expect("sid");
        let adv = adv_set(op);
        let remote = op["remote"].clone();
        let kind = remote["kind"].as_str().unwrap_or("?").to_string();
        out.count(&format!("hs/{}/{}/{}", v.net.name(), v.dir.name(), kind));
        let main = &mut self.main;
        let mut fails: Vec<(String, String)> = vec![];
        let res = self.rt.block_on(async {
            tokio::time::timeout(OP_TIMEOUT, async {
                let (c, s) = pipe(ctx, main, v.net.endpoint()).await?;
                let mut sids = Sids::default();
                sids.add(c.id(), sid);
                if c.id() != s.id() {
                    fails.push(("noise/session-id-differs-at-the-two-ends".into(), "the two ends of one Noise session report different ids".into()));
                }
                // the dialling end belongs to the outbound party
                let (mut vs, rs) = if v.dir == Dir::Out { (c, s) } else { (s, c) };
                let vt = tokio::spawn(async move {
                    let r = honest_call(w, ctx, v, &mut vs).await;
                    drop(vs);
                    r
                });
                let pl = play_remote(w, ctx, main, v, sid, &remote, &adv, rs, &mut sids, &mut fails).await;
                let pl = match pl {
                    Ok(pl) => pl,
                    Err(e) => {
                        vt.abort();
                        return Err(e);
                    }
                };
                let verdict = vt.await?;
                if sids.0.len() >= 2 && sids.0[0].0 == sids.0[1].0 {
                    fails.push(("noise/two-sessions-share-an-id".into(), "two Noise sessions have the same id".into()));
                }
                anyhow::Ok((verdict, pl, sids))
            })
            .await
        });
        let (verdict, pl, sids) = match res {
            Err(_) => {
                out.oracle_fail("harness/hang", "the scenario did not finish", op.clone());
                return json!({"hang": true});
            }
            Ok(Err(e)) => {
                out.oracle_fail("harness/error", &format!("{e:#}"), op.clone());
                return json!({"harness_error": format!("{e:#}")});
            }
            Ok(Ok(x)) => x,
        };
        for (id, label) in &sids.0 {
            // the id of every real session of this run is new (the constant "id of no session" is not a session)
            if *label != sid + OTHER && !self.seen_ids.insert(id.clone()) {
                fails.push(("noise/two-sessions-share-an-id".into(), "a Noise session id occurred twice in this run".into()));
            }
        }
        let abs = |b: &Vec<u8>| parse_frame(v.net, b).map(|t| w.abstract_frame(&t, &sids));
        let delivered = pl.delivered.as_ref().and_then(abs);
        let reflected = match (&pl.delivered, &pl.sent) {
            (Some(d), Some(s)) => s.first() == Some(d),
            _ => false,
        };
        if let Ok(k) = &verdict {
            monitor_accept(&mut fails, "", v, sid, *k, &pl.holds, delivered.as_ref(), reflected);
        }
        // every frame an honest party writes is its own signature over the id of its own session
        if let Some(sent) = &pl.sent {
            for f in sent {
                let a = abs(f);
                let good = Abs { key: v.me as i64, msg: sid as i64, sig: Some((v.me as i64, sid as i64)), genesis: v.genesis as i64 };
                if a.as_ref() != Some(&good) {
                    fails.push((format!("honest-frame/{}/{}", v.net.name(), v.dir.name()), format!("the victim wrote {a:?}")));
                }
            }
        }
        if let (Some(Ok(k)), Some(d)) = (&pl.other, pl.other_dir) {
            // the second honest party: in a relay its session (sid+1) is terminated by the adversary; as a direct
            // honest peer its session is the victim's
            let p2 = Party { net: v.net, dir: d, me: remote["me"].as_u64().unwrap_or(0) as usize,
                             genesis: remote["genesis"].as_u64().unwrap_or(0) as usize, peer: remote["peer"].as_u64().unwrap_or(0) as usize };
            let holds2: BTreeSet<usize> = if kind == "honest" { [v.me].into_iter().collect() } else { adv.clone() };
            let sid2 = if kind == "honest" { sid } else { sid + 1 };
            monitor_accept(&mut fails, "/second-party", p2, sid2, *k, &holds2, None, false);
        }
        for (site, what) in fails {
            out.oracle_fail(&site, &what, op.clone());
        }
        let mut obs = verdict_json(&verdict);
        if let Some(sent) = &pl.sent {
            obs["sent"] = Value::Array(sent.iter().map(|f| abs(f).map(|a| a.json()).unwrap_or(json!("undecodable"))).collect());
        }
        if let Some(o) = &pl.other {
            obs["other"] = verdict_json(o);
        }
        if let Some(d) = &delivered {
            obs["_delivered"] = d.json();
        }
        obs
    }
}

// ------------------------------------------------------------------------------------------------ pool ops

fn insert_class(r: &anyhow::Result<()>) -> &'static str {
    match r {
        Ok(()) => "ok",
        Err(e) => {
            let s = format!("{e:#}");
            if s.contains("already exists") {
                "exists"
            } else if s.contains("limit exceeded") {
                "limit"
            } else {
                "other"
            }
        }
    }
}

fn sorted(mut v: Vec<(u64, u64)>) -> Vec<(u64, u64)> {
    v.sort();
    v
}

fn pairs_json(v: &[(u64, u64)]) -> Value {
    Value::Array(v.iter().map(|(k, x)| json!([k, x])).collect())
}

/// Sequential specification used by the linearizability monitor of concurrent batches: a map with a quota for keys
/// outside `allowed`. Returns the result class of the call.
fn spec_apply(cur: &mut BTreeMap<u64, u64>, allowed: &BTreeSet<u64>, limit: u64, o: &Value) -> &'static str {
    let k = o["k"].as_u64().unwrap();
    if o["o"].as_str() == Some("i") {
        if cur.contains_key(&k) {
            return "exists";
        }
        let extras = cur.keys().filter(|k| !allowed.contains(k)).count() as u64;
        if !allowed.contains(&k) && extras >= limit {
            return "limit";
        }
        cur.insert(k, o["v"].as_u64().unwrap());
        "ok"
    } else {
        cur.remove(&k);
        "done"
    }
}

/// Is there an order of `ops` (each atomic) that explains the observed results and final contents?
fn linearizable(
    cur: &BTreeMap<u64, u64>,
    allowed: &BTreeSet<u64>,
    limit: u64,
    ops: &[Value],
    results: &[&'static str],
    used: &mut Vec<bool>,
    fin: &BTreeMap<u64, u64>,
) -> bool {
    if used.iter().all(|u| *u) {
        return cur == fin;
    }
    for i in 0..ops.len() {
        if used[i] {
            continue;
        }
        let mut c = cur.clone();
        if spec_apply(&mut c, allowed, limit, &ops[i]) != results[i] {
            continue;
        }
        used[i] = true;
        let ok = linearizable(&c, allowed, limit, ops, results, used, fin);
        used[i] = false;
        if ok {
            return true;
        }
    }
    false
}

struct NoopWake;

impl std::task::Wake for NoopWake {
    fn wake(self: Arc<Self>) {}
}

type PoolFut<'a> = std::pin::Pin<Box<dyn std::future::Future<Output = &'static str> + 'a>>;

impl C12 {
    /// Invariants of the pool contents, checked after every call.
    fn monitor_pool(&self, out: &mut Out, op: &Value, cur: &[(u64, u64)]) {
        let Some(ps) = &self.pool else { return };
        let keys: Vec<u64> = cur.iter().map(|e| e.0).collect();
        let uniq: BTreeSet<u64> = keys.iter().copied().collect();
        if uniq.len() != keys.len() {
            out.oracle_fail("pool/duplicate-key", "two entries for one key", self.case_input());
        }
        let extras = keys.iter().filter(|k| !ps.allowed.contains(k)).count() as u64;
        if extras > ps.limit {
            out.oracle_fail("pool/quota-exceeded", &format!("{extras} entries outside the allowed set, limit {}", ps.limit), self.case_input());
        }
        if sorted(ps.pool.subscribed()) != cur {
            out.oracle_fail("pool/subscriber-view-differs", "subscribe() shows other contents than current()", self.case_input());
        }
    }

    fn exec_pool(&mut self, op: &Value, out: &mut Out) -> Value {
        let name = op["op"].as_str().unwrap();
        out.count(name);
        match name {
            "pool_new" => {
                let allowed: BTreeSet<u64> = op["allowed"].as_array().unwrap().iter().map(|x| x.as_u64().unwrap()).collect();
                let limit = op["limit"].as_u64().unwrap();
                let pool = Pool::new(allowed.iter().copied().collect::<HashSet<u64>>(), limit as usize);
                self.pool = Some(PoolState { pool: Arc::new(pool), allowed, limit });
                json!({"cur": []})
            }
            "pool_insert" => {
                let (k, v) = (op["k"].as_u64().unwrap(), op["v"].as_u64().unwrap());
                let ps = self.pool.as_ref().expect("pool_new first");
                let before = sorted(ps.pool.current());
                let r = self.rt.block_on(ps.pool.insert(k, v));
                let cls = insert_class(&r);
                let cur = sorted(ps.pool.current());
                out.count(&format!("pool_insert={cls}"));
                // a refused insert changes nothing (in particular it does not replace an existing connection);
                // an accepted one adds exactly the new entry
                let mut want = before.clone();
                if cls == "ok" {
                    want.push((k, v));
                    want.sort();
                }
                if cur != want {
                    out.oracle_fail("pool/insert-effect", &format!("insert({k},{v}) = {cls}: contents {before:?} -> {cur:?}"), self.case_input());
                }
                if cls == "ok" && before.iter().any(|e| e.0 == k) {
                    out.oracle_fail("pool/second-entry-for-key", "insert succeeded for a key that was present", self.case_input());
                }
                if cls == "ok" && !ps.allowed.contains(&k) && before.iter().filter(|e| !ps.allowed.contains(&e.0)).count() as u64 >= ps.limit {
                    out.oracle_fail("pool/quota-exceeded", "insert of a non-allowed key succeeded with the quota used up", self.case_input());
                }
                self.monitor_pool(out, op, &cur);
                json!({"res": cls, "cur": pairs_json(&cur)})
            }
            "pool_remove" => {
                let k = op["k"].as_u64().unwrap();
                let ps = self.pool.as_ref().expect("pool_new first");
                let before = sorted(ps.pool.current());
                self.rt.block_on(ps.pool.remove(&k));
                let cur = sorted(ps.pool.current());
                let want: Vec<(u64, u64)> = before.iter().copied().filter(|e| e.0 != k).collect();
                if cur != want {
                    out.oracle_fail("pool/remove-effect", &format!("remove({k}): contents {before:?} -> {cur:?}"), self.case_input());
                }
                self.monitor_pool(out, op, &cur);
                json!({"cur": pairs_json(&cur)})
            }
            "pool_batch" => {
                let ps = self.pool.as_ref().expect("pool_new first");
                let ops: Vec<Value> = op["ops"].as_array().unwrap().clone();
                let mode = op["mode"].as_str().unwrap().to_string();
                out.count(&format!("pool_batch/{mode}"));
                let before: BTreeMap<u64, u64> = ps.pool.current().into_iter().collect();
                let pool = ps.pool.clone();
                let results: Vec<&'static str> = self.rt.block_on(async {
                    let barrier = Arc::new(tokio::sync::Barrier::new(ops.len()));
                    let mut hs = vec![];
                    for o in ops.clone() {
                        let (pool, barrier) = (pool.clone(), barrier.clone());
                        hs.push(tokio::spawn(async move {
                            barrier.wait().await;
                            let k = o["k"].as_u64().unwrap();
                            if o["o"].as_str() == Some("i") {
                                insert_class(&pool.insert(k, o["v"].as_u64().unwrap()).await)
                            } else {
                                pool.remove(&k).await;
                                "done"
                            }
                        }));
                    }
                    let mut rs = vec![];
                    for h in hs {
                        rs.push(h.await.expect("batch task"));
                    }
                    rs
                });
                let cur = sorted(ps.pool.current());
                let fin: BTreeMap<u64, u64> = cur.iter().copied().collect();
                if ops.len() <= 7 && !linearizable(&before, &ps.allowed, ps.limit, &ops, &results, &mut vec![false; ops.len()], &fin) {
                    out.oracle_fail("pool/not-linearizable", &format!("no order of the concurrent calls explains results {results:?} and contents {cur:?}"), self.case_input());
                }
                self.monitor_pool(out, op, &cur);
                let n_ok = results.iter().filter(|r| **r == "ok").count();
                let keys: Vec<u64> = cur.iter().map(|e| e.0).collect();
                let allowed_in: Vec<u64> = keys.iter().copied().filter(|k| ps.allowed.contains(k)).collect();
                let extras = keys.len() - allowed_in.len();
                match mode.as_str() {
                    // inserts only: how many succeed, how many entries of each class exist afterwards, and which
                    // allowed keys are present do not depend on the order (which non-allowed keys won does)
                    "insert" => json!({"mode": mode, "n_ok": n_ok, "size": keys.len(), "extras": extras, "allowed_in": allowed_in}),
                    // removes only: the final contents do not depend on the order
                    "remove" => json!({"mode": mode, "cur": pairs_json(&cur)}),
                    _ => json!({"mode": mode}),
                }
            }
            "pool_probe" => {
                // how many further non-configured peers are admitted? (fresh keys 1000.. are outside `allowed`)
                let ps = self.pool.as_ref().expect("pool_new first");
                let before = sorted(ps.pool.current());
                let mut n = 0u64;
                while n < 8 && self.rt.block_on(ps.pool.insert(1000 + n, 0)).is_ok() {
                    n += 1;
                }
                for i in 0..n {
                    self.rt.block_on(ps.pool.remove(&(1000 + i)));
                }
                let cur = sorted(ps.pool.current());
                let extras = before.iter().filter(|e| !ps.allowed.contains(&e.0)).count() as u64;
                let want = ps.limit.saturating_sub(extras).min(8);
                if n != want {
                    out.oracle_fail("pool/quota-probe", &format!("{n} further non-configured peers are admitted, but {extras} of the {} slots are in use (contents {before:?})", ps.limit), self.case_input());
                }
                if cur != before {
                    out.oracle_fail("pool/quota-probe-restore", &format!("contents {before:?} -> {cur:?} after inserting and removing probe keys"), self.case_input());
                }
                self.monitor_pool(out, op, &cur);
                json!({"free": n, "cur": pairs_json(&cur)})
            }
            "pool_contended" => {
                // Forced contention, no threads: hold the sender lock, start the calls and poll each once so that they
                // queue on the lock in the listed order, release, and poll them to completion in the op's `order`.
                // The lock is a fair FIFO mutex and each call is one critical section, so the outcome has to be that
                // of the sequential run in queue order.
                let ps = self.pool.as_ref().expect("pool_new first");
                let ops: Vec<Value> = op["ops"].as_array().unwrap().clone();
                let order: Vec<usize> = op["order"].as_array().map(|a| a.iter().map(|x| x.as_u64().unwrap() as usize).collect()).unwrap_or_else(|| (0..ops.len()).collect());
                out.count(&format!("pool_contended/k={}", ops.len()));
                let before: BTreeMap<u64, u64> = ps.pool.current().into_iter().collect();
                let pool: &Pool<u64, u64> = &ps.pool;
                let waker = std::task::Waker::from(Arc::new(NoopWake));
                let mut cx = std::task::Context::from_waker(&waker);
                let mut res: Vec<Option<&'static str>> = vec![None; ops.len()];
                let mut early = 0;
                {
                    let mut hold = Box::pin(pool.hold_lock());
                    let std::task::Poll::Ready(guard) = hold.as_mut().poll(&mut cx) else {
                        out.oracle_fail("harness/error", "the idle pool's lock could not be taken", self.case_input());
                        return json!({"harness_error": "lock"});
                    };
                    let mut futs: Vec<PoolFut> = ops
                        .iter()
                        .map(|o| {
                            let k = o["k"].as_u64().unwrap();
                            let f: PoolFut = if o["o"].as_str() == Some("i") {
                                let v = o["v"].as_u64().unwrap();
                                Box::pin(async move { insert_class(&pool.insert(k, v).await) })
                            } else {
                                Box::pin(async move {
                                    pool.remove(&k).await;
                                    "done"
                                })
                            };
                            f
                        })
                        .collect();
                    for (i, f) in futs.iter_mut().enumerate() {
                        if let std::task::Poll::Ready(r) = f.as_mut().poll(&mut cx) {
                            res[i] = Some(r);
                            early += 1;
                        }
                    }
                    drop(guard);
                    drop(hold);
                    for _ in 0..ops.len() + 2 {
                        for &i in &order {
                            if res[i].is_none() {
                                if let std::task::Poll::Ready(r) = futs[i].as_mut().poll(&mut cx) {
                                    res[i] = Some(r);
                                }
                            }
                        }
                    }
                }
                if res.iter().any(|r| r.is_none()) {
                    out.oracle_fail("pool/contended/stuck", &format!("calls did not complete after the lock was released: {res:?}"), self.case_input());
                    return json!({"hang": true});
                }
                let res: Vec<&'static str> = res.into_iter().map(|r| r.unwrap()).collect();
                let cur = sorted(ps.pool.current());
                let fin: BTreeMap<u64, u64> = cur.iter().copied().collect();
                // reference: the sequential specification applied in queue order
                let mut spec = before.clone();
                let want: Vec<&'static str> = ops.iter().map(|o| spec_apply(&mut spec, &ps.allowed, ps.limit, o)).collect();
                if want != res || spec != fin {
                    out.oracle_fail("pool/contended/not-atomic", &format!("queued calls {ops:?} on {before:?}: results {res:?}, contents {cur:?}; as atomic calls in queue order: {want:?}, {spec:?}"), self.case_input());
                }
                // the same, stated per key without reference to an order
                let keys: BTreeSet<u64> = ops.iter().map(|o| o["k"].as_u64().unwrap()).collect();
                for k in keys {
                    let ins: Vec<usize> = (0..ops.len()).filter(|&i| ops[i]["k"].as_u64() == Some(k) && ops[i]["o"].as_str() == Some("i")).collect();
                    let removes = ops.iter().any(|o| o["k"].as_u64() == Some(k) && o["o"].as_str() == Some("r"));
                    let oks: Vec<usize> = ins.iter().copied().filter(|&i| res[i] == "ok").collect();
                    if !removes {
                        let max_ok = if before.contains_key(&k) { 0 } else { 1 };
                        if oks.len() > max_ok {
                            out.oracle_fail("pool/contended/double-admit", &format!("{} concurrent connections of identity {k} were admitted", oks.len() + (1 - max_ok)), self.case_input());
                        }
                        if let (Some(v), false) = (fin.get(&k), before.contains_key(&k)) {
                            if !oks.iter().any(|&i| ops[i]["v"].as_u64() == Some(*v)) || oks.len() != 1 {
                                out.oracle_fail("pool/contended/entry-not-the-admitted-connection", &format!("identity {k} is registered with connection {v}; admitted calls: {oks:?}"), self.case_input());
                            }
                        }
                        if before.contains_key(&k) && fin.get(&k) != before.get(&k) {
                            out.oracle_fail("pool/contended/existing-connection-replaced", &format!("identity {k}: {:?} -> {:?}", before.get(&k), fin.get(&k)), self.case_input());
                        }
                    }
                }
                self.monitor_pool(out, op, &cur);
                json!({"res": res, "cur": pairs_json(&cur), "_completed_before_release": early})
            }
            x => panic!("bad pool op {x}"),
        }
    }
}

// ------------------------------------------------------------------------------------------------ node ops

/// After the handshake: does the node serve the connection (it writes the multiplexer handshake) or drop it?
async fn served(s: &mut hk::Stream) -> bool {
    let mut buf = [0u8; 64];
    matches!(tokio::time::timeout(Duration::from_secs(10), s.read(&mut buf)).await, Ok(Ok(n)) if n > 0)
}

impl NodeState {
    /// The four pools as sorted (key index, connection id) lists.
    fn snapshot(&self, w: &World) -> [Vec<(u64, u64)>; 4] {
        let nk = |k: &node::PublicKey| w.nkeys.iter().position(|x| &x.public() == k).map(|i| i as u64).unwrap_or(99);
        let vk = |k: &validator::PublicKey| w.vkeys.iter().position(|x| &x.public() == k).map(|i| i as u64).unwrap_or(99);
        let conn = |a: &SocketAddr| self.addr2conn.get(a).copied().unwrap_or(9999);
        [
            sorted(self.node.gossip_inbound().iter().map(|(k, a)| (nk(k), conn(a))).collect()),
            sorted(self.node.gossip_outbound().iter().map(|(k, a)| (nk(k), conn(a))).collect()),
            sorted(self.node.consensus_inbound().iter().map(|(k, a)| (vk(k), conn(a))).collect()),
            sorted(self.node.consensus_outbound().iter().map(|(k, a)| (vk(k), conn(a))).collect()),
        ]
    }
}

fn pools_json(p: &[Vec<(u64, u64)>; 4]) -> Value {
    json!({"gin": pairs_json(&p[0]), "gout": pairs_json(&p[1]), "cin": pairs_json(&p[2]), "cout": pairs_json(&p[3])})
}

impl C12 {
    /// Invariants of the node's pools, checked after every node op.
    fn monitor_node(&self, out: &mut Out, op: &Value, p: &[Vec<(u64, u64)>; 4]) {
        let Some(ns) = &self.node else { return };
        let names = [("gossip", "inbound"), ("gossip", "outbound"), ("consensus", "inbound"), ("consensus", "outbound")];
        for (i, pool) in p.iter().enumerate() {
            let (net, dir) = names[i];
            let keys: BTreeSet<u64> = pool.iter().map(|e| e.0).collect();
            if keys.len() != pool.len() {
                out.oracle_fail(&format!("node/duplicate-key/{net}/{dir}"), "two connections of one identity in one direction", self.case_input());
            }
            for (k, c) in pool {
                // attribution: the remote end of the admitted connection holds the secret key of the identity
                let holds = ns.holds.get(c).cloned().unwrap_or_default();
                if !holds.contains(&(*k as usize)) {
                    let own = if i < 2 { Some(ns.me) } else { ns.vme };
                    let site = if ns.reflected.contains(c) && dir == "outbound" && own == Some(*k as usize) {
                        format!("attribution/self-key-reflected/{net}/outbound")
                    } else {
                        format!("attribution/key-not-held-by-remote/{net}/{dir}/node")
                    };
                    out.oracle_fail(&site, &format!("connection {c} is registered under key {k}, but its remote end holds only the keys {holds:?}"), self.case_input());
                }
                if i >= 2 && *k as usize >= COMMITTEE {
                    out.oracle_fail(&format!("committee/{net}/{dir}"), &format!("key {k} is not in the committee"), self.case_input());
                }
            }
        }
        // every connection the node still serves is registered, under its own address: an entry that disappears while the
        // connection is alive lets the same identity in a second time and frees a quota slot that is still in use
        for (c, lc) in &ns.live {
            if lc.abort_after_close || lc.task.handle.is_finished() {
                continue;
            }
            let idx = match (lc.net, lc.dir) { (Net::Gossip, Dir::In) => 0, (Net::Gossip, Dir::Out) => 1, (Net::Consensus, Dir::In) => 2, _ => 3 };
            if !p[idx].iter().any(|e| e.1 == *c) {
                let (net, dir) = names[idx];
                out.oracle_fail(
                    &format!("node/live-connection-unregistered/{net}/{dir}"),
                    &format!("connection {c} is still being served but its identity is no longer registered in the pool (pool: {:?})", p[idx]),
                    self.case_input(),
                );
            }
        }
        let dyn_in = p[0].iter().filter(|e| !ns.static_in.contains(&(e.0 as usize))).count() as u64;
        if dyn_in > ns.dyn_limit {
            out.oracle_fail("quota/gossip/inbound", &format!("{dyn_in} non-static inbound connections, limit {}", ns.dyn_limit), self.case_input());
        }
        if let Some(e) = p[1].iter().find(|e| !ns.static_out.contains(&(e.0 as usize))) {
            out.oracle_fail("quota/gossip/outbound", &format!("outbound connection to non-configured peer {}", e.0), self.case_input());
        }
    }

    fn exec_node(&mut self, op: &Value, out: &mut Out) -> Value {
        let (w, ctx) = (self.w, self.ctx);
        let name = op["op"].as_str().unwrap().to_string();
        out.count(&name);
        match name.as_str() {
            "node_new" => {
                // end whatever the previous case left running
                if let Some(old) = self.node.take() {
                    self.rt.block_on(async {
                        for (_, mut c) in old.live {
                            drop(c.stream.take());
                            c.task.stop().await;
                        }
                    });
                }
                let me = op["me"].as_u64().unwrap() as usize;
                let vme = op["vme"].as_u64().map(|x| x as usize);
                let genesis = op["genesis"].as_u64().unwrap() as usize;
                assert_eq!(genesis, 0, "the node's chain is the setup's genesis");
                let set = |k: &str| -> BTreeSet<usize> { op[k].as_array().unwrap().iter().map(|x| x.as_u64().unwrap() as usize).collect() };
                let (static_in, static_out) = (set("static_in"), set("static_out"));
                let dyn_limit = op["dyn_limit"].as_u64().unwrap();
                let mut cfg = gossip_cfg(w, me);
                cfg.public_addr = self.public.addr.into();
                cfg.validator_key = vme.map(|i| w.vkeys[i].clone());
                cfg.gossip.dynamic_inbound_limit = dyn_limit as usize;
                cfg.gossip.static_inbound = static_in.iter().map(|i| w.nkeys[*i].public()).collect();
                cfg.gossip.static_outbound = static_out.iter().map(|i| (w.nkeys[*i].public(), net::Host("127.0.0.1:1".into()))).collect();
                let built = self.rt.block_on(async {
                    let engine = TestEngine::new(ctx, &w.setup).await;
                    let (send, _recv) = sync::prunable_mpsc::unpruned_channel();
                    let (_s, r) = ctx::channel::unbounded();
                    let (net, _runner) = network::Network::new(cfg, engine.manager.clone(), Some(validator::EpochNumber(0)), send, r)?;
                    anyhow::Ok((net, engine))
                });
                let (net, engine) = match built {
                    Ok(x) => x,
                    Err(e) => {
                        out.oracle_fail("harness/error", &format!("Network::new: {e:#}"), self.case_input());
                        return json!({"harness_error": format!("{e:#}")});
                    }
                };
                let node = Arc::new(hk::Node(net));
                let has = node.has_consensus();
                let ns = NodeState { node, me, vme, genesis, static_in, static_out, dyn_limit, live: BTreeMap::new(),
                                     addr2conn: HashMap::new(), holds: HashMap::new(), reflected: BTreeSet::new(), _engine: engine };
                let snap = ns.snapshot(w);
                self.node = Some(ns);
                json!({"consensus": has, "pools": pools_json(&snap)})
            }
            "node_conn" => {
                let net = Net::parse(&op["net"]);
                let dir = Dir::parse(&op["dir"]);
                let conn = op["conn"].as_u64().unwrap();
                let sid = op["sid"].as_u64().unwrap();
                let peer = op["peer"].as_u64().unwrap_or(0) as usize;
                let adv = adv_set(op);
                let remote = op["remote"].clone();
                let kind = remote["kind"].as_str().unwrap_or("?").to_string();
                out.count(&format!("node_conn/{}/{}/{}", net.name(), dir.name(), kind));
                let ns = self.node.as_mut().expect("node_new first");
                let own = match net { Net::Gossip => Some(ns.me), Net::Consensus => ns.vme };
                let v = Party { net, dir, me: own.unwrap_or(0), genesis: ns.genesis, peer };
                let node = ns.node.clone();
                let (main, public, aux) = (&mut self.main, &mut self.public, &mut self.aux);
                let busy: HashSet<SocketAddr> = ns.live.values().map(|c| c.addr).collect();
                let mut fails: Vec<(String, String)> = vec![];
                {
                    let consensus = matches!(net, Net::Consensus);
                    let already = if consensus {
                        node.consensus_outbound().iter().any(|(k, _)| *k == w.vkeys[peer.min(w.vkeys.len() - 1)].public())
                    } else {
                        node.gossip_outbound().iter().any(|(k, _)| *k == w.nkeys[peer.min(w.nkeys.len() - 1)].public())
                    };
                    let probe = (dir == Dir::Out && !already && peer < w.vkeys.len().min(w.nkeys.len())).then(|| (node.clone(), consensus, peer));
                    OUT_PROBE.with(|p| *p.borrow_mut() = probe);
                }
                let res = self.rt.block_on(async {
                    tokio::time::timeout(OP_TIMEOUT, async {
                        // establish the session: the node holds one end (as a task running the real admission path)
                        let (task, rs, addr, abort_after_close): (Job, hk::Stream, SocketAddr, bool) = match dir {
                            Dir::In => {
                                let (c, s) = pipe(ctx, main, net.endpoint()).await?;
                                let addr = c.local_addr()?;
                                let task = spawn_job(ctx, node, match net {
                                    Net::Gossip => JobKind::GossipIn(s),
                                    Net::Consensus => JobKind::ConsensusIn(s),
                                });
                                (task, c, addr, false)
                            }
                            Dir::Out => {
                                let loopback = net == Net::Consensus && own == Some(peer);
                                let l: &mut Listener = if loopback { public } else { aux.iter_mut().find(|l| !busy.contains(&l.addr)).expect("a free dial target") };
                                let addr = l.addr;
                                let task = match net {
                                    Net::Gossip => spawn_job(ctx, node, JobKind::GossipOut(w.nkeys[peer].public(), addr)),
                                    Net::Consensus => {
                                        if own.is_none() {
                                            // no consensus network: nothing dials
                                            return anyhow::Ok(None);
                                        }
                                        if !loopback {
                                            node.announce(&w.vkeys[peer], addr, ctx.now_utc()).await;
                                        }
                                        spawn_job(ctx, node, JobKind::ConsensusOut(w.vkeys[peer].public()))
                                    }
                                };
                                // accept the node's dial (skipping stale connections of earlier dials)
                                let s = loop {
                                    match hk::Stream::accept(ctx, &mut l.l).await {
                                        Ok((s, e)) if e == net.endpoint() => break s,
                                        _ => continue,
                                    }
                                };
                                (task, s, addr, net == Net::Consensus)
                            }
                        };
                        let mut sids = Sids::default();
                        sids.add(rs.id(), sid);
                        let pl = play_remote(w, ctx, main, v, sid, &remote, &adv, rs, &mut sids, &mut fails).await;
                        let mut pl = match pl {
                            Ok(pl) => pl,
                            Err(e) => {
                                task.stop().await;
                                return Err(e);
                            }
                        };
                        let admitted = match pl.stream.as_mut() {
                            Some(s) => served(s).await,
                            None => false,
                        };
                        anyhow::Ok(Some((task, pl, addr, abort_after_close, admitted, sids)))
                    })
                    .await
                });
                let r = match res {
                    Err(_) => {
                        out.oracle_fail("harness/hang", "the scenario did not finish", self.case_input());
                        return json!({"hang": true});
                    }
                    Ok(Err(e)) => {
                        out.oracle_fail("harness/error", &format!("{e:#}"), self.case_input());
                        return json!({"harness_error": format!("{e:#}")});
                    }
                    Ok(Ok(x)) => x,
                };
                let ns = self.node.as_mut().unwrap();
                let Some((mut task, mut pl, addr, abort_after_close, admitted, _sids)) = r else {
                    let snap = ns.snapshot(w);
                    self.monitor_node(out, op, &snap);
                    return json!({"out": "refused", "hs_sent": false, "pools": pools_json(&snap)});
                };
                let hs_sent = match &pl.sent {
                    Some(s) => !s.is_empty(),
                    // honest remote: the frame is not visible; an inbound node answered iff the honest dialler got a frame
                    None => match (dir, &pl.other) {
                        (Dir::Out, _) => true,
                        (Dir::In, Some(Ok(_))) => true,
                        (Dir::In, Some(Err((c, _)))) => c != "stream",
                        _ => false,
                    },
                };
                ns.holds.insert(conn, pl.holds.clone());
                if let (Some(d), Some(s)) = (&pl.delivered, &pl.sent) {
                    if s.first() == Some(d) {
                        ns.reflected.insert(conn);
                    }
                }
                let why;
                if admitted {
                    ns.addr2conn.insert(addr, conn);
                    ns.live.insert(conn, LiveConn { net, dir, task, stream: pl.stream.take(), addr, abort_after_close });
                    why = String::new();
                } else {
                    drop(pl.stream.take());
                    // a refused attempt returns by itself (its error text is a diagnostic), except `maintain_connection`,
                    // which keeps redialling until its context is cancelled
                    why = self.rt.block_on(async { if abort_after_close { task.stop().await } else { task.join().await } });
                    if why == "still running" {
                        out.oracle_fail("harness/hang", "a refused connection's task did not return", self.case_input());
                    }
                }
                for (site, what) in fails {
                    out.oracle_fail(&site, &what, self.case_input());
                }
                let ns = self.node.as_ref().unwrap();
                let snap = ns.snapshot(w);
                self.monitor_node(out, op, &snap);
                // an admitted connection is registered, under this connection's address
                let idx = match (net, dir) { (Net::Gossip, Dir::In) => 0, (Net::Gossip, Dir::Out) => 1, (Net::Consensus, Dir::In) => 2, _ => 3 };
                let entry = snap[idx].iter().find(|e| e.1 == conn).copied();
                if admitted != entry.is_some() {
                    out.oracle_fail(&format!("node/served-but-not-registered/{}/{}", net.name(), dir.name()),
                        &format!("served = {admitted}, registered = {entry:?}"), self.case_input());
                }
                let mut obs = json!({"out": if admitted { "admitted" } else { "refused" }, "hs_sent": hs_sent, "_why": why, "pools": pools_json(&snap)});
                if let Some(e) = entry {
                    obs["key"] = json!(e.0);
                }
                obs
            }
            "node_close" => {
                let conn = op["conn"].as_u64().unwrap();
                let ns = self.node.as_mut().expect("node_new first");
                let node = ns.node.clone();
                let Some(mut lc) = ns.live.remove(&conn) else {
                    let snap = ns.snapshot(w);
                    return json!({"out": "not_live", "pools": pools_json(&snap)});
                };
                drop(lc.stream.take());
                let gone = self.rt.block_on(async {
                    if lc.abort_after_close {
                        // `maintain_connection`: wait for the entry to leave the pool, then stop the redialling loop
                        let mut ok = false;
                        for _ in 0..10_000 {
                            if !node.consensus_outbound().iter().any(|(_, a)| *a == lc.addr) {
                                ok = true;
                                break;
                            }
                            tokio::time::sleep(Duration::from_millis(1)).await;
                        }
                        ok && lc.task.stop().await != "still running"
                    } else {
                        lc.task.join().await != "still running"
                    }
                });
                let _ = (lc.net, lc.dir);
                if !gone {
                    out.oracle_fail("harness/hang", "the connection did not end after the remote closed it", self.case_input());
                }
                let ns = self.node.as_ref().unwrap();
                let snap = ns.snapshot(w);
                self.monitor_node(out, op, &snap);
                if snap.iter().any(|p| p.iter().any(|e| e.1 == conn)) {
                    out.oracle_fail("node/entry-survives-disconnect", "the pool still lists a connection that ended", self.case_input());
                }
                json!({"out": "closed", "pools": pools_json(&snap)})
            }
            x => panic!("bad node op {x}"),
        }
    }
}

// ------------------------------------------------------------------------------------------------ generator

const MALFORMED: [&str; 10] = ["eof", "empty", "oversize", "truncated", "garbage", "no_session", "no_genesis", "variant", "version", "bad_sig"];

fn tw(rng: &mut StdRng, adv: &[usize]) -> Value {
    match rng.gen_range(0..10) {
        0..=3 => json!({"t": "none"}),
        4..=5 => json!({"t": "msg_this"}),
        6 => json!({"t": "key", "k": rng.gen_range(0..N_KEYS)}),
        7 => json!({"t": "genesis", "g": rng.gen_range(0..2)}),
        _ => json!({"t": "resign", "a": adv[rng.gen_range(0..adv.len())]}),
    }
}

fn dirs(d: Dir) -> &'static str {
    match d {
        Dir::In => "in",
        Dir::Out => "out",
    }
}

/// A random remote script for a victim with the given parameters: mostly what an honest peer or a competent
/// adversary would do, with one deviation at a time.
fn gen_remote(rng: &mut StdRng, dir: Dir, me: usize, genesis: usize, peer: usize, adv: &[usize]) -> Value {
    let a = adv[rng.gen_range(0..adv.len())];
    let honest: Vec<usize> = (0..N_KEYS).filter(|k| !adv.contains(k)).collect();
    let h = honest[rng.gen_range(0..honest.len())];
    let near = |rng: &mut StdRng, x: usize, n: usize| if rng.gen_bool(0.8) { x } else { rng.gen_range(0..n) };
    match rng.gen_range(0..100) {
        0..=27 => {
            // honest peer: the dialled one / one that dials us, rarely somebody else, another chain, another target
            let r = if dir == Dir::Out { near(rng, peer, N_KEYS) } else { h };
            json!({"kind": "honest", "me": r, "genesis": near(rng, genesis, 2), "peer": near(rng, me, N_KEYS)})
        }
        28..=49 => {
            // adversary with its own keys: a fully valid frame under its key, with at most one deviation
            let mut f = json!({"kind": "forge", "key": a, "signer": a, "msg": "this", "signed": "this", "genesis": genesis});
            match rng.gen_range(0..8) {
                0 | 1 => {}
                2 => f["key"] = json!(if dir == Dir::Out { peer } else { h }),
                3 => f["msg"] = json!("other"),
                4 => f["signed"] = json!("other"),
                5 => { f["msg"] = json!("other"); f["signed"] = json!("other"); }
                6 => f["genesis"] = json!(1 - genesis.min(1)),
                _ => f["key"] = json!(rng.gen_range(0..N_KEYS)),
            }
            f
        }
        50..=59 => json!({"kind": "malformed", "how": MALFORMED[rng.gen_range(0..MALFORMED.len())]}),
        60..=69 if dir == Dir::Out => json!({"kind": "reflect", "tweak": tw(rng, adv)}),
        60..=81 => {
            let r = if dir == Dir::Out { near(rng, peer, N_KEYS) } else { h };
            let r = if adv.contains(&r) { h } else { r };
            json!({"kind": "replay", "me": r, "rdir": if rng.gen_bool(0.5) { "in" } else { "out" }, "genesis": near(rng, genesis, 2), "tweak": tw(rng, adv)})
        }
        _ => {
            let r = if dir == Dir::Out { near(rng, peer, N_KEYS) } else { h };
            let r = if adv.contains(&r) { h } else { r };
            json!({"kind": "relay", "me": r, "genesis": near(rng, genesis, 2), "peer": near(rng, me, N_KEYS), "to_other": tw(rng, adv), "to_victim": tw(rng, adv)})
        }
    }
}

fn directed_hs() -> Vec<Value> {
    let mut v = vec![];
    let adv = json!([4, 5]);
    for net in ["gossip", "consensus"] {
        for dir in ["in", "out"] {
            let base = |me: usize, peer: usize, remote: Value| json!({"op": "hs", "reset": true, "net": net, "dir": dir, "me": me, "genesis": 0, "peer": peer, "sid": 1, "adv": adv, "remote": remote});
            // honest peers
            v.push(base(0, 1, json!({"kind": "honest", "me": 1, "genesis": 0, "peer": 0})));
            v.push(base(0, 0, json!({"kind": "honest", "me": 0, "genesis": 0, "peer": 0}))); // genuine loopback
            v.push(base(0, 1, json!({"kind": "honest", "me": 1, "genesis": 1, "peer": 0}))); // other chain
            v.push(base(0, 2, json!({"kind": "honest", "me": 1, "genesis": 0, "peer": 0}))); // not the dialled peer
            v.push(base(0, 1, json!({"kind": "honest", "me": 1, "genesis": 0, "peer": 3}))); // peer dialled somebody else
            // the adversary under its own key, then one deviation at a time
            let f = |key: usize, signer: usize, msg: &str, signed: &str, g: usize| json!({"kind": "forge", "key": key, "signer": signer, "msg": msg, "signed": signed, "genesis": g});
            v.push(base(0, 4, f(4, 4, "this", "this", 0)));
            v.push(base(0, 1, f(4, 4, "this", "this", 0)));
            v.push(base(0, 1, f(1, 4, "this", "this", 0))); // impersonation: claimed key 1, signed by 4
            v.push(base(0, 4, f(4, 5, "this", "this", 0)));
            v.push(base(0, 4, f(4, 4, "other", "other", 0))); // valid signature over another session's id
            v.push(base(0, 4, f(4, 4, "this", "other", 0))); // ... with the carried id rewritten
            v.push(base(0, 4, f(4, 4, "other", "this", 0)));
            v.push(base(0, 4, f(4, 4, "this", "this", 1))); // other chain
            v.push(base(0, 4, f(4, 4, "other", "other", 1)));
            for how in MALFORMED.iter().chain(["bad_key"].iter()) {
                v.push(base(0, 1, json!({"kind": "malformed", "how": how})));
            }
            // keys nobody holds the secret of (small-order points / the point at infinity) with their universal signatures
            for i in 0..16 {
                v.push(base(0, 1, json!({"kind": "malformed", "how": format!("weak_key_{i}")})));
            }
            if dir == "out" {
                // reflection of the victim's own frame: dialling its own key (F8), dialling somebody else
                for (peer, t) in [(0, json!({"t": "none"})), (1, json!({"t": "none"})), (0, json!({"t": "msg_this"})), (0, json!({"t": "genesis", "g": 1})),
                                  (1, json!({"t": "key", "k": 1})), (4, json!({"t": "resign", "a": 4})), (0, json!({"t": "resign", "a": 4}))] {
                    v.push(base(0, peer, json!({"kind": "reflect", "tweak": t})));
                }
            }
            // replay of a frame recorded from honest key 1 on another session
            for rdir in ["in", "out"] {
                for t in [json!({"t": "none"}), json!({"t": "msg_this"}), json!({"t": "key", "k": 4}), json!({"t": "genesis", "g": 1}), json!({"t": "resign", "a": 4})] {
                    v.push(base(0, 1, json!({"kind": "replay", "me": 1, "rdir": rdir, "genesis": 0, "tweak": t})));
                }
            }
            v.push(base(0, 0, json!({"kind": "replay", "me": 0, "rdir": "out", "genesis": 0, "tweak": {"t": "none"}}))); // own frame of another session
            v.push(base(0, 0, json!({"kind": "replay", "me": 0, "rdir": "out", "genesis": 0, "tweak": {"t": "msg_this"}})));
            // man in the middle between the victim and honest key 1
            let none = json!({"t": "none"});
            for (to, tv) in [(none.clone(), none.clone()), (json!({"t": "msg_this"}), json!({"t": "msg_this"})), (json!({"t": "resign", "a": 4}), none.clone()),
                             (json!({"t": "resign", "a": 4}), json!({"t": "resign", "a": 5})), (none.clone(), json!({"t": "resign", "a": 4})),
                             (json!({"t": "key", "k": 4}), json!({"t": "key", "k": 4})), (json!({"t": "genesis", "g": 1}), none.clone())] {
                v.push(base(0, 1, json!({"kind": "relay", "me": 1, "genesis": 0, "peer": 0, "to_other": to, "to_victim": tv})));
                v.push(base(0, 4, json!({"kind": "relay", "me": 1, "genesis": 0, "peer": 4, "to_other": to, "to_victim": tv})));
            }
        }
    }
    v
}

fn directed_pool() -> Vec<Value> {
    let i = |k: u64, v: u64| json!({"op": "pool_insert", "k": k, "v": v});
    let r = |k: u64| json!({"op": "pool_remove", "k": k});
    let mut v = vec![];
    // a validator pool: members only, one entry each
    v.push(json!({"op": "pool_new", "reset": true, "allowed": [0, 1, 2, 3], "limit": 0}));
    v.extend([i(4, 1), i(1, 2), i(1, 3), i(0, 4), r(1), r(1), i(1, 5), r(7), i(5, 6)]);
    v.push(json!({"op": "pool_batch", "mode": "insert", "ops": [{"o": "i", "k": 2, "v": 7}, {"o": "i", "k": 2, "v": 8}, {"o": "i", "k": 6, "v": 9}, {"o": "i", "k": 3, "v": 10}]}));
    // a quota of two for non-configured peers
    v.push(json!({"op": "pool_new", "reset": true, "allowed": [1], "limit": 2}));
    v.extend([i(5, 1), i(6, 2), i(7, 3), i(1, 4), i(5, 5), r(5), i(7, 6), i(5, 7), r(1), r(6), r(7), i(8, 8), i(9, 9), i(5, 10)]);
    v.push(json!({"op": "pool_batch", "mode": "remove", "ops": [{"o": "r", "k": 8}, {"o": "r", "k": 9}, {"o": "r", "k": 8}, {"o": "r", "k": 2}]}));
    // no configured peers, no quota: nothing gets in; huge quota: everything gets in once
    v.push(json!({"op": "pool_new", "reset": true, "allowed": [], "limit": 0}));
    v.extend([i(0, 1), r(0), i(3, 2)]);
    v.push(json!({"op": "pool_new", "reset": true, "allowed": [], "limit": u64::MAX}));
    v.extend([i(0, 1), i(0, 2), i(3, 3), r(0), i(0, 4)]);
    v.push(json!({"op": "pool_batch", "mode": "mixed", "ops": [{"o": "i", "k": 5, "v": 5}, {"o": "r", "k": 3}, {"o": "i", "k": 3, "v": 6}, {"o": "r", "k": 5}, {"o": "i", "k": 0, "v": 7}]}));
    v.extend(directed_contended());
    v
}

/// Calls queued on the held sender lock: is each `PoolWatch` call one critical section?
fn directed_contended() -> Vec<Value> {
    let ci = |k: u64, v: u64| json!({"o": "i", "k": k, "v": v});
    let cr = |k: u64| json!({"o": "r", "k": k});
    let cont = |ops: Vec<Value>, order: Vec<usize>| json!({"op": "pool_contended", "ops": ops, "order": order});
    let probe = || json!({"op": "pool_probe"});
    let i = |k: u64, v: u64| json!({"op": "pool_insert", "k": k, "v": v});
    let r = |k: u64| json!({"op": "pool_remove", "k": k});
    let mut v = vec![];
    // two / three connections of one non-configured identity at once; then the admitted one leaves
    v.push(json!({"op": "pool_new", "reset": true, "allowed": [1], "limit": 2}));
    v.extend([probe(), cont(vec![ci(5, 10), ci(5, 11)], vec![1, 0]), probe(), r(5), probe()]);
    v.extend([cont(vec![ci(6, 20), ci(6, 21), ci(6, 22)], vec![2, 0, 1]), probe(), cont(vec![ci(7, 30), ci(7, 31)], vec![0, 1]), probe(), r(6), r(7), probe()]);
    // the same for a configured identity (a validator pool)
    v.push(json!({"op": "pool_new", "reset": true, "allowed": [0, 1, 2, 3], "limit": 0}));
    v.extend([cont(vec![ci(1, 10), ci(1, 11), ci(1, 12), ci(1, 13)], vec![3, 2, 1, 0]), probe(), r(1), cont(vec![ci(1, 14), ci(4, 15), ci(1, 16)], vec![1, 2, 0]), probe()]);
    // different identities racing for the last free slot
    v.push(json!({"op": "pool_new", "reset": true, "allowed": [], "limit": 1}));
    v.extend([cont(vec![ci(5, 1), ci(6, 2), ci(7, 3)], vec![2, 1, 0]), probe(), r(5), probe(), cont(vec![ci(6, 4), ci(6, 5), ci(7, 6), ci(7, 7)], vec![0, 2, 1, 3]), probe()]);
    // a reconnect racing with the old connection's removal
    v.push(json!({"op": "pool_new", "reset": true, "allowed": [2], "limit": 2}));
    v.extend([i(5, 1), i(2, 2), cont(vec![cr(5), ci(5, 3), ci(5, 4)], vec![2, 1, 0]), probe(), cont(vec![ci(5, 5), cr(5), ci(5, 6), cr(5)], vec![3, 0, 2, 1]), probe(),
              cont(vec![ci(2, 7), cr(2), ci(2, 8)], vec![1, 0, 2]), probe(), cont(vec![cr(2), cr(2), ci(6, 9), ci(7, 10)], vec![0, 3, 1, 2]), probe(), r(6), r(7), r(2), probe()]);
    v
}

fn directed_node() -> Vec<Value> {
    let mut v = vec![];
    let adv = json!([4, 5]);
    let honest = |me: usize, peer: usize| json!({"kind": "honest", "me": me, "genesis": 0, "peer": peer});
    let own = |k: usize| json!({"kind": "forge", "key": k, "signer": k, "msg": "this", "signed": "this", "genesis": 0});
    let conn = |net: &str, dir: &str, c: u64, peer: usize, remote: Value| json!({"op": "node_conn", "net": net, "dir": dir, "conn": c, "sid": 100 * c, "peer": peer, "adv": adv, "remote": remote});
    // a validator: committee members only, one connection per member and direction, self-dial reflection (F8)
    v.push(json!({"op": "node_new", "reset": true, "me": 0, "vme": 0, "genesis": 0, "committee": [0, 1, 2, 3], "static_in": [1], "dyn_limit": 1, "static_out": [2]}));
    v.push(conn("consensus", "in", 1, 0, honest(1, 0)));
    v.push(conn("consensus", "in", 2, 0, honest(1, 0))); // second connection of the same member
    v.push(conn("consensus", "in", 3, 0, own(4))); // valid handshake of a non-member
    v.push(conn("consensus", "in", 4, 0, json!({"kind": "replay", "me": 2, "rdir": "out", "genesis": 0, "tweak": {"t": "msg_this"}})));
    v.push(json!({"op": "node_close", "conn": 1}));
    v.push(conn("consensus", "in", 5, 0, honest(1, 0)));
    v.push(conn("consensus", "out", 6, 2, honest(2, 0)));
    v.push(conn("consensus", "out", 7, 3, own(4))); // dialled 3, the adversary answers
    v.push(conn("consensus", "out", 8, 4, own(4))); // a non-member proves its key: refused by the pool
    v.push(conn("consensus", "out", 9, 0, json!({"kind": "reflect", "tweak": {"t": "none"}}))); // F8
    v.push(json!({"op": "node_close", "conn": 9}));
    v.push(conn("consensus", "out", 10, 0, honest(0, 0))); // genuine loopback
    v.push(json!({"op": "node_close", "conn": 6}));
    v.push(json!({"op": "node_close", "conn": 10}));
    // gossip: static peers always, others within the quota, outbound only to configured peers
    v.push(json!({"op": "node_new", "reset": true, "me": 0, "vme": null, "genesis": 0, "committee": [0, 1, 2, 3], "static_in": [1], "dyn_limit": 1, "static_out": [2]}));
    v.push(conn("gossip", "in", 1, 0, honest(3, 0)));
    v.push(conn("gossip", "in", 2, 0, own(5))); // quota used up
    v.push(conn("gossip", "in", 3, 0, honest(1, 0))); // static peer
    v.push(conn("gossip", "in", 4, 0, honest(1, 0)));
    v.push(json!({"op": "node_close", "conn": 1}));
    v.push(conn("gossip", "in", 5, 0, own(5)));
    v.push(conn("gossip", "out", 6, 2, honest(2, 0)));
    v.push(conn("gossip", "out", 7, 3, honest(3, 0))); // not configured
    v.push(conn("gossip", "out", 8, 2, honest(2, 0))); // already connected
    v.push(conn("consensus", "in", 9, 0, honest(1, 0))); // no consensus network on this node
    v.push(conn("consensus", "out", 10, 1, honest(1, 0)));
    v.push(json!({"op": "node_close", "conn": 6}));
    v.push(json!({"op": "node_close", "conn": 3}));
    v.push(json!({"op": "node_close", "conn": 77}));
    v
}

impl Prop for C12 {
    fn gen(&mut self, opts: &Opts) -> Vec<Value> {
        let mut rng = opts.rng();
        let mut v = directed_hs();
        v.extend(directed_pool());
        v.extend(directed_node());
        // random handshake scenarios
        for i in 0..opts.n {
            let net = if rng.gen_bool(0.5) { "gossip" } else { "consensus" };
            let dir = if rng.gen_bool(0.5) { Dir::In } else { Dir::Out };
            let adv: Vec<usize> = match rng.gen_range(0..4) { 0 => vec![5], 1 => vec![3, 4], _ => vec![4, 5] };
            let honest: Vec<usize> = (0..N_KEYS).filter(|k| !adv.contains(k)).collect();
            let me = honest[rng.gen_range(0..honest.len())];
            let peer = match rng.gen_range(0..10) { 0 => me, 1 => adv[0], _ => rng.gen_range(0..N_KEYS) };
            let genesis = if rng.gen_bool(0.85) { 0 } else { 1 };
            let remote = gen_remote(&mut rng, dir, me, genesis, peer, &adv);
            v.push(json!({"op": "hs", "reset": true, "net": net, "dir": dirs(dir), "me": me, "genesis": genesis, "peer": peer,
                          "sid": 1 + 2 * (i % 400), "adv": adv, "remote": remote}));
        }
        // random pool cases
        for _ in 0..opts.n / 2 {
            let allowed: Vec<u64> = (0..8u64).filter(|_| rng.gen_bool(0.4)).collect();
            let limit: u64 = *[0u64, 0, 1, 1, 2, 3, 1000, u64::MAX].choose(&mut rng).unwrap();
            v.push(json!({"op": "pool_new", "reset": true, "allowed": allowed, "limit": limit}));
            let mut val = 0u64;
            for _ in 0..rng.gen_range(4..16) {
                val += 1;
                if rng.gen_bool(0.68) {
                    v.push(json!({"op": "pool_insert", "k": rng.gen_range(0..9u64), "v": val}));
                } else {
                    v.push(json!({"op": "pool_remove", "k": rng.gen_range(0..9u64)}));
                }
            }
            // forced contention on the held lock (the case continues afterwards: the outcome is determined)
            for _ in 0..rng.gen_range(0..3) {
                let k = rng.gen_range(2..=4usize);
                let hot = rng.gen_range(0..9u64);
                let ops: Vec<Value> = (0..k)
                    .map(|_| {
                        val += 1;
                        let key = if rng.gen_bool(0.7) { hot } else { rng.gen_range(0..9u64) };
                        if rng.gen_bool(0.75) { json!({"o": "i", "k": key, "v": val}) } else { json!({"o": "r", "k": key}) }
                    })
                    .collect();
                let mut order: Vec<usize> = (0..k).collect();
                order.shuffle(&mut rng);
                v.push(json!({"op": "pool_contended", "ops": ops, "order": order}));
                v.push(json!({"op": "pool_probe"}));
                if rng.gen_bool(0.5) {
                    v.push(json!({"op": "pool_remove", "k": hot}));
                    v.push(json!({"op": "pool_probe"}));
                }
            }
            if rng.gen_bool(0.6) {
                let mode = *["insert", "insert", "remove", "mixed"].choose(&mut rng).unwrap();
                let ops: Vec<Value> = (0..rng.gen_range(2..7))
                    .map(|j| {
                        let ins = match mode { "insert" => true, "remove" => false, _ => rng.gen_bool(0.6) };
                        if ins { json!({"o": "i", "k": rng.gen_range(0..9u64), "v": 100 + j}) } else { json!({"o": "r", "k": rng.gen_range(0..9u64)}) }
                    })
                    .collect();
                v.push(json!({"op": "pool_batch", "mode": mode, "ops": ops}));
            }
        }
        // random node cases
        for _ in 0..opts.n / 25 {
            let vme: Value = match rng.gen_range(0..5) { 0 => Value::Null, 1 => json!(4), _ => json!(0) };
            let sub = |rng: &mut StdRng, from: &[usize]| -> Vec<usize> { from.iter().copied().filter(|_| rng.gen_bool(0.5)).collect() };
            let static_in = sub(&mut rng, &[1, 2, 5]);
            let static_out = sub(&mut rng, &[1, 2, 3, 4]);
            v.push(json!({"op": "node_new", "reset": true, "me": 0, "vme": vme, "genesis": 0, "committee": [0, 1, 2, 3],
                          "static_in": static_in, "dyn_limit": rng.gen_range(0..3), "static_out": static_out}));
            let adv = vec![4usize, 5];
            let mut c = 0u64;
            for _ in 0..rng.gen_range(4..10) {
                if c > 0 && rng.gen_bool(0.25) {
                    v.push(json!({"op": "node_close", "conn": rng.gen_range(1..=c)}));
                    continue;
                }
                c += 1;
                let net = if rng.gen_bool(0.5) { "gossip" } else { "consensus" };
                let dir = if rng.gen_bool(0.6) { Dir::In } else { Dir::Out };
                let own = if net == "gossip" { 0 } else { vme.as_u64().unwrap_or(0) as usize };
                let peer = match rng.gen_range(0..8) { 0 => own, _ => rng.gen_range(0..N_KEYS) };
                // at the node level mostly peers that complete the handshake: honest ones and the adversary under its own keys
                let remote = match rng.gen_range(0..10) {
                    0..=4 => {
                        let r = if dir == Dir::Out { peer } else { rng.gen_range(0..4) };
                        if adv.contains(&r) { json!({"kind": "forge", "key": r, "signer": r, "msg": "this", "signed": "this", "genesis": 0}) }
                        else { json!({"kind": "honest", "me": r, "genesis": 0, "peer": own}) }
                    }
                    5 => { let a = adv[rng.gen_range(0..2)]; json!({"kind": "forge", "key": a, "signer": a, "msg": "this", "signed": "this", "genesis": 0}) }
                    _ => {
                        let mut r = gen_remote(&mut rng, dir, own, 0, peer, &adv);
                        if r["kind"] == "relay" { r = json!({"kind": "reflect", "tweak": {"t": "none"}}); }
                        if r["kind"] == "reflect" && dir == Dir::In { r = json!({"kind": "malformed", "how": "eof"}); }
                        r
                    }
                };
                v.push(json!({"op": "node_conn", "net": net, "dir": dirs(dir), "conn": c, "sid": 100 * c, "peer": peer, "adv": adv, "remote": remote}));
            }
        }
        v
    }

    fn exec(&mut self, op: &Value, out: &mut Out) -> Value {
        let name = op["op"].as_str().unwrap_or("?").to_string();
        if name == "case" {
            // a whole stateful case as one line (the replay form of a pool / node monitor failure)
            let mut last = json!({"bad_op": true});
            for o in op["ops"].as_array().cloned().unwrap_or_default() {
                last = self.exec(&o, out);
            }
            return last;
        }
        if op["reset"].as_bool() == Some(true) {
            self.case_ops.clear();
        }
        if name != "hs" {
            self.case_ops.push(op.clone());
        }
        let r = catch(|| {
            if name == "hs" {
                self.exec_hs(op, out)
            } else if name.starts_with("pool_") {
                self.exec_pool(op, out)
            } else if name.starts_with("node_") {
                self.exec_node(op, out)
            } else {
                panic!("unknown op {name}")
            }
        });
        match r {
            Ok(v) => v,
            Err(site) => {
                out.oracle_fail(&format!("panic/{name}"), &format!("panicked: {site}"), if name == "hs" { op.clone() } else { self.case_input() });
                json!({"panic": site})
            }
        }
    }
}

fn main() {
    vharness::main_for(&mut C12::new());
}
