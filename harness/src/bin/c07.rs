//! C07: the three threshold functions of `schedule.rs` on a boundary + random set of total weights.
use rand::Rng;
use serde_json::json;
use zksync_consensus_roles::validator::{max_faulty_weight, quorum_threshold, subquorum_threshold};

use serde_json::Value;

use vharness::{catch, Opts, Out, Prop};

pub struct C07;

fn inputs(opts: &Opts) -> Vec<u64> {
    let mut v: Vec<u64> = (1..=200).collect();
    for base in [1u64 << 8, 1 << 16, 1 << 31, 1 << 32, 1 << 53, 1 << 62, 1 << 63, u64::MAX / 5, u64::MAX / 3, u64::MAX / 2] {
        for d in 0..12u64 {
            v.push(base.saturating_sub(6).saturating_add(d).max(1));
        }
    }
    for d in 0..16u64 {
        v.push(u64::MAX - d);
    }
    let mut rng = opts.rng();
    for _ in 0..opts.n {
        let bits = rng.gen_range(1..=64);
        let x: u64 = rng.gen::<u64>() >> (64 - bits);
        v.push(x.max(1));
    }
    v
}

impl Prop for C07 {
    fn gen(&mut self, opts: &Opts) -> Vec<Value> {
        inputs(opts).into_iter().map(|n| json!({"n": n})).collect()
    }

    fn exec(&mut self, op: &Value, out: &mut Out) -> Value {
        let n = op["n"].as_u64().expect("n");
        let r = catch(|| (max_faulty_weight(n), quorum_threshold(n), subquorum_threshold(n)));
        match r {
            Ok((f, q, s)) => {
                out.count(&format!("n_mod_5={}", n % 5));
                // S: the property's inequalities evaluated on the implementation's own results (in u128).
                let (n_, f_, q_, s_) = (n as u128, f as u128, q as u128, s as u128);
                let ok = n_ >= 1
                    && 5 * f_ + 1 <= n_
                    && q_ + f_ == n_
                    && s_ + 3 * f_ == n_
                    && 2 * q_ > n_ + f_
                    && 2 * q_ - n_ - f_ >= s_
                    && 2 * f_ < s_
                    && f_ == (n_ - 1) / 5;
                if !ok {
                    out.oracle_fail("thresholds", "intersection arithmetic violated", json!({"n": n, "f": f, "q": q, "s": s}));
                }
                json!({"f": f, "q": q, "s": s})
            }
            Err(site) => {
                out.oracle_fail(&site, "threshold computation panicked", json!({"n": n}));
                json!({"panic": site})
            }
        }
    }
}

fn main() {
    vharness::main_for(&mut C07);
}
