//! C07: the three threshold functions of `schedule.rs` on a boundary + random set of total weights.
use rand::{Rng, SeedableRng};
use serde_json::json;
use zksync_consensus_roles::validator::{
    self, max_faulty_weight, quorum_threshold, subquorum_threshold, LeaderSelection, LeaderSelectionMode, Schedule, ValidatorInfo,
};

use serde_json::Value;

use vharness::{catch, Opts, Out, Prop};

pub struct C07 {
    keys: Vec<validator::PublicKey>,
}

const NKEYS: usize = 8;

/// Committees for `Schedule::new`: `[key id, weight, leader]` triples. Families around the 64-bit boundary of the total
/// weight with every split between leaders and non-leaders, plus zero weights, repeated keys, no leader, empty.
fn committees(opts: &Opts) -> Vec<Value> {
    let mut rng = opts.rng();
    let mut out: Vec<Vec<(u64, u64, bool)>> = vec![];
    let k = if opts.thorough { opts.n / 20 } else { opts.n / 10 }.max(200);
    for i in 0..k {
        let n = rng.gen_range(1..=NKEYS as u64);
        let mut c: Vec<(u64, u64, bool)> = vec![];
        let shape = i % 8;
        // target sum: exactly 2^64-1, 2^64, 2^64+small, 2^63.., or random
        let target: u128 = match shape {
            0 => u64::MAX as u128,
            1 => (u64::MAX as u128) + 1,
            2 => (u64::MAX as u128) + 1 + rng.gen_range(0..5u128),
            3 => (u64::MAX as u128) - rng.gen_range(0..5u128),
            4 => (1u128 << 64) + (1u128 << rng.gen_range(1..64)),
            5 => 3u128 << 62,
            _ => 0,
        };
        if target > 0 && n >= 2 {
            // n weights that sum to target (each < 2^64), random split points
            let mut rest = target;
            for j in 0..n {
                let left = (n - j) as u128;
                let w: u128 = if left == 1 {
                    rest
                } else {
                    let lo = rest.saturating_sub((left - 1) * (u64::MAX as u128)).max(1);
                    let hi = (rest - (left - 1)).min(u64::MAX as u128);
                    if rng.gen_bool(0.5) { rng.gen_range(lo..=hi) } else { (rest / left).clamp(lo, hi) }
                };
                rest -= w;
                c.push((j, w.min(u64::MAX as u128) as u64, rng.gen_bool(0.5)));
            }
        } else {
            for j in 0..n {
                let bits = rng.gen_range(1..=64);
                c.push((j, (rng.gen::<u64>() >> (64 - bits)).max(1), rng.gen_bool(0.6)));
            }
        }
        // the split that a per-class tally cannot see: each class fits, the whole does not
        if shape == 5 {
            for (j, v) in c.iter_mut().enumerate() {
                v.2 = j % 2 == 0;
            }
        }
        match rng.gen_range(0..20) {
            0 => c[0].1 = 0,
            1 if c.len() > 1 => c[1].0 = c[0].0,
            // the same validator listed twice (identical entry): still a repeated key
            6 if !c.is_empty() => {
                let d = c[0];
                let at = rng.gen_range(0..=c.len());
                c.insert(at, d);
            }
            2 => c.iter_mut().for_each(|v| v.2 = false),
            3 => c.iter_mut().for_each(|v| v.2 = true),
            4 => c.clear(),
            5 => {
                use rand::seq::SliceRandom;
                c.shuffle(&mut rng)
            }
            _ => {}
        }
        out.push(c);
    }
    out.into_iter().map(|c| json!({"sched": c.into_iter().map(|(k, w, l)| json!([k, w, l])).collect::<Vec<_>>()})).collect()
}

fn inputs(opts: &Opts) -> Vec<u64> {
    let mut v: Vec<u64> = (1..=200).collect();
    for base in [1u64 << 8, 1 << 16, 1 << 31, 1 << 32, 1 << 53, 1 << 62, 1 << 63, u64::MAX / 5, u64::MAX / 3, u64::MAX / 2] {
        for d in 0..12u64 {
            v.push(base.saturating_sub(6).saturating_add(d).max(1));
        }
    }
    for d in 0..16u64 {
        v.push(u64::MAX - d);
    }
    let mut rng = opts.rng();
    for _ in 0..opts.n {
        let bits = rng.gen_range(1..=64);
        let x: u64 = rng.gen::<u64>() >> (64 - bits);
        v.push(x.max(1));
    }
    v
}

impl Prop for C07 {
    fn gen(&mut self, opts: &Opts) -> Vec<Value> {
        let mut v: Vec<Value> = inputs(opts).into_iter().map(|n| json!({"n": n})).collect();
        v.extend(committees(opts));
        v
    }

    fn exec(&mut self, op: &Value, out: &mut Out) -> Value {
        if let Some(c) = op.get("sched") {
            return self.exec_sched(c.as_array().expect("sched"), op, out);
        }
        let n = op["n"].as_u64().expect("n");
        let r = catch(|| (max_faulty_weight(n), quorum_threshold(n), subquorum_threshold(n)));
        match r {
            Ok((f, q, s)) => {
                out.count(&format!("n_mod_5={}", n % 5));
                // S: the property's inequalities evaluated on the implementation's own results (in u128).
                let (n_, f_, q_, s_) = (n as u128, f as u128, q as u128, s as u128);
                let ok = n_ >= 1
                    && 5 * f_ + 1 <= n_
                    && q_ + f_ == n_
                    && s_ + 3 * f_ == n_
                    && 2 * q_ > n_ + f_
                    && 2 * q_ - n_ - f_ >= s_
                    && 2 * f_ < s_
                    && f_ == (n_ - 1) / 5;
                if !ok {
                    out.oracle_fail("thresholds", "intersection arithmetic violated", json!({"n": n, "f": f, "q": q, "s": s}));
                }
                json!({"f": f, "q": q, "s": s})
            }
            Err(site) => {
                out.oracle_fail(&site, "threshold computation panicked", json!({"n": n}));
                json!({"panic": site})
            }
        }
    }
}

impl C07 {
    /// `Schedule::new` on a committee; S: an accepted committee records its true weight, an unrepresentable one is refused.
    fn exec_sched(&mut self, c: &[Value], op: &Value, out: &mut Out) -> Value {
        let vs: Vec<(usize, u64, bool)> =
            c.iter().map(|v| (v[0].as_u64().unwrap() as usize, v[1].as_u64().unwrap(), v[2].as_bool().unwrap())).collect();
        let infos: Vec<ValidatorInfo> =
            vs.iter().map(|(k, w, l)| ValidatorInfo { key: self.keys[*k].clone(), weight: *w, leader: *l }).collect();
        let truth: u128 = vs.iter().map(|v| v.1 as u128).sum();
        let wellformed = !vs.is_empty()
            && vs.iter().all(|v| v.1 > 0)
            && vs.iter().any(|v| v.2)
            && (0..vs.len()).all(|i| (0..i).all(|j| vs[i].0 != vs[j].0));
        let r = catch(|| {
            Schedule::new(infos, LeaderSelection { frequency: 1, mode: LeaderSelectionMode::RoundRobin })
                .ok()
                .map(|s| (s.total_weight(), s.max_faulty_weight(), s.quorum_threshold(), s.subquorum_threshold()))
        });
        match r {
            Ok(Some((t, f, q, s))) => {
                out.count("sched=accepted");
                let (n_, f_, q_, s_) = (t as u128, f as u128, q as u128, s as u128);
                if n_ != truth || !wellformed {
                    out.oracle_fail(
                        "schedule_new",
                        "committee accepted although malformed or with a recorded total weight different from the sum of the weights",
                        json!({"op": op, "true_total": truth.to_string(), "recorded_total": t, "f": f, "q": q, "s": s}),
                    );
                } else if !(5 * f_ + 1 <= n_ && q_ + f_ == n_ && s_ + 3 * f_ == n_ && 2 * f_ < s_) {
                    out.oracle_fail("schedule_new", "thresholds of an accepted committee violate the intersection arithmetic", op.clone());
                }
                json!({"ok": true, "total": t, "f": f, "q": q, "s": s})
            }
            Ok(None) => {
                out.count(if truth > u64::MAX as u128 { "sched=rejected_overflow" } else { "sched=rejected_other" });
                if wellformed && truth <= u64::MAX as u128 {
                    out.oracle_fail("schedule_new", "well-formed committee with representable weight refused", op.clone());
                }
                json!({"ok": false})
            }
            Err(site) => {
                out.oracle_fail(&site, "Schedule::new panicked", op.clone());
                json!({"panic": site})
            }
        }
    }
}

fn main() {
    let mut rng = rand::rngs::StdRng::seed_from_u64(7);
    let mut keys: Vec<validator::PublicKey> = (0..NKEYS).map(|_| rng.gen::<validator::SecretKey>().public()).collect();
    keys.sort();
    vharness::main_for(&mut C07 { keys });
}
