//! C02: certificate uniqueness / the re-proposal rule.
//!  (1) decision function: `ProposalJustification::get_implied_block` (with `TimeoutQC::{high_vote, high_qc}`) on
//!      enumerated timeout certificates vs the Lean `impliedBlock`, and vs the sub-quorum rule of the specification;
//!  (2) the replica's use of it (`on_proposal`: payload present/absent, forced re-proposal) through the replica
//!      correspondence.
use rand::{seq::SliceRandom, Rng};
use serde_json::{json, Value};
use vharness::{abs::*, catch, certgen::*, replica::{Mode, ReplicaProp}, Opts, Out, Prop};
use zksync_consensus_roles::validator::{self, v2};

struct C02 {
    inner: ReplicaProp,
    w: Option<World>,
}

/// Builds the real certificate without signatures (the decision functions take an already verified certificate).
fn real_tqc(w: &mut World, q: &ATqc) -> (v2::TimeoutQC, ATqc) {
    let mut map = std::collections::BTreeMap::new();
    let mut back = vec![];
    for (t, s) in &q.map {
        let rt = v2::ReplicaTimeout {
            view: w.view(&t.view),
            high_vote: t.hv.as_ref().map(|v| w.vote(v)),
            high_qc: t.hq.as_ref().map(|c| v2::CommitQC {
                message: w.vote(&c.vote),
                signers: w.signers(&c.signers),
                signature: validator::AggregateSignature::default(),
            }),
        };
        map.insert(rt.clone(), w.signers(s));
        back.push((rt, t.clone()));
    }
    let ordered: Vec<(ATVote, Vec<bool>)> = map
        .iter()
        .map(|(rt, s)| (back.iter().rev().find(|(r, _)| r == rt).unwrap().1.clone(), s.0.iter().collect()))
        .collect();
    let view = w.view(&q.view);
    (
        v2::TimeoutQC { view, map, signature: validator::AggregateSignature::default() },
        ATqc { view: q.view.clone(), map: ordered, sig: vec![] },
    )
}

/// leader eligibility of the committee of a world: irrelevant for certificates; odd world seeds make only some eligible
fn leaders_for(wseed: u64, n: usize) -> Vec<bool> {
    let mut l: Vec<bool> = (0..n).map(|i| wseed % 2 == 0 || (wseed >> (1 + i % 16)) & 1 == 1).collect();
    if !l.iter().any(|x| *x) {
        l[(wseed as usize / 2) % n] = true;
    }
    l
}

fn sel() -> validator::LeaderSelection {
    validator::LeaderSelection { frequency: 1, mode: validator::LeaderSelectionMode::RoundRobin }
}

impl Prop for C02 {
    fn gen(&mut self, opts: &Opts) -> Vec<Value> {
        let mut rng = opts.rng();
        let mut ops = vec![];
        let ncomm = if opts.thorough { 60 } else { 8 };
        let per = (opts.n / ncomm).max(30);
        for ci in 0..ncomm {
            let weights: Vec<u64> = match ci {
                0 => vec![1; 6],
                1 => vec![1; 11],
                2 => vec![3, 1, 1, 1, 2, 1],
                _ => {
                    let n = rng.gen_range(1..=7);
                    (0..n).map(|_| *[1u64, 2, 3].choose(&mut rng).unwrap()).collect()
                }
            };
            let n = weights.len();
            let first = rng.gen_range(0..3u64);
            let wseed = rng.gen_range(0..1000u64);
            let mut w = World::new(wseed, &weights, &leaders_for(wseed, n), sel(), first);
            ops.push(json!({"op":"init","reset":true,"weights":weights,"first":first,"wseed":wseed,"me":0,"max_payload":1000,"pure":true}));
            for _ in 0..per {
                // contents: high vote ∈ {none, A, B, A'(same number other hash)}, high certificate ∈ {none, q1, q2, q3}
                let view = rng.gen_range(1..6u64);
                let base = rng.gen_range(0..4u64);
                // A, A cast in an older view (same block, different vote), B (same number, other hash), the certified block, a higher block
                let hvs = [None, Some(avote(view, base + 1, 1)), Some(avote(view.saturating_sub(1), base + 1, 1)), Some(avote(view.saturating_sub(2), base + 1, 1)),
                    Some(avote(view, base + 1, 2)), Some(avote(view.saturating_sub(1), base, 1)), Some(avote(view, base + 2, 1))];
                let all: Vec<usize> = (0..n).collect();
                let hqs = [None, Some(acqc(n, avote(view.saturating_sub(1), base, 1), &all)), Some(acqc(n, avote(view.saturating_sub(1), base, 3), &all[..n.min(1)])),
                    Some(acqc(n, avote(view + 3, base + 1, 1), &all)), Some(acqc(n, avote(0, 0, 9), &all))];
                // partition a random signer subset into 1..4 groups with distinct contents
                let signers = random_subset(&mut rng, &weights);
                let ng = rng.gen_range(1..=4usize);
                let mut contents: Vec<ATVote> = vec![];
                while contents.len() < ng {
                    let t = ATVote { view: aview(view), hv: hvs.choose(&mut rng).unwrap().clone(), hq: hqs.choose(&mut rng).unwrap().clone() };
                    if !contents.contains(&t) {
                        contents.push(t);
                    }
                }
                let mut groups: Vec<(ATVote, Vec<usize>)> = contents.into_iter().map(|t| (t, vec![])).collect();
                for i in &signers {
                    let g = rng.gen_range(0..ng);
                    groups[g].1.push(*i);
                }
                groups.retain(|g| !g.1.is_empty());
                if groups.is_empty() {
                    continue;
                }
                let q = atqc(n, aview(view), &groups);
                let (_, ordered) = real_tqc(&mut w, &q);
                ops.push(json!({"op":"implied","just":{"timeout":ordered}}));
                if rng.gen_bool(0.1) {
                    ops.push(json!({"op":"implied","just":{"commit": acqc(n, avote(view, base, 1), &all)}}));
                }
            }
        }
        ops
    }

    fn exec(&mut self, op: &Value, out: &mut Out) -> Value {
        let kind = op["op"].as_str().unwrap_or("");
        if kind == "init" && op.get("pure").is_some() {
            let weights: Vec<u64> = serde_json::from_value(op["weights"].clone()).unwrap();
            self.w = Some(World::new(op["wseed"].as_u64().unwrap_or(0), &weights, &leaders_for(op["wseed"].as_u64().unwrap_or(0), weights.len()), sel(), op["first"].as_u64().unwrap_or(0)));
            out.count("op=init(pure)");
            // same observation shape as the replica init (the model driver prints class + snap; only class is compared here)
            return json!({"class":"init"});
        }
        if kind != "implied" {
            return self.inner.exec(op, out);
        }
        out.count("op=implied");
        let w = self.w.as_mut().expect("init first");
        let aj: AJust = serde_json::from_value(op["just"].clone()).unwrap();
        let (sched, first, weights) = (w.schedule.clone(), w.first, w.weights.clone());
        let rj = match &aj {
            AJust::Commit(c) => v2::ProposalJustification::Commit(v2::CommitQC {
                message: w.vote(&c.vote),
                signers: w.signers(&c.signers),
                signature: validator::AggregateSignature::default(),
            }),
            AJust::Timeout(q) => v2::ProposalJustification::Timeout(real_tqc(w, q).0),
        };
        match catch(|| {
            let (n, h) = rj.get_implied_block(&sched, first);
            let (hv, hq) = match &rj {
                v2::ProposalJustification::Timeout(q) => (q.high_vote(&sched), q.high_qc().map(|c| c.view().number.0)),
                _ => (None, None),
            };
            (n, h, hv, hq)
        }) {
            Ok((n, h, hv, hq)) => {
                let hid = h.map(|h| w.hash_id(&h));
                let spec = spec_implied(&weights, first.0, &aj);
                out.count(&format!("implied/{}", if hid.is_some() { "reproposal" } else { "fresh" }));
                if (n.0, hid) != spec {
                    out.oracle_fail("get_implied_block", "implied block differs from the sub-quorum rule of the specification", op.clone());
                }
                let hvj = hv.map(|h| vec![h.number.0, w.hash_id(&h.payload)]);
                json!({"num": n.0, "hash": hid, "hv": hvj, "hq_view": hq})
            }
            Err(site) => {
                out.oracle_fail(&site, "get_implied_block panicked", op.clone());
                json!({"panic": site})
            }
        }
    }

    fn adaptive(&mut self, opts: &Opts, out: &mut Out) -> bool {
        // (2) the replica's use of the rule
        let mut o = opts.clone();
        o.n = (opts.n / 4).max(120);
        self.inner.adaptive(&o, out)
    }
}

fn main() {
    vharness::main_for(&mut C02 { inner: ReplicaProp::new(Mode::Handlers, "C02"), w: None });
}
