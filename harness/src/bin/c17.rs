//! C17: task scopes (`zksync_concurrency::scope`) — trace acceptance.
//!
//! One op = one scripted program (a tree of tasks: main/background, async/blocking, nested scopes, tasks spawning
//! tasks, tasks failing / panicking / cancelling / waiting for cancellation at scripted points) run once on the
//! multi-thread tokio runtime, under one of several yield/jitter patterns (`sched`). The instrumented library
//! (`zksync_concurrency::verif`, feature `verif`) and the harness write their markers into one totally ordered log;
//! the log is canonicalised (addresses -> scope ids, the markers of one critical section merged into one event) and
//! stored **in the op line** (`"log"`), together with the program. The Lean driver replays the log through the
//! model's `step?` (accept / first rejected event) and recomputes the result the scope must return for that log;
//! the implementation's observation is `accepted: true, complete: true` plus the result `run!` really returned.
//! Real schedules differ between runs, so the op lines differ; the verdict does not.
//!
//! Markers (where they are written relative to the atomic action they stand for):
//!   harness  `spawn p c req`      before `s.spawn*(..)`            `start c main`   first statement of the body (kind
//!            `end t out val`      last statement of the body /     noted by `Task::run*` on the same thread just before)
//!                                 while unwinding                  `obs t c`        after the cancellation was observed
//!            `cancel s t`         before `s.cancel()`              `advance d`      before `clock.advance(d)`
//!            `ctxnew c p dl`      after `p.with_timeout(..)`       `ret s r`        after `run` returned / while it unwinds
//!   library  `make`               in `run`, after `State::make`    `rgd`            before `drop(guard)` in `run`
//!            `seterr_enter/_stored` inside the `err` mutex         `ctx_cancel`     before `canceled.send()` in `Ctx::cancel`
//!            `cgd`, `tgd`         first statement of the two `Drop` impls           `rel`  right before a task drops its guard
//!
//! Because the op line is only known after the run, this binary has its own driver loop (`drive`) instead of
//! `vharness::drive`; it writes the same four files through `vharness::Out`.
//!
//! Replay: an op of a replay file carries the log of the failing run for diagnosis only (it was recorded on another
//! build); the program is run again on the current code, 3 times under each jitter pattern.
//!
//! Monitors on the implementation alone (S), evaluated on every log: see `monitors`.
use std::{
    collections::{BTreeMap, HashMap, HashSet},
    future::Future,
    pin::Pin,
    sync::atomic::{AtomicI64, AtomicU64, Ordering},
};

use rand::{rngs::StdRng, seq::SliceRandom, Rng};
use serde::{Deserialize, Serialize};
use serde_json::{json, Value};
use vharness::{catch, Opts, Out, Prop};
use zksync_concurrency::{ctx, scope, time, verif};

// ---------------------------------------------------------------------------------------------- programs

#[derive(Clone, Debug, Serialize, Deserialize)]
struct ScopeSpec {
    sid: u64,
    /// id of the scope's own context
    ctx: u64,
    /// `Some((id, ms))`: the caller passes `parent.with_timeout(ms)` (context `id`) instead of its own context
    #[serde(default)]
    timeout: Option<(u64, u64)>,
    /// `run_blocking!` (root is a blocking closure) instead of `run!`
    blocking: bool,
    root: TaskSpec,
}

#[derive(Clone, Debug, Serialize, Deserialize)]
struct TaskSpec {
    tid: u64,
    /// spawned with `spawn`/`spawn_blocking` (true) or `spawn_bg`/`spawn_bg_blocking` (false)
    main: bool,
    blocking: bool,
    steps: Vec<Step>,
    /// 0 = Ok(val), 1 = Err(val), 2 = panic
    end: u8,
    val: u64,
}

#[derive(Clone, Debug, Serialize, Deserialize)]
#[serde(rename_all = "snake_case")]
enum Step {
    Spawn(TaskSpec),
    Yield(u32),
    Spin(u32),
    /// wait until the task's context is cancelled
    Wait,
    /// `ctx.is_active()`
    Probe,
    /// nested scope; `prop`: if it returns an error the task returns its own error at once
    Scope { spec: ScopeSpec, prop: bool },
    /// `Scope::cancel`
    Cancel,
    /// advance the manual clock by so many ms
    Advance(u64),
}

#[derive(Clone, Debug, Default)]
struct TaskInfo {
    scope: u64,
    parent: u64, // 0 = root of its scope
    main: bool,
    end: u8,
    val: u64,
}

#[derive(Clone, Debug, Default)]
struct ScopeInfo {
    ctx: u64,
    parent_ctx: u64,
    owner: u64, // 0 = none
    root: u64,
    outer: Option<u64>,
}

#[derive(Default)]
struct Tables {
    tasks: BTreeMap<u64, TaskInfo>,
    scopes: BTreeMap<u64, ScopeInfo>,
    /// ctx id -> parent ctx id
    ctx_parent: BTreeMap<u64, u64>,
    n_blocking: usize,
    n_wait: usize,
    max_depth: usize,
}

impl Tables {
    fn of(top: &ScopeSpec) -> Self {
        let mut t = Tables::default();
        t.scope(top, 0, 0, None, 1);
        t
    }
    fn scope(&mut self, s: &ScopeSpec, caller_ctx: u64, owner: u64, outer: Option<u64>, depth: usize) {
        self.max_depth = self.max_depth.max(depth);
        let parent_ctx = match s.timeout {
            Some((id, _)) => {
                self.ctx_parent.insert(id, caller_ctx);
                id
            }
            None => caller_ctx,
        };
        self.ctx_parent.insert(s.ctx, parent_ctx);
        self.scopes.insert(s.sid, ScopeInfo { ctx: s.ctx, parent_ctx, owner, root: s.root.tid, outer });
        self.task(&s.root, s, 0, depth);
    }
    fn task(&mut self, t: &TaskSpec, s: &ScopeSpec, parent: u64, depth: usize) {
        self.tasks.insert(t.tid, TaskInfo { scope: s.sid, parent, main: t.main, end: t.end, val: t.val });
        if t.blocking {
            self.n_blocking += 1;
        }
        for st in &t.steps {
            match st {
                Step::Spawn(c) => self.task(c, s, t.tid, depth),
                Step::Scope { spec, .. } => self.scope(spec, s.ctx, t.tid, Some(s.sid), depth + 1),
                Step::Wait => self.n_wait += 1,
                _ => {}
            }
        }
    }
    /// is task `t` inside scope `s`, directly or through nested scopes
    fn under(&self, t: u64, s: u64) -> bool {
        let mut cur = self.tasks.get(&t).map(|x| x.scope);
        while let Some(c) = cur {
            if c == s {
                return true;
            }
            cur = self.scopes.get(&c).and_then(|x| x.outer);
        }
        false
    }
}

// ---------------------------------------------------------------------------------------------- interpreter

struct Env {
    clock: ctx::ManualClock,
    t0: time::Instant,
    sched: u64,
    /// tasks spawned and not yet at the end of their body
    live: AtomicI64,
    /// the same per scope (indexed by scope id)
    live_scope: Vec<AtomicI64>,
    timeouts: AtomicU64,
    wait_ms: u64,
}

fn hev(v: Value) {
    verif::hevent(|| v.to_string());
}

impl Env {
    fn jitter(&self, tid: u64, step: usize) -> u64 {
        if self.sched == 0 {
            return 0;
        }
        let mut x = self.sched.wrapping_mul(0x9E37_79B9_7F4A_7C15) ^ tid.wrapping_mul(0xBF58_476D_1CE4_E5B9) ^ (step as u64).wrapping_mul(0x94D0_49BB_1331_11EB);
        x ^= x >> 31;
        x = x.wrapping_mul(0xD6E8_FEB8_6659_FD93);
        x ^= x >> 29;
        x % 5
    }
    fn deadline_ms(&self, c: &ctx::Ctx) -> Option<u64> {
        match c.deadline() {
            time::Deadline::Finite(t) => Some((t - self.t0).whole_milliseconds().max(0) as u64),
            time::Deadline::Infinite => None,
        }
    }
    fn wait_dur(&self) -> std::time::Duration {
        // after the first few lost cancellations do not spend the full timeout on every further one
        let ms = if self.timeouts.load(Ordering::Relaxed) >= 2 { self.wait_ms.min(200) } else { self.wait_ms };
        std::time::Duration::from_millis(ms)
    }
}

fn spin(n: u32) {
    for _ in 0..n {
        std::hint::spin_loop();
    }
}

/// emits `end t panic` if the body unwinds
struct EndGuard<'a> {
    env: &'a Env,
    tid: u64,
    sid: u64,
    done: bool,
}

/// Declared right after the `Scope` object, so dropped right before it: holds the `Scope` (which the tasks borrow)
/// alive until no task of the scope is running any more. On the unchanged code `run` has already joined them all, so
/// this never waits; if `run` returns early (that is a violation, reported by the monitors and the model from the log)
/// it keeps the stragglers from using a freed `Scope`.
struct Quiesce<'a> {
    env: &'a Env,
    sid: u64,
    done: bool,
}

impl Quiesce<'_> {
    /// `run` returned `r`
    fn finish(&mut self, r: &Result<u64, u64>) {
        self.done = true;
        match r {
            Ok(v) => hev(json!(["ret", self.sid, 0, v])),
            Err(e) => hev(json!(["ret", self.sid, 1, e])),
        }
    }
}

impl Drop for Quiesce<'_> {
    fn drop(&mut self) {
        if !self.done {
            // `run` unwinds: it re-raises a task's panic
            hev(json!(["ret", self.sid, 2, 0]));
        }
        let t = std::time::Instant::now();
        let limit = std::time::Duration::from_millis(2 * self.env.wait_ms + 2000);
        while self.env.live_scope[self.sid as usize].load(Ordering::SeqCst) > 0 && t.elapsed() < limit {
            std::thread::sleep(std::time::Duration::from_millis(1));
        }
    }
}

impl EndGuard<'_> {
    fn finish(&mut self, out: u8, val: u64) {
        self.done = true;
        verif::set_current_task(self.tid);
        hev(json!(["end", self.tid, out, val]));
        self.env.live_scope[self.sid as usize].fetch_sub(1, Ordering::SeqCst);
        self.env.live.fetch_sub(1, Ordering::SeqCst);
    }
}

impl Drop for EndGuard<'_> {
    fn drop(&mut self) {
        if !self.done {
            self.finish(2, 0);
        }
    }
}

type BoxFut<'a> = Pin<Box<dyn Future<Output = Result<u64, u64>> + Send + 'a>>;
type S<'env> = scope::Scope<'env, u64>;

fn start_event(tid: u64) {
    match verif::take_kind() {
        Some(main) => hev(json!(["start", tid, main])),
        None => hev(json!(["start_without_kind", tid])),
    }
}

fn spawn_child<'env>(env: &'env Env, cx: &'env ctx::Ctx, cid: u64, s: &'env S<'env>, sid: u64, me: u64, c: &'env TaskSpec) {
    env.live.fetch_add(1, Ordering::SeqCst);
    env.live_scope[sid as usize].fetch_add(1, Ordering::SeqCst);
    hev(json!(["spawn", me, c.tid, c.main]));
    match (c.main, c.blocking) {
        (true, false) => drop(s.spawn(body_async(env, cx, cid, s, sid, c))),
        (false, false) => drop(s.spawn_bg(body_async(env, cx, cid, s, sid, c))),
        (true, true) => drop(s.spawn_blocking(move || body_blocking(env, cx, cid, s, sid, c))),
        (false, true) => drop(s.spawn_bg_blocking(move || body_blocking(env, cx, cid, s, sid, c))),
    }
}

/// the caller's context for a nested / top scope: `(with_timeout child, id)`
fn caller_ctx(env: &Env, cx: &ctx::Ctx, cid: u64, spec: &ScopeSpec) -> (Option<ctx::Ctx>, u64) {
    match spec.timeout {
        Some((id, ms)) => {
            let d = cx.with_timeout(time::Duration::milliseconds(ms as i64));
            hev(json!(["ctxnew", id, cid, env.deadline_ms(&d)]));
            (Some(d), id)
        }
        None => (None, cid),
    }
}

async fn scope_async(env: &Env, cx: &ctx::Ctx, cid: u64, spec: &ScopeSpec) -> Result<u64, u64> {
    let (dctx, _) = caller_ctx(env, cx, cid, spec);
    let pctx = dctx.as_ref().unwrap_or(cx);
    env.live.fetch_add(1, Ordering::SeqCst);
    env.live_scope[spec.sid as usize].fetch_add(1, Ordering::SeqCst);
    verif::declare_scope(spec.sid);
    // `scope::run!(pctx, f)` is `scope::Scope::new(pctx).run(f)`; written out so that `Quiesce` can sit between the
    // `Scope` object and its drop.
    let mut sc = scope::Scope::new(pctx);
    let mut q = Quiesce { env, sid: spec.sid, done: false };
    let r = sc.run(|ctx, s| body_async(env, ctx, spec.ctx, s, spec.sid, &spec.root)).await;
    q.finish(&r);
    r
}

fn scope_blocking(env: &Env, cx: &ctx::Ctx, cid: u64, spec: &ScopeSpec) -> Result<u64, u64> {
    let (dctx, _) = caller_ctx(env, cx, cid, spec);
    let pctx = dctx.as_ref().unwrap_or(cx);
    env.live.fetch_add(1, Ordering::SeqCst);
    env.live_scope[spec.sid as usize].fetch_add(1, Ordering::SeqCst);
    verif::declare_scope(spec.sid);
    // `scope::run_blocking!(pctx, f)` is `scope::Scope::new(pctx).run_blocking(f)` (see `scope_async`)
    let mut sc = scope::Scope::new(pctx);
    let mut q = Quiesce { env, sid: spec.sid, done: false };
    let r = sc.run_blocking(|ctx, s| body_blocking(env, ctx, spec.ctx, s, spec.sid, &spec.root));
    q.finish(&r);
    r
}

fn body_async<'env>(env: &'env Env, cx: &'env ctx::Ctx, cid: u64, s: &'env S<'env>, sid: u64, t: &'env TaskSpec) -> BoxFut<'env> {
    Box::pin(async move {
        start_event(t.tid);
        let mut g = EndGuard { env, tid: t.tid, sid, done: false };
        for (i, st) in t.steps.iter().enumerate() {
            match env.jitter(t.tid, i) {
                1 => tokio::task::yield_now().await,
                2 => {
                    tokio::task::yield_now().await;
                    tokio::task::yield_now().await;
                }
                3 => spin(300),
                _ => {}
            }
            match st {
                Step::Spawn(c) => spawn_child(env, cx, cid, s, sid, t.tid, c),
                Step::Yield(n) => {
                    for _ in 0..*n {
                        tokio::task::yield_now().await;
                    }
                }
                Step::Spin(n) => spin(*n),
                Step::Wait => match tokio::time::timeout(env.wait_dur(), cx.canceled()).await {
                    Ok(()) => hev(json!(["obs", t.tid, cid])),
                    Err(_) => {
                        env.timeouts.fetch_add(1, Ordering::SeqCst);
                        hev(json!(["timeout", t.tid, cid]));
                    }
                },
                Step::Probe => {
                    if !cx.is_active() {
                        hev(json!(["obs", t.tid, cid]));
                    }
                }
                Step::Scope { spec, prop } => {
                    let r = scope_async(env, cx, cid, spec).await;
                    if *prop && r.is_err() {
                        g.finish(1, t.val);
                        return Err(t.val);
                    }
                }
                Step::Cancel => {
                    hev(json!(["cancel", sid, t.tid]));
                    s.cancel();
                }
                Step::Advance(ms) => {
                    hev(json!(["advance", ms]));
                    env.clock.advance(time::Duration::milliseconds(*ms as i64));
                }
            }
        }
        match t.end {
            0 => {
                g.finish(0, t.val);
                Ok(t.val)
            }
            1 => {
                g.finish(1, t.val);
                Err(t.val)
            }
            _ => panic!("scripted panic of task {}", t.tid),
        }
    })
}

fn body_blocking<'env>(env: &'env Env, cx: &'env ctx::Ctx, cid: u64, s: &'env S<'env>, sid: u64, t: &'env TaskSpec) -> Result<u64, u64> {
    start_event(t.tid);
    let mut g = EndGuard { env, tid: t.tid, sid, done: false };
    for (i, st) in t.steps.iter().enumerate() {
        match env.jitter(t.tid, i) {
            1 => std::thread::yield_now(),
            2 => std::thread::sleep(std::time::Duration::from_micros(60)),
            3 => spin(300),
            _ => {}
        }
        match st {
            Step::Spawn(c) => spawn_child(env, cx, cid, s, sid, t.tid, c),
            Step::Yield(n) => {
                for _ in 0..*n {
                    std::thread::yield_now();
                }
            }
            Step::Spin(n) => spin(*n),
            Step::Wait => {
                let r = tokio::runtime::Handle::current().block_on(async { tokio::time::timeout(env.wait_dur(), cx.canceled()).await });
                match r {
                    Ok(()) => hev(json!(["obs", t.tid, cid])),
                    Err(_) => {
                        env.timeouts.fetch_add(1, Ordering::SeqCst);
                        hev(json!(["timeout", t.tid, cid]));
                    }
                }
            }
            Step::Probe => {
                if !cx.is_active() {
                    hev(json!(["obs", t.tid, cid]));
                }
            }
            Step::Scope { spec, prop } => {
                let r = scope_blocking(env, cx, cid, spec);
                if *prop && r.is_err() {
                    g.finish(1, t.val);
                    return Err(t.val);
                }
            }
            Step::Cancel => {
                hev(json!(["cancel", sid, t.tid]));
                s.cancel();
            }
            Step::Advance(ms) => {
                hev(json!(["advance", ms]));
                env.clock.advance(time::Duration::milliseconds(*ms as i64));
            }
        }
    }
    match t.end {
        0 => {
            g.finish(0, t.val);
            Ok(t.val)
        }
        1 => {
            g.finish(1, t.val);
            Err(t.val)
        }
        _ => panic!("scripted panic of task {}", t.tid),
    }
}

// ---------------------------------------------------------------------------------------------- log canonicalisation

enum Raw {
    L { name: String, task: u64, decl: u64, a: usize, b: usize },
    H(Value),
    Bad(String),
}

fn parse_raw(line: &str) -> (u64, Raw) {
    let mut it = line.splitn(3, '|');
    let tag = it.next().unwrap_or("");
    if tag == "H" {
        let th = it.next().and_then(|x| x.parse().ok()).unwrap_or(0);
        let v = it.next().and_then(|p| serde_json::from_str(p).ok());
        return match v {
            Some(v) => (th, Raw::H(v)),
            None => (th, Raw::Bad(line.to_string())),
        };
    }
    let f: Vec<&str> = line.split('|').collect();
    if f.len() == 7 && f[0] == "L" {
        let p = |i: usize| f[i].parse::<u64>().unwrap_or(0);
        return (p(2), Raw::L { name: f[1].to_string(), task: p(3), decl: p(4), a: p(5) as usize, b: p(6) as usize });
    }
    (0, Raw::Bad(line.to_string()))
}

const UNKNOWN: u64 = 999_999;

/// raw markers -> the events of the model (see `lean/Driver/C17.lean` for the event syntax)
fn canon(raw: &[String], tb: &Tables) -> Vec<Value> {
    let ents: Vec<(u64, Raw)> = raw.iter().map(|l| parse_raw(l)).collect();
    let mut used = vec![false; ents.len()];
    let mut state_of: HashMap<usize, u64> = HashMap::new();
    let mut ctx_of: HashMap<usize, u64> = HashMap::new();
    let mut out = vec![];
    // the next unused entry of thread `th` after position `i`
    let next_same = |i: usize, th: u64, used: &Vec<bool>| -> Option<usize> { (i + 1..ents.len()).find(|&j| ents[j].0 == th && !used[j]) };
    for i in 0..ents.len() {
        if used[i] {
            continue;
        }
        used[i] = true;
        let th = ents[i].0;
        // does thread `th` call `Ctx::cancel` on the context of scope `sid` next?
        let mut take_cancel = |sid: u64, used: &mut Vec<bool>, ctx_of: &HashMap<usize, u64>| -> bool {
            if let Some(j) = next_same(i, th, used) {
                if let Raw::L { name, a, .. } = &ents[j].1 {
                    if name == "ctx_cancel" && ctx_of.get(a) == Some(&sid) {
                        used[j] = true;
                        return true;
                    }
                }
            }
            false
        };
        match &ents[i].1 {
            Raw::Bad(l) => out.push(json!(["bad_raw", l])),
            Raw::H(v) => {
                if v[0] == "cancel" {
                    let sid = v[1].as_u64().unwrap_or(UNKNOWN);
                    let c = take_cancel(sid, &mut used, &ctx_of);
                    out.push(json!(["cancel", sid, v[2], c]));
                } else {
                    out.push(v.clone());
                }
            }
            Raw::L { name, task, decl, a, b } => {
                let sid = |a: &usize, m: &HashMap<usize, u64>| m.get(a).copied().unwrap_or(UNKNOWN);
                match name.as_str() {
                    "make" => {
                        state_of.insert(*a, *decl);
                        ctx_of.insert(*b, *decl);
                        match tb.scopes.get(decl) {
                            Some(si) => out.push(json!(["make", decl, si.ctx, si.parent_ctx, si.owner, si.root])),
                            None => out.push(json!(["make_undeclared", decl])),
                        }
                    }
                    "rgd" => out.push(json!(["rgd", sid(a, &state_of)])),
                    "tgd" => out.push(json!(["tgd", sid(a, &state_of)])),
                    "cgd" => {
                        let s = sid(a, &state_of);
                        let c = take_cancel(s, &mut used, &ctx_of);
                        out.push(json!(["cgd", s, c]));
                    }
                    "seterr_enter" => {
                        let s = sid(a, &state_of);
                        let c = take_cancel(s, &mut used, &ctx_of);
                        let mut stored = false;
                        if let Some(j) = next_same(i, th, &used) {
                            if let Raw::L { name, a: a2, .. } = &ents[j].1 {
                                if name == "seterr_stored" && a2 == a {
                                    used[j] = true;
                                    stored = true;
                                }
                            }
                        }
                        out.push(json!(["seterr", s, task, *b == 1, stored, c]));
                    }
                    "seterr_stored" => out.push(json!(["stray_stored", sid(a, &state_of)])),
                    "ctx_cancel" => out.push(json!(["stray_cancel", sid(a, &ctx_of)])),
                    "rel" => out.push(json!(["rel", task])),
                    other => out.push(json!(["unknown_marker", other])),
                }
            }
        }
    }
    out
}

// ---------------------------------------------------------------------------------------------- monitors (S)

fn ev_name(e: &Value) -> &str {
    e[0].as_str().unwrap_or("")
}
fn n(e: &Value, i: usize) -> u64 {
    e[i].as_u64().unwrap_or(UNKNOWN)
}

/// The property's clauses checked directly on one log of the implementation. Returns (site, what) per failure.
fn monitors(tb: &Tables, log: &[Value]) -> Vec<(String, String)> {
    let mut fails: Vec<(String, String)> = vec![];
    let mut fail = |site: &str, what: String| fails.push((site.to_string(), what));
    let pos = |name: &str, id: u64| -> Vec<usize> { log.iter().enumerate().filter(|(_, e)| ev_name(e) == name && n(e, 1) == id).map(|(i, _)| i).collect() };
    // tasks that took part in the run
    let spawned: HashSet<u64> = log
        .iter()
        .filter_map(|e| match ev_name(e) {
            "spawn" => Some(n(e, 2)),
            "make" => Some(n(e, 5)),
            _ => None,
        })
        .collect();
    // M5: exactly one start / end / rel per spawned task; one rgd / cgd / tgd / ret per scope made
    for &t in &spawned {
        for name in ["start", "end", "rel"] {
            let k = pos(name, t).len();
            if k != 1 {
                fail("scope/lifecycle", format!("task {t}: {k} `{name}` events (a spawned task starts, ends and releases its guard exactly once)"));
            }
        }
    }
    let made: Vec<u64> = log.iter().filter(|e| ev_name(e) == "make").map(|e| n(e, 1)).collect();
    for &s in &made {
        for name in ["rgd", "cgd", "tgd", "ret"] {
            let k = pos(name, s).len();
            if k != 1 {
                fail("scope/lifecycle", format!("scope {s}: {k} `{name}` events"));
            }
        }
    }
    for e in log {
        match ev_name(e) {
            "timeout" => fail("scope/cancel-not-delivered", format!("task {} waited for the cancellation of context {} and did not observe it", n(e, 1), n(e, 2))),
            "stray_cancel" | "stray_stored" | "start_without_kind" | "make_undeclared" | "bad_raw" | "unknown_marker" => fail("scope/markers", format!("unexpected marker {e}")),
            _ => {}
        }
    }
    // per scope: M1 (join), M2 (result), M6 (kinds), M7 (cancel inside the critical section)
    for &s in &made {
        let Some(si) = tb.scopes.get(&s) else { continue };
        let Some(&ret_at) = pos("ret", s).first() else { continue };
        // M1: run! returned after every task under it (transitively) ended, and none of them did anything later
        for (i, e) in log.iter().enumerate() {
            let t = match ev_name(e) {
                "start" | "end" | "rel" | "obs" => n(e, 1),
                "spawn" => n(e, 2),
                "seterr" | "cancel" => n(e, 2),
                _ => continue,
            };
            if tb.under(t, s) && i > ret_at {
                fail("scope/early-return", format!("scope {s} returned (event {ret_at}) before task {t} finished: {e} at {i}"));
                break;
            }
        }
        for &t in &spawned {
            if tb.under(t, s) && pos("end", t).first().map_or(true, |&p| p > ret_at) {
                fail("scope/early-return", format!("scope {s} returned before the end of task {t}"));
            }
        }
        // M2: the result
        let mine: Vec<u64> = spawned.iter().copied().filter(|t| tb.tasks.get(t).map(|x| x.scope) == Some(s)).collect();
        let outcome = |t: u64| -> (u64, u64) { pos("end", t).first().map(|&p| (n(&log[p], 2), n(&log[p], 3))).unwrap_or((UNKNOWN, 0)) };
        let failed: Vec<u64> = mine.iter().copied().filter(|&t| outcome(t).0 != 0).collect();
        let any_panic = failed.iter().any(|&t| outcome(t).0 == 2);
        let first_err = log.iter().find(|e| ev_name(e) == "seterr" && n(e, 1) == s).map(|e| n(e, 2));
        let expected: (u64, u64) = if failed.is_empty() {
            (0, outcome(si.root).1)
        } else if any_panic {
            (2, 0)
        } else {
            match first_err {
                Some(t) => (1, outcome(t).1),
                None => (UNKNOWN, 0),
            }
        };
        let got = (n(&log[ret_at], 2), n(&log[ret_at], 3));
        if got != expected {
            fail(
                "scope/result",
                format!("scope {s} returned {got:?} (0 ok / 1 err / 2 panic, value); expected {expected:?}: root's result iff no task failed, else the error whose set_err is first, a panic if any task panicked; failed tasks {failed:?}, first set_err by {first_err:?}"),
            );
        }
        // every failed task reported before the scope returned
        for &t in &failed {
            let k = log[..ret_at].iter().filter(|e| ev_name(e) == "seterr" && n(e, 2) == t && n(e, 1) == s).count();
            if k != 1 {
                fail("scope/result", format!("failed task {t} of scope {s}: {k} set_err calls before the scope returned"));
            }
        }
        // M6: kinds
        let cgd_at = pos("cgd", s).first().copied();
        for &t in &mine {
            let Some(&st) = pos("start", t).first() else { continue };
            let is_main = log[st][2].as_bool().unwrap_or(false);
            let ti = &tb.tasks[&t];
            if is_main && (!ti.main || cgd_at.map_or(false, |c| st > c)) {
                fail("scope/kind", format!("task {t} runs as a main task (requested main: {}, after CancelGuard::drop: {})", ti.main, cgd_at.map_or(false, |c| st > c)));
            }
            if !is_main && ti.main {
                let parent_main = if ti.parent == 0 { true } else { pos("start", ti.parent).first().map_or(false, |&p| log[p][2].as_bool().unwrap_or(false)) };
                if parent_main {
                    fail("scope/kind", format!("task {t} was spawned as a main task by a main task (or by run) but runs as a background task"));
                }
            }
        }
        // M7: the cancel happens inside the critical section / inside CancelGuard::drop
        for e in log {
            if ev_name(e) == "seterr" && n(e, 1) == s && e[4].as_bool() != e[5].as_bool() {
                fail("scope/cancel-on-error", format!("set_err stored={} but cancelled={} ({e})", e[4], e[5]));
            }
            if ev_name(e) == "cgd" && n(e, 1) == s && e[2].as_bool() != Some(true) {
                fail("scope/cancel-on-main-done", format!("CancelGuard::drop of scope {s} did not cancel the context"));
            }
        }
    }
    // M4: a cancellation is observed only after a cause (error, main tasks done, Scope::cancel, deadline; own or ancestor)
    let mut caused: HashSet<u64> = HashSet::new();
    let mut deadlines: HashMap<u64, u64> = HashMap::new();
    let mut now = 0u64;
    for e in log {
        match ev_name(e) {
            "seterr" | "cgd" | "cancel" => {
                if let Some(si) = tb.scopes.get(&n(e, 1)) {
                    caused.insert(si.ctx);
                }
            }
            "advance" => now += n(e, 1),
            "ctxnew" => {
                if let Some(d) = e[3].as_u64() {
                    deadlines.insert(n(e, 1), d);
                }
            }
            "obs" => {
                let mut c = Some(n(e, 2));
                let mut ok = false;
                let mut hops = 0;
                while let Some(x) = c {
                    if caused.contains(&x) || deadlines.get(&x).map_or(false, |&d| d <= now) {
                        ok = true;
                        break;
                    }
                    c = tb.ctx_parent.get(&x).copied().filter(|_| x != 0);
                    hops += 1;
                    if hops > 64 {
                        break;
                    }
                }
                if !ok {
                    fail("scope/spurious-cancel", format!("task {} observed context {} cancelled before any cause (task failure, main tasks done, Scope::cancel, deadline, cancelled ancestor)", n(e, 1), n(e, 2)));
                }
            }
            _ => {}
        }
    }
    fails
}

// ---------------------------------------------------------------------------------------------- generator

struct Gen<'a> {
    rng: &'a mut StdRng,
    tid: u64,
    sid: u64,
    cid: u64,
    budget: i64,
}

impl Gen<'_> {
    fn new_tid(&mut self) -> u64 {
        self.tid += 1;
        self.budget -= 1;
        self.tid
    }
    fn val(&mut self) -> u64 {
        self.rng.gen_range(1..40)
    }
    fn filler(&mut self, steps: &mut Vec<Step>) {
        match self.rng.gen_range(0..6) {
            0 => steps.push(Step::Yield(self.rng.gen_range(1..4))),
            1 => steps.push(Step::Spin(self.rng.gen_range(50..2000))),
            2 => steps.push(Step::Probe),
            _ => {}
        }
    }
    /// a task that never waits and ends with `end` after a few yields (a guaranteed cause of cancellation)
    fn trigger(&mut self, main: bool, blocking: bool, end: u8, extra: Option<Step>) -> TaskSpec {
        let mut steps = vec![];
        self.filler(&mut steps);
        if let Some(s) = extra {
            steps.push(s);
        }
        self.filler(&mut steps);
        TaskSpec { tid: self.new_tid(), main, blocking, steps, end, val: self.val() }
    }
    fn end_kind(&mut self, fail_pct: u32) -> u8 {
        let r = self.rng.gen_range(0..100);
        if r < fail_pct {
            if self.rng.gen_bool(0.3) {
                2
            } else {
                1
            }
        } else {
            0
        }
    }
    /// `may_wait`: a cancellation of the task's context is guaranteed (it is a background task, or the scope or an
    /// enclosing scope has a trigger)
    fn task(&mut self, main: bool, blocking: bool, gc: bool, depth: usize, fail_pct: u32) -> TaskSpec {
        let tid = self.new_tid();
        let may_wait = gc || !main;
        let mut steps = vec![];
        let nsteps = self.rng.gen_range(0..5);
        for _ in 0..nsteps {
            match self.rng.gen_range(0..100) {
                0..=34 if self.budget > 0 => {
                    let cm = self.rng.gen_bool(0.55);
                    let cb = self.rng.gen_bool(0.35);
                    // a child asked to be main may wait only under a guaranteed cause
                    let c = self.task(cm, cb, gc, depth, fail_pct);
                    steps.push(Step::Spawn(c));
                }
                35..=54 if may_wait => steps.push(Step::Wait),
                55..=64 => steps.push(Step::Yield(self.rng.gen_range(1..4))),
                65..=72 => steps.push(Step::Spin(self.rng.gen_range(50..3000))),
                73..=80 => steps.push(Step::Probe),
                81..=90 if depth < 3 && self.budget > 1 => {
                    let spec = self.scope(blocking, gc, depth + 1, fail_pct);
                    steps.push(Step::Scope { spec, prop: self.rng.gen_bool(0.5) });
                }
                91..=93 => steps.push(Step::Cancel),
                _ => {}
            }
        }
        TaskSpec { tid, main, blocking, steps, end: self.end_kind(fail_pct), val: self.val() }
    }
    /// `inherited`: an enclosing scope has a trigger that is spawned before this scope is opened
    fn scope(&mut self, blocking: bool, inherited: bool, depth: usize, fail_pct: u32) -> ScopeSpec {
        let sid = self.sid;
        self.sid += 1;
        self.cid += 1;
        let ctx = self.cid;
        let mut timeout = None;
        // trigger: 0 none, 1 err, 2 panic, 3 cancel, 4 deadline passes, 5 deadline already passed, 6 root cancels first
        let trig = if self.rng.gen_bool(0.45) { self.rng.gen_range(1..7) } else { 0 };
        let gc = inherited || trig != 0;
        let mut first: Vec<Step> = vec![];
        let tb = self.rng.gen_bool(0.3);
        let tm = self.rng.gen_bool(0.5);
        match trig {
            1 => first.push(Step::Spawn(self.trigger(tm, tb, 1, None))),
            2 => first.push(Step::Spawn(self.trigger(tm, tb, 2, None))),
            3 => first.push(Step::Spawn(self.trigger(tm, tb, 0, Some(Step::Cancel)))),
            4 => {
                self.cid += 1;
                let ms = self.rng.gen_range(1..50);
                timeout = Some((self.cid, ms));
                let adv = ms + self.rng.gen_range(0..3);
                first.push(Step::Spawn(self.trigger(tm, tb, 0, Some(Step::Advance(adv)))));
            }
            5 => {
                self.cid += 1;
                timeout = Some((self.cid, 0));
            }
            6 => first.push(Step::Cancel),
            _ => {}
        }
        let mut root = self.task(true, blocking, gc, depth, fail_pct);
        first.append(&mut root.steps);
        root.steps = first;
        ScopeSpec { sid, ctx, timeout, blocking, root }
    }
}

fn leaf(g: &mut Gen, main: bool, blocking: bool, steps: Vec<Step>, end: u8) -> TaskSpec {
    TaskSpec { tid: g.new_tid(), main, blocking, steps, end, val: g.val() }
}

/// `leaf` with the arguments evaluated first (they draw from `g.rng`)
macro_rules! lf {
    ($g:expr, $m:expr, $b:expr, $s:expr, $e:expr) => {{
        let m = $m;
        let b = $b;
        let s = $s;
        let e = $e;
        leaf($g, m, b, s, e)
    }};
}

/// directed families, one per mechanism named by the property
fn directed(g: &mut Gen, fam: usize) -> (String, ScopeSpec) {
    let blocking = g.rng.gen_bool(0.25);
    let b = |g: &mut Gen| g.rng.gen_bool(0.4);
    let sid = g.sid;
    g.sid += 1;
    g.cid += 1;
    let ctx = g.cid;
    let mut timeout = None;
    let mut steps: Vec<Step> = vec![];
    let mut end = 0u8;
    let name;
    match fam {
        0 => {
            // racing failures: first error wins, a panic overrides; several tasks fail at once, some wait
            name = "race_fail";
            let k = g.rng.gen_range(2..6);
            let with_panic = g.rng.gen_bool(0.35);
            for i in 0..k {
                let e = if with_panic && i == g.rng.gen_range(0..k) { 2 } else { 1 };
                let (m, bl) = (g.rng.gen_bool(0.6), b(g));
                let pre = if g.rng.gen_bool(0.3) { vec![Step::Spin(g.rng.gen_range(10..500))] } else { vec![] };
                steps.push(Step::Spawn(lf!(g, m, bl, pre, e)));
            }
            for _ in 0..g.rng.gen_range(0..3) {
                let (m, bl) = (g.rng.gen_bool(0.5), b(g));
                steps.push(Step::Spawn(lf!(g, m, bl, vec![Step::Wait], 0)));
            }
            steps.shuffle(g.rng);
            if g.rng.gen_bool(0.5) {
                steps.push(Step::Wait);
            }
            end = if g.rng.gen_bool(0.2) { 1 } else { 0 };
        }
        1 => {
            // spawn from a background task after (or racing with) the completion of the main tasks
            name = "late_spawn";
            let race = g.rng.gen_bool(0.5);
            let mut bsteps = vec![];
            if !race {
                bsteps.push(Step::Wait);
            } else if g.rng.gen_bool(0.5) {
                bsteps.push(Step::Spin(g.rng.gen_range(0..4000)));
            }
            for _ in 0..g.rng.gen_range(1..4) {
                let e = if g.rng.gen_bool(0.4) { 1 } else { 0 };
                let bl = b(g);
                let inner = if g.rng.gen_bool(0.5) { vec![Step::Probe] } else { vec![] };
                bsteps.push(Step::Spawn(lf!(g, true, bl, inner, e)));
            }
            let bl = b(g);
            steps.push(Step::Spawn(lf!(g, false, bl, bsteps, 0)));
            if g.rng.gen_bool(0.5) {
                let bl = b(g);
                steps.push(Step::Spawn(lf!(g, true, bl, vec![Step::Yield(2)], 0)));
            }
        }
        2 => {
            // all tasks succeed: the completion of the main tasks must cancel the background tasks; root's result
            name = "main_done_cancels";
            for _ in 0..g.rng.gen_range(1..4) {
                let bl = b(g);
                let mut bs = vec![Step::Wait];
                if g.rng.gen_bool(0.4) {
                    let bl2 = b(g);
                    bs.insert(0, Step::Spawn(lf!(g, false, bl2, vec![Step::Wait], 0)));
                }
                steps.push(Step::Spawn(lf!(g, false, bl, bs, 0)));
            }
            for _ in 0..g.rng.gen_range(0..3) {
                let bl = b(g);
                let y = g.rng.gen_range(0..4);
                steps.push(Step::Spawn(lf!(g, true, bl, vec![Step::Yield(y)], 0)));
            }
        }
        3 => {
            // outer failure must reach waiters in nested scopes (2-3 deep)
            name = "nested_cancel";
            let e = if g.rng.gen_bool(0.25) { 2 } else { 1 };
            let bl = b(g);
            steps.push(Step::Spawn(lf!(g, g.rng.gen_bool(0.5), bl, vec![Step::Yield(g.rng.gen_range(0..3))], e)));
            let depth = g.rng.gen_range(1..4);
            let mut inner: Option<ScopeSpec> = None;
            for _ in 0..depth {
                let s2 = g.sid;
                g.sid += 1;
                g.cid += 1;
                let c2 = g.cid;
                let mut rs = vec![];
                let bl = blocking;
                if g.rng.gen_bool(0.6) {
                    let bl3 = b(g);
                    rs.push(Step::Spawn(lf!(g, g.rng.gen_bool(0.5), bl3, vec![Step::Wait], 0)));
                }
                match inner.take() {
                    Some(spec) => rs.push(Step::Scope { spec, prop: g.rng.gen_bool(0.5) }),
                    None => rs.push(Step::Wait),
                }
                let root = lf!(g, true, bl, rs, 0);
                inner = Some(ScopeSpec { sid: s2, ctx: c2, timeout: None, blocking: bl, root });
            }
            steps.push(Step::Scope { spec: inner.unwrap(), prop: g.rng.gen_bool(0.5) });
        }
        4 => {
            // scope opened under an already cancelled context still runs its tasks; inner error propagated or not
            name = "already_canceled";
            steps.push(Step::Cancel);
            let s2 = g.sid;
            g.sid += 1;
            g.cid += 1;
            let c2 = g.cid;
            let bl3 = b(g);
            let e = g.rng.gen_range(0..3) as u8;
            let child = lf!(g, g.rng.gen_bool(0.7), bl3, vec![Step::Wait], e);
            let root = lf!(g, true, blocking, vec![Step::Spawn(child), Step::Probe], 0);
            steps.push(Step::Scope { spec: ScopeSpec { sid: s2, ctx: c2, timeout: None, blocking, root }, prop: g.rng.gen_bool(0.6) });
        }
        5 => {
            // the caller's deadline passes (manual clock) / has already passed
            name = "deadline";
            g.cid += 1;
            let ms = if g.rng.gen_bool(0.3) { 0 } else { g.rng.gen_range(1..100) };
            timeout = Some((g.cid, ms));
            if ms > 0 {
                let bl = b(g);
                let pre = g.rng.gen_range(0..ms);
                let adv = vec![Step::Advance(pre), Step::Yield(1), Step::Advance(ms - pre + g.rng.gen_range(0..2))];
                steps.push(Step::Spawn(lf!(g, g.rng.gen_bool(0.5), bl, adv, 0)));
            }
            for _ in 0..g.rng.gen_range(1..4) {
                let bl = b(g);
                steps.push(Step::Spawn(lf!(g, g.rng.gen_bool(0.6), bl, vec![Step::Wait], 0)));
            }
            steps.push(Step::Wait);
        }
        6 => {
            // panics: root / leaf / background / nested (re-raised into the owner task)
            name = "panic";
            match g.rng.gen_range(0..4) {
                0 => end = 2,
                1 => {
                    let bl = b(g);
                    steps.push(Step::Spawn(lf!(g, g.rng.gen_bool(0.5), bl, vec![], 2)));
                    steps.push(Step::Wait);
                }
                2 => {
                    let bl = b(g);
                    steps.push(Step::Spawn(lf!(g, false, bl, vec![Step::Wait], 2)));
                }
                _ => {
                    let s2 = g.sid;
                    g.sid += 1;
                    g.cid += 1;
                    let c2 = g.cid;
                    let bl3 = b(g);
                    let child = lf!(g, true, bl3, vec![], 2);
                    let root = lf!(g, true, blocking, vec![Step::Spawn(child)], 0);
                    steps.push(Step::Scope { spec: ScopeSpec { sid: s2, ctx: c2, timeout: None, blocking, root }, prop: true });
                }
            }
            for _ in 0..g.rng.gen_range(0..3) {
                let bl = b(g);
                let e = if g.rng.gen_bool(0.4) { 1 } else { 0 };
                steps.push(Step::Spawn(lf!(g, false, bl, vec![Step::Wait], e)));
            }
        }
        7 => {
            // a background task fails after the main tasks are done: the scope still returns its error
            name = "bg_error_after_done";
            for _ in 0..g.rng.gen_range(1..4) {
                let bl = b(g);
                let e = if g.rng.gen_bool(0.7) { 1 } else { 0 };
                steps.push(Step::Spawn(lf!(g, false, bl, vec![Step::Wait, Step::Yield(g.rng.gen_range(0..3))], e)));
            }
        }
        9 => {
            // nested deadlines: the caller's context has a far deadline, the nested scope is run on a child context with
            // a much nearer one; only the near one passes (manual clock): the nested scope must be cancelled by ITS
            // deadline and return, long before the outer deadline
            name = "nested_deadline";
            g.cid += 1;
            let outer_ms = g.rng.gen_range(500..5000);
            timeout = Some((g.cid, outer_ms));
            let inner_ms = g.rng.gen_range(1..60);
            let s2 = g.sid;
            g.sid += 1;
            g.cid += 1;
            let c2 = g.cid;
            g.cid += 1;
            let c2t = g.cid;
            let mut rs = vec![];
            // the clock is advanced from INSIDE the nested scope (its context, hence its deadline, exists by then): past
            // the inner timeout, far below the outer one
            let pre = g.rng.gen_range(0..inner_ms);
            let adv = vec![Step::Advance(pre), Step::Yield(1), Step::Advance(inner_ms - pre + g.rng.gen_range(0..2))];
            let bl2 = b(g);
            rs.push(Step::Spawn(lf!(g, g.rng.gen_bool(0.5), bl2, adv, 0)));
            for _ in 0..g.rng.gen_range(1..4) {
                let bl3 = b(g);
                rs.push(Step::Spawn(lf!(g, g.rng.gen_bool(0.6), bl3, vec![Step::Wait], 0)));
            }
            rs.push(Step::Wait);
            let bl = blocking;
            let nested_root = lf!(g, true, bl, rs, 0);
            steps.push(Step::Scope { spec: ScopeSpec { sid: s2, ctx: c2, timeout: Some((c2t, inner_ms)), blocking: bl, root: nested_root }, prop: false });
        }
        _ => {
            // Scope::cancel and then everybody returns Ok: the scope returns the root's value
            name = "explicit_cancel_ok";
            for _ in 0..g.rng.gen_range(1..4) {
                let bl = b(g);
                steps.push(Step::Spawn(lf!(g, g.rng.gen_bool(0.7), bl, vec![Step::Wait], 0)));
            }
            let bl = b(g);
            steps.push(Step::Spawn(lf!(g, g.rng.gen_bool(0.5), bl, vec![Step::Yield(g.rng.gen_range(0..3)), Step::Cancel], 0)));
            steps.push(Step::Wait);
        }
    }
    let root = TaskSpec { tid: g.new_tid(), main: true, blocking, steps, end, val: g.val() };
    (name.to_string(), ScopeSpec { sid, ctx, timeout, blocking, root })
}

const N_DIRECTED: usize = 10;
const N_SCHED: u64 = 3;

// ---------------------------------------------------------------------------------------------- the property

struct C17 {
    rt: tokio::runtime::Runtime,
    wait_ms: u64,
    total_timeouts: u64,
    runs: u64,
    events: u64,
    max_tasks: usize,
    abort: bool,
}

impl C17 {
    fn new() -> Self {
        let rt = tokio::runtime::Builder::new_multi_thread().worker_threads(4).enable_all().build().expect("runtime");
        let wait_ms = std::env::var("C17_WAIT_MS").ok().and_then(|x| x.parse().ok()).unwrap_or(4000);
        Self { rt, wait_ms, total_timeouts: 0, runs: 0, events: 0, max_tasks: 0, abort: false }
    }

    /// runs the program once on the real code; returns (canonical log, result string, class)
    fn run_once(&mut self, spec: &ScopeSpec, sched: u64) -> (Vec<Value>, String, String, Tables) {
        let tb = Tables::of(spec);
        let clock = ctx::ManualClock::new();
        let env = Env {
            t0: clock.now(),
            clock: clock.clone(),
            sched,
            live: AtomicI64::new(0),
            live_scope: (0..=tb.scopes.keys().copied().max().unwrap_or(0)).map(|_| AtomicI64::new(0)).collect(),
            timeouts: AtomicU64::new(if self.total_timeouts >= 2 { 2 } else { 0 }),
            wait_ms: self.wait_ms,
        };
        verif::start();
        let root_ctx = ctx::test_root(&clock);
        let r: Result<Result<u64, u64>, String> = if spec.blocking {
            let _g = self.rt.enter();
            catch(|| scope_blocking(&env, &root_ctx, 0, spec))
        } else {
            catch(|| self.rt.block_on(scope_async(&env, &root_ctx, 0, spec)))
        };
        // Nothing of the program may still be running once `run!` has returned (that is the property); if something
        // is, give it time to finish so that the next program starts from a quiet runtime.
        let t_wait = std::time::Instant::now();
        while env.live.load(Ordering::SeqCst) > 0 && t_wait.elapsed() < std::time::Duration::from_millis(2 * self.wait_ms + 2000) {
            std::thread::sleep(std::time::Duration::from_millis(1));
        }
        if env.live.load(Ordering::SeqCst) > 0 {
            self.abort = true; // tasks leaked for good: later logs would be polluted
        } else if t_wait.elapsed() > std::time::Duration::from_millis(1) {
            std::thread::sleep(std::time::Duration::from_millis(20));
        }
        let raw = verif::take();
        self.total_timeouts += env.timeouts.load(Ordering::SeqCst);
        let log = canon(&raw, &tb);
        let (res, class) = match r {
            Ok(Ok(v)) => (format!("ok:{v}"), "ok"),
            Ok(Err(e)) => (format!("err:{e}"), "err"),
            Err(site) if site.contains("scope/mod.rs") && site.contains("one of the tasks panicked") => ("panic".to_string(), "panic"),
            Err(site) => (format!("harness-panic:{site}"), "harness-panic"),
        };
        self.runs += 1;
        self.events += log.len() as u64;
        self.max_tasks = self.max_tasks.max(tb.tasks.len());
        (log, res, class.to_string(), tb)
    }

    /// family `race` (signal level): one thread polls `signal::Once::recv` for the FIRST time while another thread calls
    /// `send()`; the relative offset is swept with a spin of pseudo-random length on both sides. Whatever the
    /// interleaving, once `send()` has returned the next poll of the receiver must be Ready — otherwise the waiter of a
    /// cancellation (every `ctx.canceled()`, every scope termination) would sleep for ever.
    fn exec_race(&mut self, op: &Value, out: &mut Out) -> (Value, Value) {
        use std::sync::{atomic::{AtomicBool, AtomicUsize, Ordering}, Arc};
        use std::task::{Context, Poll, Wake, Waker};
        use zksync_concurrency::signal;
        struct NoopWake;
        impl Wake for NoopWake {
            fn wake(self: Arc<Self>) {}
        }
        fn next(x: &mut u64) -> u64 {
            *x ^= *x << 13;
            *x ^= *x >> 7;
            *x ^= *x << 17;
            *x
        }
        let iters = op["iters"].as_u64().unwrap_or(100_000) as usize;
        let seed = op["seed"].as_u64().unwrap_or(1) | 1;
        let rt = tokio::runtime::Builder::new_multi_thread().worker_threads(1).enable_all().build().unwrap();
        let _g = rt.enter();
        let ctx = ctx::test_root(&ctx::RealClock);
        let waker = Waker::from(Arc::new(NoopWake));
        let turn = Arc::new(AtomicUsize::new(0));
        let cell: Arc<std::sync::Mutex<Option<Arc<signal::Once>>>> = Arc::default();
        let stop = Arc::new(AtomicBool::new(false));
        let sender = {
            let (turn, cell, stop) = (turn.clone(), cell.clone(), stop.clone());
            std::thread::spawn(move || {
                let mut x = 0x9E3779B97F4A7C15u64 ^ seed;
                for i in 0..iters {
                    let once = loop {
                        if stop.load(Ordering::Relaxed) {
                            return;
                        }
                        if turn.load(Ordering::Acquire) == 2 * i + 1 {
                            break cell.lock().unwrap().take().unwrap();
                        }
                        std::hint::spin_loop();
                    };
                    for _ in 0..(next(&mut x) % 64) {
                        std::hint::spin_loop();
                    }
                    once.send();
                    turn.store(2 * i + 2, Ordering::Release);
                }
            })
        };
        let mut x = 0xD1B54A32D192ED03u64 ^ (seed << 7);
        let (mut lost, mut flag_unset, mut first_pending) = (None, None, 0u64);
        for i in 0..iters {
            let once = Arc::new(signal::Once::new());
            *cell.lock().unwrap() = Some(once.clone());
            let mut fut = std::pin::pin!(once.recv(&ctx));
            let mut cx = Context::from_waker(&waker);
            turn.store(2 * i + 1, Ordering::Release);
            for _ in 0..(next(&mut x) % 64) {
                std::hint::spin_loop();
            }
            let first = fut.as_mut().poll(&mut cx);
            while turn.load(Ordering::Acquire) != 2 * i + 2 {
                std::hint::spin_loop();
            }
            if !once.try_recv() {
                flag_unset = Some(i);
                break;
            }
            if first.is_pending() {
                first_pending += 1;
                if let Poll::Pending = fut.as_mut().poll(&mut cx) {
                    lost = Some(i);
                    break;
                }
            }
        }
        stop.store(true, Ordering::Relaxed);
        let _ = sender.join();
        out.count("fam=race");
        if let Some(i) = lost {
            out.oracle_fail("signal-lost-wakeup", &format!("iteration {i}: send() has returned, but the receiver whose first poll raced with it is still Pending and will never be woken"), op.clone());
        }
        if let Some(i) = flag_unset {
            out.oracle_fail("signal-flag-unset", &format!("iteration {i}: try_recv() is false after send() returned"), op.clone());
        }
        (op.clone(), json!({"accepted": true, "complete": true, "class": "race", "lost": lost.is_some() || flag_unset.is_some(),
                            "_iters": iters, "_first_poll_pending": first_pending}))
    }

    /// one fresh execution of the program of `op`; returns the op line (with the log) and the observation
    fn exec_fresh(&mut self, op: &Value, out: &mut Out) -> (Value, Value) {
        if op["op"].as_str() == Some("race") {
            return self.exec_race(op, out);
        }
        let spec: ScopeSpec = match serde_json::from_value(op["prog"].clone()) {
            Ok(s) => s,
            Err(e) => return (op.clone(), json!({"bad_op": e.to_string()})),
        };
        let sched = op["sched"].as_u64().unwrap_or(0);
        let (log, res, class, tb) = self.run_once(&spec, sched);
        let mut full = op.clone();
        full["reset"] = json!(true);
        full["op"] = json!("prog");
        full["top"] = json!(spec.sid);
        full["sids"] = json!(tb.scopes.keys().copied().collect::<Vec<_>>());
        full["log"] = json!(log);
        full["observed"] = json!({"result": res, "class": class});
        // monitors
        let fails = monitors(&tb, &log);
        let mut seen = HashSet::new();
        for (site, what) in &fails {
            if seen.insert(site.clone()) {
                out.oracle_fail(site, what, full.clone());
            }
        }
        // statistics
        out.count(&format!("fam={}", op["fam"].as_str().unwrap_or("corpus")));
        out.count(&format!("result={class}"));
        out.count(&format!("tasks={}", match tb.tasks.len() { 0..=2 => "1-2", 3..=5 => "3-5", 6..=9 => "6-9", _ => "10+" }));
        out.count(&format!("scope_depth={}", tb.max_depth));
        if tb.n_blocking > 0 {
            out.count("with_blocking_tasks");
        }
        if spec.blocking {
            out.count("top_run_blocking");
        }
        for e in &log {
            match ev_name(e) {
                "seterr" => out.count(if e[4].as_bool() == Some(true) { "set_err:stored" } else { "set_err:ignored" }),
                "obs" => out.count("cancel_observed"),
                "start" => {
                    let t = n(e, 1);
                    if e[2].as_bool() == Some(false) && tb.tasks.get(&t).map_or(false, |x| x.main) {
                        out.count("main_spawn_fell_back_to_background");
                    }
                }
                "advance" => out.count("clock_advance"),
                "ctxnew" => out.count("deadline_ctx"),
                _ => {}
            }
        }
        let multi_err = log.iter().filter(|e| ev_name(e) == "seterr").count() >= 2;
        if multi_err {
            out.count("programs_with_2+_set_err");
        }
        if !fails.is_empty() {
            out.count("monitor_failed");
        }
        (full, json!({"accepted": true, "complete": true, "result": res, "class": class}))
    }
}

impl Prop for C17 {
    fn gen(&mut self, opts: &Opts) -> Vec<Value> {
        let mut rng = opts.rng();
        let mut ops = vec![];
        // signal-level race family first: 4 (quick) / 40 (thorough) sweeps of 150 000 first-poll-vs-send races
        for k in 0..(if opts.thorough { 40u64 } else { 4 }) {
            ops.push(json!({"reset": true, "op": "race", "iters": 150_000, "seed": rng.gen::<u32>() as u64 + k}));
        }
        for i in 0..opts.n {
            let mut g = Gen { rng: &mut rng, tid: 0, sid: 0, cid: 0, budget: 11 };
            let (fam, spec) = if i % 2 == 0 {
                directed(&mut g, (i / 2) % N_DIRECTED)
            } else {
                let blocking = g.rng.gen_bool(0.25);
                let fail_pct = *[0u32, 10, 25, 50].choose(g.rng).unwrap();
                g.budget = g.rng.gen_range(2..12);
                ("random".to_string(), g.scope(blocking, false, 1, fail_pct))
            };
            for sched in 0..N_SCHED {
                ops.push(json!({"reset": true, "op": "prog", "id": i, "fam": fam, "sched": sched, "prog": spec}));
            }
        }
        ops
    }

    /// (unused by this binary's own loop; kept so that the type is a `Prop`)
    fn exec(&mut self, op: &Value, out: &mut Out) -> Value {
        self.exec_fresh(op, out).1
    }

    fn extra_stats(&self) -> Value {
        json!({"program_runs": self.runs, "events_replayed": self.events, "max_tasks_in_a_program": self.max_tasks,
               "lost_cancellations": self.total_timeouts, "aborted_early": self.abort})
    }
}

fn load_ops(p: &mut C17, opts: &Opts) -> anyhow::Result<Vec<Value>> {
    if let Some(path) = &opts.replay {
        let v: Value = serde_json::from_slice(&std::fs::read(path)?)?;
        return Ok(v["ops"].as_array().cloned().unwrap_or_default());
    }
    let mut ops = vec![];
    if let Some(c) = &opts.corpus {
        if let Ok(rd) = std::fs::read_dir(c) {
            let mut files: Vec<_> = rd.filter_map(|e| e.ok()).map(|e| e.path()).collect();
            files.sort();
            for f in files {
                if let Ok(txt) = std::fs::read_to_string(&f) {
                    for line in txt.lines() {
                        let line = line.trim();
                        if line.is_empty() || line.starts_with('#') {
                            continue;
                        }
                        if let Ok(v) = serde_json::from_str::<Value>(line) {
                            ops.push(v);
                        }
                    }
                }
            }
        }
    }
    ops.extend(p.gen(opts));
    Ok(ops)
}

fn drive(p: &mut C17, opts: &Opts) -> anyhow::Result<()> {
    let mut out = Out::new(opts)?;
    let ops = load_ops(p, opts)?;
    for op in &ops {
        // An op taken from a replay file carries the log (and result) of the run that failed, for diagnosis. It was
        // recorded on another build, so it does not decide anything about the current tree: the program is run again
        // (several times, under every jitter pattern, since the schedule that failed cannot be forced).
        let recorded = op.get("log").is_some();
        let mut fresh = op.clone();
        if let Some(o) = fresh.as_object_mut() {
            o.remove("log");
            o.remove("observed");
        }
        let reps: Vec<u64> = if recorded { (0..3 * N_SCHED).map(|i| i % N_SCHED).collect() } else { vec![fresh["sched"].as_u64().unwrap_or(0)] };
        for sched in reps {
            fresh["sched"] = json!(sched);
            let (full, obs) = p.exec_fresh(&fresh, &mut out);
            out.emit(full, obs);
        }
        if p.abort || p.total_timeouts >= 40 {
            eprintln!("c17: stopping early (leaked tasks: {}, lost cancellations: {})", p.abort, p.total_timeouts);
            break;
        }
    }
    let extra = p.extra_stats();
    out.finish(extra)
}

fn main() {
    let args: Vec<String> = std::env::args().collect();
    let opts = Opts::parse(&args[1..]);
    std::panic::set_hook(Box::new(|info| {
        vharness::LAST_PANIC.with(|p| *p.borrow_mut() = Some(vharness::panic_site(info)));
    }));
    let mut p = C17::new();
    if let Err(e) = drive(&mut p, &opts) {
        eprintln!("harness error: {e:#}");
        std::process::exit(3);
    }
    // leaked tasks (only possible if `run!` returned early) may still reference freed scopes: leave without
    // running destructors of the runtime
    if p.abort {
        std::process::exit(0);
    }
}
