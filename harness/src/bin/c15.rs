//! C15: rate limiter (`zksync_concurrency::limiter`) driven with a `ManualClock` and hand-polled futures
//! (deterministic), plus the per-connection RPC half (ping server over an in-memory transport).
//!
//! Operation lines (limiter):
//!   {"op":"init","burst":B,"refresh_s":S,"refresh_ns":N,"reset":true}
//!   {"op":"acquire","id":i,"n":k}    create `acquire(ctx,k)` and poll it once (this is the arrival)
//!   {"op":"poll","id":i} {"op":"cancel","id":i} {"op":"drop","id":i} {"op":"advance","d":ns}
//!   {"op":"case","ops":[...]}        a whole case in one line (replay files)
//! An op may carry "expect":"granted"; the monitor then requires that result.
use std::{
    collections::BTreeMap,
    future::Future,
    pin::Pin,
    task::{Context, Poll, Waker},
};

use rand::{rngs::StdRng, seq::SliceRandom, Rng};
use serde_json::{json, Value};
use vharness::{catch, Opts, Out, Prop};
use zksync_concurrency::{ctx, limiter, time};

/// The per-connection RPC half: the real `rpc::Service` server (generic `Server::serve`, `StreamQueue`,
/// `ReusableStream::run`) for a test RPC with in-flight limit N over an in-memory duplex transport, against a
/// client without a rate limit that opens calls as fast as the protocol lets it. Time is a `ManualClock`; after
/// every step the single-threaded runtime is run until nothing moves any more, so the observation (handler
/// invocations so far, handlers running) is deterministic.
///
///   {"op":"rpc","inflight":N,"burst":B,"refresh_ns":R,"client_streams":M,"hold_handlers":bool,
///    "hold_requests":bool,"hold_opens":bool,"steps":[{"adv":ns}|{"rel_h":k}|{"rel_r":k}|{"rel_o":k}, ...]}
mod rpc_half {
    use std::sync::{atomic::Ordering, Arc};

    use zksync_concurrency::{scope, sync};
    use zksync_consensus_network::verif::rpc as hook;

    use super::*;

    #[derive(Default)]
    pub struct RpcHalf;

    /// Runs the single-threaded runtime until nothing observable has moved for 400 consecutive yields. Returns
    /// false if that does not happen (the request rate is not bounded: every yield serves more calls).
    async fn quiesce(p: &hook::Probe, c: &hook::ClientProbe) -> bool {
        let snap = || {
            (p.starts.lock().unwrap().len(), p.done.load(Ordering::SeqCst), c.done.load(Ordering::SeqCst),
             c.opened.load(Ordering::SeqCst))
        };
        let (mut last, mut stable, mut total) = (snap(), 0, 0);
        while stable < 400 {
            if total >= 30_000 || last.0 > 5_000 {
                return false;
            }
            tokio::task::yield_now().await;
            total += 1;
            let cur = snap();
            if cur == last {
                stable += 1;
            } else {
                stable = 0;
                last = cur;
            }
        }
        true
    }

    struct Run {
        starts: Vec<u64>,
        running: Vec<u64>,
        times: Vec<u128>,
        max_running: usize,
        runaway: bool,
    }

    fn scenario(op: &Value) -> Run {
        let inflight = op["inflight"].as_u64().expect("inflight");
        let burst = op["burst"].as_u64().expect("burst") as usize;
        let refresh = op["refresh_ns"].as_u64().expect("refresh_ns");
        let streams = op["client_streams"].as_u64().expect("client_streams") as u32;
        let hold_h = op["hold_handlers"].as_bool().unwrap_or(false);
        let hold_r = op["hold_requests"].as_bool().unwrap_or(false);
        let hold_o = op["hold_opens"].as_bool().unwrap_or(false);
        let steps = op["steps"].as_array().cloned().unwrap_or_default();
        let rt = tokio::runtime::Builder::new_current_thread().enable_all().build().unwrap();
        rt.block_on(async {
            let clock = ctx::ManualClock::new();
            let root = ctx::test_root(&clock);
            let rate = limiter::Rate { burst, refresh: time::Duration::nanoseconds(refresh as i64) };
            let gate = hold_h.then(|| Arc::new(sync::Semaphore::new(0)));
            let req_gate = hold_r.then(|| Arc::new(sync::Semaphore::new(0)));
            let probe = Arc::new(hook::Probe { gate: gate.clone(), ..Default::default() });
            let open_gate = hold_o.then(|| Arc::new(sync::Semaphore::new(0)));
            let cprobe = Arc::new(hook::ClientProbe { req_gate: req_gate.clone(), open_gate: open_gate.clone(), ..Default::default() });
            let (a, b) = tokio::io::duplex(1 << 16);
            let t0 = root.now();
            let res: anyhow::Result<Run> = scope::run!(&root, |ctx, s| async move {
                let (p1, c1) = (probe.clone(), cprobe.clone());
                s.spawn_bg(async move {
                    let _ = match inflight {
                        1 => hook::serve::<1, _>(ctx, rate, a, p1).await,
                        3 => hook::serve::<3, _>(ctx, rate, a, p1).await,
                        _ => hook::serve::<5, _>(ctx, rate, a, p1).await,
                    };
                    Ok(())
                });
                s.spawn_bg(async move {
                    let _ = hook::greedy_client(ctx, b, streams, streams.max(1) as usize, c1).await;
                    Ok(())
                });
                let mut run = Run { starts: vec![], running: vec![], times: vec![], max_running: 0, runaway: false };
                run.runaway = !quiesce(&probe, &cprobe).await;
                run.starts.push(probe.starts.lock().unwrap().len() as u64);
                run.running.push(probe.running.load(Ordering::SeqCst) as u64);
                for st in &steps {
                    if run.runaway {
                        break;
                    }
                    if let Some(d) = st["adv"].as_u64() {
                        clock.advance(time::Duration::nanoseconds(d as i64));
                    } else if let Some(k) = st["rel_h"].as_u64() {
                        if let Some(g) = &gate {
                            g.add_permits(k as usize);
                        }
                    } else if let Some(k) = st["rel_r"].as_u64() {
                        if let Some(g) = &req_gate {
                            g.add_permits(k as usize);
                        }
                    } else if let Some(k) = st["rel_o"].as_u64() {
                        if let Some(g) = &open_gate {
                            g.add_permits(k as usize);
                        }
                    }
                    run.runaway = !quiesce(&probe, &cprobe).await;
                    run.starts.push(probe.starts.lock().unwrap().len() as u64);
                    run.running.push(probe.running.load(Ordering::SeqCst) as u64);
                }
                run.times = probe.starts.lock().unwrap().iter().map(|t| (*t - t0).whole_nanoseconds() as u128).collect();
                run.max_running = probe.max_running.load(Ordering::SeqCst);
                Ok(run)
            })
            .await;
            res.expect("scenario")
        })
    }

    impl RpcHalf {
        pub fn gen(&mut self, opts: &Opts, rng: &mut StdRng) -> Vec<Value> {
            let count = if opts.thorough { 800 } else { 48 };
            let mut ops = vec![];
            // directed: a long idle period (every server-side stream has had time to do whatever it does when idle), then
            // as many calls as the protocol allows at once: the limiter's window bound must hold for the burst
            for inflight in [hook::INFLIGHT_PING as u64, hook::INFLIGHT_CONSENSUS as u64, hook::INFLIGHT_GET_BLOCK as u64] {
                for (burst, refresh) in [(1u64, 100_000_000u64), (3, 10_000_000), (4, 1_000_000_000)] {
                    let idle = refresh * (burst + inflight + 1);
                    ops.push(json!({"op": "rpc", "inflight": inflight, "burst": burst, "refresh_ns": refresh, "client_streams": 16,
                        "hold_handlers": false, "hold_requests": false, "hold_opens": false,
                        "steps": [{"adv": idle}, {"adv": 0}, {"adv": refresh / 2}, {"adv": idle}, {"adv": 0}], "reset": true}));
                    ops.push(json!({"op": "rpc", "inflight": inflight, "burst": burst, "refresh_ns": refresh, "client_streams": inflight + 2,
                        "hold_handlers": false, "hold_requests": true, "hold_opens": false,
                        "steps": [{"adv": idle}, {"rel_r": inflight + 1}, {"adv": 0}, {"adv": idle}, {"rel_r": inflight + 1}, {"adv": 0}], "reset": true}));
                    // the client opens nothing while the connection is idle, then opens everything it may
                    ops.push(json!({"op": "rpc", "inflight": inflight, "burst": burst, "refresh_ns": refresh, "client_streams": inflight + 2,
                        "hold_handlers": false, "hold_requests": false, "hold_opens": true,
                        "steps": [{"adv": idle}, {"rel_o": burst + inflight + 2}, {"adv": 0}, {"adv": idle}, {"rel_o": burst + inflight + 2}, {"adv": 0}], "reset": true}));
                }
            }
            for i in 0..count {
                // the in-flight limits of the shipped RPCs (ping / consensus / get_block)
                let inflight = *[hook::INFLIGHT_PING as u64, hook::INFLIGHT_CONSENSUS as u64, hook::INFLIGHT_GET_BLOCK as u64]
                    .choose(rng)
                    .unwrap();
                let burst = rng.gen_range(1..=4u64);
                let refresh = *[10_000_000u64, 100_000_000, 1_000_000_000, 7].choose(rng).unwrap();
                let streams = match rng.gen_range(0..4) {
                    0 => inflight,
                    1 => inflight + 2,
                    2 => 16,
                    _ => rng.gen_range(1..=inflight),
                };
                let (hold_h, hold_r, hold_o) = match i % 4 {
                    0 => (false, false, false),
                    1 => (true, false, false),
                    2 => (false, true, false),
                    _ => (false, false, true),
                };
                let mut steps = vec![];
                for _ in 0..rng.gen_range(5..=9) {
                    let adv = |rng: &mut StdRng| {
                        let d = match rng.gen_range(0..7) {
                            0 => 0,
                            1 => refresh / 2,
                            2 => refresh - 1,
                            3 => refresh,
                            4 => refresh + 1,
                            5 => 3 * refresh,
                            _ => refresh * (burst + inflight + 1),
                        };
                        json!({"adv": d})
                    };
                    let st = if hold_h && rng.gen_bool(0.4) {
                        json!({"rel_h": rng.gen_range(1..=inflight + 1)})
                    } else if hold_r && rng.gen_bool(0.4) {
                        json!({"rel_r": rng.gen_range(1..=inflight + 1)})
                    } else if hold_o && rng.gen_bool(0.45) {
                        json!({"rel_o": rng.gen_range(1..=burst + 1)})
                    } else {
                        adv(rng)
                    };
                    steps.push(st);
                }
                ops.push(json!({"op": "rpc", "inflight": inflight, "burst": burst, "refresh_ns": refresh,
                    "client_streams": streams, "hold_handlers": hold_h, "hold_requests": hold_r, "hold_opens": hold_o, "steps": steps,
                    "reset": true}));
            }
            ops
        }

        pub fn exec(&mut self, op: &Value, out: &mut Out) -> Value {
            out.count("rpc");
            let run = match catch(|| scenario(op)) {
                Ok(r) => r,
                Err(site) => {
                    out.oracle_fail(&site, "rpc scenario panicked", op.clone());
                    return json!({"panic": site});
                }
            };
            let inflight = op["inflight"].as_u64().unwrap() as u128;
            let n = inflight.min(op["client_streams"].as_u64().unwrap() as u128);
            let burst = op["burst"].as_u64().unwrap() as u128;
            let refresh = op["refresh_ns"].as_u64().unwrap() as u128;
            let hold_r = op["hold_requests"].as_bool().unwrap_or(false);
            if run.runaway {
                out.oracle_fail("rpc_runaway", &format!("no quiescence: {} requests started without the clock moving (rate not enforced)", run.times.len()), op.clone());
                return json!({"class": "rpc", "runaway": true, "starts": run.starts, "running": run.running});
            }
            // S: in-flight cap
            if run.max_running as u128 > inflight {
                out.oracle_fail("rpc_inflight", &format!("{} handlers ran concurrently, INFLIGHT = {inflight}", run.max_running), op.clone());
            }
            // S: requests started within any window (the tighter bound when requests follow the OPEN at once)
            let extra = if hold_r { n } else { 0 };
            'outer: for j in 0..run.times.len() {
                for i in 0..=j {
                    let cnt = (j - i + 1) as u128;
                    let bound = extra + burst + (run.times[j] - run.times[i]) / refresh + 1;
                    if cnt > bound {
                        out.oracle_fail("rpc_window", &format!("{cnt} requests started in [{}, {}] ns > {bound}", run.times[i], run.times[j]), op.clone());
                        break 'outer;
                    }
                }
            }
            json!({"class": "rpc", "starts": run.starts, "running": run.running})
        }
    }
}

type Fut = Pin<Box<dyn Future<Output = ctx::OrCanceled<limiter::Permit<'static>>>>>;

/// One limiter under test with its clock, pending futures, live permits and the monitors' bookkeeping.
struct Case {
    clock: ctx::ManualClock,
    ctx: *mut ctx::Ctx,
    lim: *mut limiter::Limiter,
    start: time::Instant,
    burst: u128,
    refresh: i128,
    futs: BTreeMap<u64, Fut>,
    permits: BTreeMap<u64, limiter::Permit<'static>>,
    /// requested permit count per id
    req: BTreeMap<u64, u64>,
    /// ids of pending, queued futures in arrival (first poll) order
    waiting: Vec<u64>,
    grants: Vec<(u128, u128)>,
    drops: Vec<(u128, u128)>,
    fails: Vec<(String, String)>,
}

impl Drop for Case {
    fn drop(&mut self) {
        // futures and permits borrow the limiter and the ctx: drop them first
        let futs = std::mem::take(&mut self.futs);
        let permits = std::mem::take(&mut self.permits);
        if std::thread::panicking() {
            // a second panic (e.g. a poisoned mutex inside `Permit::drop`) would abort: leak instead
            std::mem::forget(futs);
            std::mem::forget(permits);
            return;
        }
        let (lim, c) = (self.lim, self.ctx);
        let ok = catch(move || {
            drop(futs);
            drop(permits);
        })
        .is_ok();
        if ok {
            // SAFETY: both were created by Box::into_raw in `Case::new`, nothing refers to them any more.
            unsafe {
                drop(Box::from_raw(lim));
                drop(Box::from_raw(c));
            }
        }
    }
}

impl Case {
    fn new(burst: u64, refresh_s: i64, refresh_ns: i32) -> Self {
        let clock = ctx::ManualClock::new();
        let c = Box::into_raw(Box::new(ctx::test_root(&clock)));
        // SAFETY: `c` lives until `Case::drop`, after every borrower is gone.
        let cref: &'static ctx::Ctx = unsafe { &*c };
        let refresh = time::Duration::new(refresh_s, refresh_ns);
        let rate = limiter::Rate { burst: burst as usize, refresh };
        let l = Box::into_raw(Box::new(limiter::Limiter::new(cref, rate)));
        Self {
            clock,
            ctx: c,
            lim: l,
            start: cref.now(),
            burst: burst as u128,
            refresh: refresh.whole_nanoseconds(),
            futs: BTreeMap::new(),
            permits: BTreeMap::new(),
            req: BTreeMap::new(),
            waiting: vec![],
            grants: vec![],
            drops: vec![],
            fails: vec![],
        }
    }
    fn cx(&self) -> &'static ctx::Ctx {
        // SAFETY: see `new`.
        unsafe { &*self.ctx }
    }
    fn l(&self) -> &'static limiter::Limiter {
        // SAFETY: see `new`.
        unsafe { &*self.lim }
    }
    fn now_ns(&self) -> u128 {
        (self.cx().now() - self.start).whole_nanoseconds() as u128
    }
    fn fail(&mut self, site: &str, what: String) {
        self.fails.push((site.to_string(), what));
    }

    fn window_check(&mut self, which: &str) {
        if self.refresh <= 0 {
            return;
        }
        let v = if which == "grant" { &self.grants } else { &self.drops };
        let (t_last, _) = *v.last().unwrap();
        let mut sum = 0u128;
        let mut bad = None;
        for &(t, n) in v.iter().rev() {
            sum += n;
            let bound = self.burst + (t_last - t) / (self.refresh as u128) + 1;
            if sum > bound {
                bad = Some((t, sum, bound));
                break;
            }
        }
        if let Some((t, sum, bound)) = bad {
            let site = if which == "grant" { "window_bound" } else { "consumption_window_bound" };
            self.fail(site, format!("{sum} permits {which}ed in [{t}, {t_last}] ns > burst + T/refresh + 1 = {bound}"));
        }
    }

    fn on_grant(&mut self, id: u64) {
        let n_req = self.req[&id] as u128;
        if n_req > self.burst {
            self.fail("over_burst_granted", format!("acquire({n_req}) granted with burst {}", self.burst));
        }
        if self.refresh > 0 {
            if self.waiting.first() != Some(&id) {
                self.fail("fifo", format!("id {id} served while {:?} arrived earlier and still waits", self.waiting.first()));
            }
            self.waiting.retain(|x| *x != id);
            let t = self.now_ns();
            self.grants.push((t, n_req));
            self.window_check("grant");
        }
    }

    fn poll_id(&mut self, id: u64) -> Value {
        let Some(fut) = self.futs.get_mut(&id) else { return json!({"r": "noop"}) };
        let mut cx = Context::from_waker(Waker::noop());
        match fut.as_mut().poll(&mut cx) {
            Poll::Ready(Ok(p)) => {
                self.futs.remove(&id);
                self.permits.insert(id, p);
                self.on_grant(id);
                json!({"r": "granted", "t": self.now_ns() as u64})
            }
            Poll::Ready(Err(_)) => {
                self.futs.remove(&id);
                self.waiting.retain(|x| *x != id);
                json!({"r": "ctx_canceled"})
            }
            Poll::Pending => json!({"r": "pending"}),
        }
    }

    fn exec(&mut self, op: &Value) -> Value {
        let id = op["id"].as_u64().unwrap_or(0);
        let obs = match op["op"].as_str().unwrap_or("") {
            "acquire" => {
                let n = op["n"].as_u64().expect("n");
                if self.futs.contains_key(&id) || self.permits.contains_key(&id) {
                    // ids are unique per case; a repeated id is not executed (the model would differ)
                    return json!({"r": "dup"});
                }
                self.req.insert(id, n);
                let fut: Fut = Box::pin(self.l().acquire(self.cx(), n as usize));
                self.futs.insert(id, fut);
                if (n as u128) <= self.burst && self.refresh > 0 {
                    self.waiting.push(id);
                }
                let r = self.poll_id(id);
                if r["r"] == "pending" && self.refresh <= 0 && (n as u128) <= self.burst {
                    self.fail("inf_rate_blocked", format!("acquire({n}) not granted at once although refresh <= 0"));
                }
                r
            }
            "poll" => self.poll_id(id),
            "cancel" => match self.futs.remove(&id) {
                Some(f) => {
                    drop(f);
                    self.waiting.retain(|x| *x != id);
                    json!({"r": "cancelled"})
                }
                None => json!({"r": "noop"}),
            },
            "drop" => match self.permits.remove(&id) {
                Some(p) => {
                    drop(p);
                    if self.refresh > 0 && self.req[&id] > 0 {
                        let t = self.now_ns();
                        self.drops.push((t, self.req[&id] as u128));
                        self.window_check("drop");
                    }
                    json!({"r": "dropped"})
                }
                None => json!({"r": "noop"}),
            },
            "advance" => {
                let d = op["d"].as_u64().expect("d");
                self.clock.advance(time::Duration::nanoseconds(d as i64));
                json!({"r": "advanced", "now": self.now_ns() as u64})
            }
            x => panic!("unknown op {x}"),
        };
        if let Some(e) = op.get("expect").and_then(|e| e.as_str()) {
            if obs["r"] != e {
                self.fail("expectation", format!("{} expected {e}, got {}", op, obs));
            }
        }
        obs
    }
}

fn init_op(burst: u64, refresh_s: i64, refresh_ns: i32) -> Value {
    json!({"op": "init", "burst": burst, "refresh_s": refresh_s, "refresh_ns": refresh_ns, "reset": true})
}

/// Builds one case: every emitted op is also executed on a scratch limiter so that the generator knows which
/// futures are pending and which permits are live (mostly-valid operation sequences).
struct Builder {
    ops: Vec<Value>,
    case: Case,
    next_id: u64,
    burst: u64,
    refresh: u64,
    /// the real limiter panicked while generating: stop extending this case (the run reports the panic)
    dead: bool,
}

impl Builder {
    fn new(burst: u64, refresh_s: i64, refresh_ns: i32) -> Self {
        let case = Case::new(burst, refresh_s, refresh_ns);
        let refresh = if case.refresh > 0 { case.refresh.min(u64::MAX as i128) as u64 } else { 0 };
        Self { ops: vec![init_op(burst, refresh_s, refresh_ns)], case, next_id: 0, burst, refresh, dead: false }
    }
    fn ns(burst: u64, refresh_ns: u64) -> Self {
        Self::new(burst, (refresh_ns / 1_000_000_000) as i64, (refresh_ns % 1_000_000_000) as i32)
    }
    fn emit(&mut self, op: Value) -> Value {
        if self.dead {
            return json!({"r": "dead"});
        }
        let case = &mut self.case;
        let r = match catch(|| case.exec(&op)) {
            Ok(r) => r,
            Err(site) => {
                self.dead = true;
                json!({"panic": site})
            }
        };
        self.ops.push(op);
        r
    }
    fn acquire(&mut self, n: u64) -> (u64, bool) {
        let id = self.next_id;
        self.next_id += 1;
        let r = self.emit(json!({"op": "acquire", "id": id, "n": n}));
        (id, r["r"] == "granted")
    }
    fn poll(&mut self, id: u64) -> bool {
        self.emit(json!({"op": "poll", "id": id}))["r"] == "granted"
    }
    fn cancel(&mut self, id: u64) {
        self.emit(json!({"op": "cancel", "id": id}));
    }
    fn drop_(&mut self, id: u64) {
        self.emit(json!({"op": "drop", "id": id}));
    }
    fn advance(&mut self, d: u64) {
        self.emit(json!({"op": "advance", "d": d}));
    }
    fn pending(&self) -> Vec<u64> {
        self.case.futs.keys().copied().collect()
    }
    fn held(&self) -> Vec<u64> {
        self.case.permits.keys().copied().collect()
    }
    fn now(&self) -> u64 {
        self.case.now_ns() as u64
    }
    /// advance to `k` ns before / after the next refresh boundary
    fn advance_to_boundary(&mut self, delta: i64) {
        if self.refresh == 0 {
            return;
        }
        let now = self.now();
        let next = (now / self.refresh + 1) * self.refresh;
        let target = (next as i64 + delta).max(now as i64) as u64;
        self.advance(target - now);
    }
    /// Epilogue: cancel every wait, drop every permit, let the limiter refill, and require that a request for
    /// the whole burst is granted at once (a cancelled wait or a dropped permit must leave nothing reserved).
    fn epilogue(mut self) -> Vec<Value> {
        if self.refresh > 0 && self.burst <= 1000 && self.refresh <= 1_000_000_000_000 {
            for id in self.pending() {
                self.cancel(id);
            }
            for id in self.held() {
                self.drop_(id);
            }
            self.advance(self.refresh * (self.burst + 1));
            let id = self.next_id;
            self.next_id += 1;
            self.emit(json!({"op": "acquire", "id": id, "n": self.burst, "expect": "granted"}));
        }
        self.ops
    }
}

fn small_rate(rng: &mut StdRng) -> (u64, u64) {
    let burst = rng.gen_range(1..=6);
    let refresh = match rng.gen_range(0..4) {
        0 => rng.gen_range(1..=5),
        1 => rng.gen_range(6..=50),
        2 => 1_000_000 * rng.gen_range(1..=200),
        _ => rng.gen_range(1..=20),
    };
    (burst, refresh)
}

/// family: an OLD limiter — the clock is far ahead of the limiter's creation (around 2^31 and 2^32 refresh periods, where
/// a 32-bit tick counter or multiplier would saturate or wrap); the refill arithmetic must be the same as on day one
fn fam_old_limiter(rng: &mut StdRng) -> Vec<Value> {
    let burst = rng.gen_range(1..=4u64);
    let refresh = *[1u64, 3, 7, 1000].choose(rng).unwrap();
    let mut b = Builder::ns(burst, refresh);
    let periods: u64 = match rng.gen_range(0..5) {
        0 => (1 << 31) - 3,
        1 => (1 << 31) + rng.gen_range(0..5),
        2 => (1 << 32) + rng.gen_range(0..5),
        3 => (1 << 31) * 3 + 1,
        _ => (1 << 33) + 17,
    };
    // optionally some use on day one
    if rng.gen_bool(0.5) {
        let (id, ok) = b.acquire(burst);
        if ok {
            b.drop_(id);
        }
    }
    b.advance(periods * refresh + rng.gen_range(0..refresh));
    // drain the burst, then ask for more than one refill period delivers: the waits must be real
    for _ in 0..(burst + 6) {
        let (id, ok) = b.acquire(1);
        if ok {
            b.drop_(id);
        } else {
            if rng.gen_bool(0.5) {
                b.advance_to_boundary(-1);
                b.poll(id);
            }
            b.advance_to_boundary(0);
            if b.poll(id) {
                b.drop_(id);
            }
        }
    }
    b.epilogue()
}

/// family a: random interleaving of all operations
fn fam_random(rng: &mut StdRng, len: usize) -> Vec<Value> {
    let (burst, refresh) = small_rate(rng);
    let mut b = Builder::ns(burst, refresh);
    for _ in 0..len {
        let pend = b.pending();
        let held = b.held();
        match rng.gen_range(0..100) {
            0..=24 => {
                let n = match rng.gen_range(0..10) {
                    0 => 0,
                    1 => burst + rng.gen_range(1..=2),
                    2 => burst,
                    _ => rng.gen_range(1..=burst),
                };
                b.acquire(n);
            }
            25..=49 if !pend.is_empty() => {
                if rng.gen_bool(0.3) {
                    // an executor waking everybody, in random order
                    let mut p = pend.clone();
                    p.shuffle(rng);
                    for id in p {
                        b.poll(id);
                    }
                } else {
                    b.poll(*pend.choose(rng).unwrap());
                }
            }
            50..=57 if !pend.is_empty() => b.cancel(*pend.choose(rng).unwrap()),
            58..=79 if !held.is_empty() => b.drop_(*held.choose(rng).unwrap()),
            80..=84 => b.advance_to_boundary(*[-1i64, 0, 1].choose(rng).unwrap()),
            _ => {
                let d = match rng.gen_range(0..4) {
                    0 => 0,
                    1 => rng.gen_range(1..=refresh),
                    2 => rng.gen_range(1..=3 * refresh),
                    _ => refresh * rng.gen_range(1..=burst + 2),
                };
                b.advance(d);
            }
        }
    }
    b.epilogue()
}

/// family b: refill arithmetic at tick boundaries (consumption just before / at / after a boundary, wake-up
/// one nanosecond before / at / after the computed deadline)
fn fam_boundary(rng: &mut StdRng) -> Vec<Value> {
    let (burst, refresh) = small_rate(rng);
    let mut b = Builder::ns(burst, refresh.max(2));
    let rounds = rng.gen_range(2..=5);
    for _ in 0..rounds {
        b.advance_to_boundary(*[-1i64, 0, 1].choose(rng).unwrap());
        let k = rng.gen_range(1..=burst);
        let (id, ok) = b.acquire(k);
        if ok {
            if rng.gen_bool(0.5) {
                b.advance_to_boundary(*[-1i64, 0].choose(rng).unwrap());
            }
            b.drop_(id);
        }
        let (w, ok) = b.acquire(rng.gen_range(1..=burst));
        if !ok {
            // step to the deadline in three probes: just before a boundary, at it, after it
            for _ in 0..(burst + 2) {
                if !b.pending().contains(&w) {
                    break;
                }
                b.advance_to_boundary(-1);
                if b.poll(w) {
                    break;
                }
                b.advance(1);
                if b.poll(w) {
                    break;
                }
            }
        }
        if rng.gen_bool(0.7) {
            for id in b.held() {
                if rng.gen_bool(0.6) {
                    b.drop_(id);
                }
            }
        }
    }
    b.epilogue()
}

/// family c/d: releases and wake-ups in particular orders around a sleeper that already computed `need`
fn fam_release_orders(rng: &mut StdRng) -> Vec<Value> {
    let burst = rng.gen_range(2..=6);
    let refresh = rng.gen_range(2..=12);
    let mut b = Builder::ns(burst, refresh);
    // two holders share the burst
    let a = rng.gen_range(1..burst);
    let (ha, _) = b.acquire(a);
    let (hb, _) = b.acquire(burst - a);
    // a waiter that needs more than what one release frees
    let wn = rng.gen_range(1..=burst);
    let (w, _) = b.acquire(wn);
    // a second waiter behind it
    let (w2, _) = b.acquire(rng.gen_range(1..=burst));
    let mut order = vec![ha, hb];
    order.shuffle(rng);
    for h in order {
        b.advance(rng.gen_range(0..=2 * refresh));
        b.drop_(h);
        if rng.gen_bool(0.7) {
            b.poll(w);
        }
        if rng.gen_bool(0.3) {
            b.poll(w2);
        }
    }
    // late wake-up: let several ticks pass, with further consumption in between
    for _ in 0..rng.gen_range(1..=4) {
        b.advance(rng.gen_range(0..=3 * refresh));
        if rng.gen_bool(0.5) {
            b.poll(w);
        }
        if rng.gen_bool(0.5) {
            b.poll(w2);
        }
        for h in b.held() {
            if rng.gen_bool(0.4) {
                b.drop_(h);
            }
        }
    }
    b.advance(refresh * (burst + 1));
    b.poll(w2);
    b.poll(w);
    b.poll(w2);
    b.epilogue()
}

/// family e: arrival order (a big request first, small ones behind it, polled in the "wrong" order)
fn fam_fifo(rng: &mut StdRng) -> Vec<Value> {
    let burst = rng.gen_range(2..=6);
    let refresh = rng.gen_range(1..=10);
    let mut b = Builder::ns(burst, refresh);
    let (h, _) = b.acquire(rng.gen_range(1..=burst));
    let (big, _) = b.acquire(burst);
    let mut small = vec![];
    for _ in 0..rng.gen_range(1..=4) {
        small.push(b.acquire(rng.gen_range(0..=1)).0);
    }
    for _ in 0..3 {
        let mut s = small.clone();
        s.shuffle(rng);
        for id in s {
            b.poll(id);
        }
        b.advance(rng.gen_range(0..=refresh));
    }
    b.drop_(h);
    for id in small.iter().rev() {
        b.poll(*id);
    }
    if rng.gen_bool(0.5) {
        b.cancel(big);
    } else {
        b.advance(refresh * burst);
        b.poll(big);
    }
    for _ in 0..(burst + 2) {
        for id in small.clone() {
            b.poll(id);
        }
        for id in b.held() {
            if rng.gen_bool(0.5) {
                b.drop_(id);
            }
        }
        b.advance(refresh);
    }
    b.epilogue()
}

/// family f: cancellation at each of the three await points, then a fresh caller measures what is left
fn fam_cancel(rng: &mut StdRng) -> Vec<Value> {
    let burst = rng.gen_range(1..=5);
    let refresh = rng.gen_range(2..=10);
    let mut b = Builder::ns(burst, refresh);
    let point = rng.gen_range(0..3);
    let (h, _) = b.acquire(burst);
    match point {
        0 => {
            // waiting for the mutex behind another waiter
            let (w1, _) = b.acquire(1);
            let (w2, _) = b.acquire(rng.gen_range(1..=burst));
            b.poll(w2);
            b.cancel(w2);
            b.drop_(h);
            b.poll(w1);
        }
        1 => {
            // head of the queue inside wait_for (everything is reserved)
            let (w1, _) = b.acquire(rng.gen_range(1..=burst));
            b.poll(w1);
            b.cancel(w1);
            b.advance(rng.gen_range(0..=refresh));
            b.drop_(h);
        }
        _ => {
            // head of the queue, `need` computed, sleeping
            b.advance(rng.gen_range(0..=refresh));
            b.drop_(h);
            let (w1, _) = b.acquire(rng.gen_range(1..=burst));
            b.advance(rng.gen_range(0..refresh));
            b.poll(w1);
            b.cancel(w1);
        }
    }
    // a fresh caller: its grant time shows whether the cancelled wait consumed or reserved anything
    let (f, ok) = b.acquire(rng.gen_range(1..=burst));
    if !ok {
        for _ in 0..(burst + 1) {
            b.advance_to_boundary(-1);
            if b.poll(f) {
                break;
            }
            b.advance(1);
            if b.poll(f) {
                break;
            }
        }
    }
    b.epilogue()
}

/// family g/h: infinite rate, over-burst requests, zero-permit requests
fn fam_inf_and_over(rng: &mut StdRng) -> Vec<Value> {
    let mut b = match rng.gen_range(0..4) {
        0 => Builder::new(u64::MAX, 0, 0), // Rate::INF
        1 => Builder::new(rng.gen_range(0..=3), 0, 0),
        2 => Builder::new(rng.gen_range(1..=3), -rng.gen_range(0..=2), -rng.gen_range(1..=5)),
        _ => Builder::ns(rng.gen_range(0..=3), rng.gen_range(1..=5)),
    };
    let burst = b.burst;
    for _ in 0..rng.gen_range(4..=12) {
        match rng.gen_range(0..6) {
            0 => {
                b.acquire(burst.saturating_add(rng.gen_range(1..=3)));
            }
            1 => {
                b.acquire(0);
            }
            2 => b.advance(rng.gen_range(0..=7)),
            3 => {
                if let Some(id) = b.held().choose(rng) {
                    b.drop_(*id);
                }
            }
            4 => {
                let p = b.pending();
                if let Some(id) = p.choose(rng) {
                    if rng.gen_bool(0.5) {
                        b.poll(*id);
                    } else {
                        b.cancel(*id);
                    }
                }
            }
            _ => {
                let n = if burst == 0 { 0 } else { rng.gen_range(0..=burst.min(1 << 40)) };
                b.acquire(n);
            }
        }
    }
    b.epilogue()
}

/// family i: extreme rates (saturating arithmetic): burst = usize::MAX with a tiny refresh, and a refresh so long
/// that `refresh * need` exceeds `Duration::MAX`
fn fam_extreme(rng: &mut StdRng) -> Vec<Value> {
    if rng.gen_bool(0.5) {
        let mut b = Builder::new(u64::MAX, 0, rng.gen_range(1..=3));
        let k = rng.gen_range(1..=9u64);
        let (a, _) = b.acquire(u64::MAX - k);
        let (c, _) = b.acquire(k);
        b.drop_(c);
        b.advance(rng.gen_range(0..=40));
        b.drop_(a);
        let (w, _) = b.acquire(rng.gen_range(1..=20));
        for _ in 0..4 {
            b.advance(rng.gen_range(0..=30));
            b.poll(w);
        }
        let (w2, _) = b.acquire(u64::MAX);
        b.advance(1_000_000_000_000);
        b.poll(w2);
        b.ops
    } else {
        // refresh = 10^18 s: need >= 10 gives refresh*need > Duration::MAX (infinite deadline)
        let burst = rng.gen_range(10..=20);
        let mut b = Builder::new(burst, 1_000_000_000_000_000_000, 0);
        let (a, _) = b.acquire(burst);
        b.advance(rng.gen_range(0..=1_000_000_000));
        b.drop_(a);
        let (w, _) = b.acquire(rng.gen_range(1..=burst));
        b.advance(rng.gen_range(0..=4_000_000_000_000_000_000));
        b.poll(w);
        b.cancel(w);
        let (w2, _) = b.acquire(rng.gen_range(1..=burst));
        b.poll(w2);
        b.ops
    }
}

/// family k: a chain of waiters polled round-robin, the way an executor would (everybody is woken after
/// every event)
fn fam_executor(rng: &mut StdRng, len: usize) -> Vec<Value> {
    let (burst, refresh) = small_rate(rng);
    let mut b = Builder::ns(burst, refresh);
    for _ in 0..len {
        match rng.gen_range(0..10) {
            0..=3 => {
                b.acquire(rng.gen_range(1..=burst));
            }
            4..=6 => {
                if let Some(id) = b.held().choose(rng) {
                    b.drop_(*id);
                }
            }
            7 => {
                if let Some(id) = b.pending().choose(rng) {
                    b.cancel(*id);
                }
            }
            _ => b.advance(rng.gen_range(0..=2 * refresh)),
        }
        for id in b.pending() {
            b.poll(id);
        }
    }
    b.epilogue()
}

pub struct C15 {
    case: Option<Case>,
    case_ops: Vec<Value>,
    rpc: rpc_half::RpcHalf,
}

impl C15 {
    fn exec_lim(&mut self, op: &Value, out: &mut Out) -> Value {
        if op["op"] == "init" {
            let old = self.case.take();
            let _ = catch(move || drop(old));
            self.case_ops.clear();
            self.case_ops.push(op.clone());
            let (b, s, n) = (op["burst"].as_u64().expect("burst"), op["refresh_s"].as_i64().expect("refresh_s"),
                             op["refresh_ns"].as_i64().expect("refresh_ns") as i32);
            return match catch(|| Case::new(b, s, n)) {
                Ok(c) => {
                    self.case = Some(c);
                    json!({"r": "init", "class": "init"})
                }
                Err(site) => {
                    out.oracle_fail(&site, "Limiter::new panicked", op.clone());
                    json!({"panic": site})
                }
            };
        }
        self.case_ops.push(op.clone());
        let Some(case) = self.case.as_mut() else { return json!({"r": "no_case"}) };
        out.count(op["op"].as_str().unwrap_or("?"));
        let r = catch(|| case.exec(op));
        let mut obs = match r {
            Ok(v) => v,
            Err(site) => {
                case.fails.push((site.clone(), "limiter operation panicked".into()));
                json!({"panic": site})
            }
        };
        if let Some(r) = obs["r"].as_str().map(|s| s.to_string()) {
            out.count(&format!("result={r}"));
            obs["class"] = json!(r);
        }
        for (site, what) in std::mem::take(&mut case.fails) {
            out.oracle_fail(&site, &what, json!({"op": "case", "ops": self.case_ops.clone()}));
        }
        obs
    }
}

impl Prop for C15 {
    fn gen(&mut self, opts: &Opts) -> Vec<Value> {
        let mut rng = opts.rng();
        let mut ops = vec![];
        let cases = opts.n.max(10);
        for i in 0..cases {
            let c = match i % 10 {
                0 | 1 => fam_random(&mut rng, 60),
                2 => fam_boundary(&mut rng),
                3 => fam_release_orders(&mut rng),
                4 => fam_fifo(&mut rng),
                5 => fam_cancel(&mut rng),
                6 => fam_inf_and_over(&mut rng),
                7 => fam_executor(&mut rng, 25),
                8 => {
                    if i % 50 == 8 {
                        fam_extreme(&mut rng)
                    } else if i % 50 == 18 || i % 50 == 38 {
                        fam_old_limiter(&mut rng)
                    } else {
                        fam_random(&mut rng, 25)
                    }
                }
                _ => fam_release_orders(&mut rng),
            };
            ops.extend(c);
        }
        ops.extend(self.rpc.gen(opts, &mut rng));
        ops
    }

    fn exec(&mut self, op: &Value, out: &mut Out) -> Value {
        let name = op["op"].as_str().unwrap_or("");
        if name.starts_with("rpc") {
            return self.rpc.exec(op, out);
        }
        if name == "case" {
            let mut res = vec![];
            for sub in op["ops"].as_array().cloned().unwrap_or_default() {
                res.push(self.exec_lim(&sub, out));
            }
            return json!({"r": "case", "class": "case", "res": res});
        }
        self.exec_lim(op, out)
    }
}

fn main() {
    vharness::main_for(&mut C15 { case: None, case_ops: vec![], rpc: rpc_half::RpcHalf::default() });
}
