//! C16 (b): the replica's vote caches stay bounded under floods of future-view votes.
use vharness::replica::{Mode, ReplicaProp};

fn main() {
    vharness::main_for(&mut ReplicaProp::new(Mode::Flood, "C16"));
}
