//! C19: the block fetch queue (`gossip::fetch::Queue`) and the block fetcher (`Network::run_block_fetcher`).
//!
//! The real futures of `Queue::request` / `Queue::accept_block` run as tasks of a current-thread tokio runtime.
//! One operation line = a list of environment actions (`do`) applied back to back **without** polling anything in
//! between, followed by polling every task to quiescence. The implementation's visible events of that step
//! (accept_block returned, request returned) are written into the operation line (`trace`) — that is the event log
//! the Lean model replays through its transition relation (trace acceptance + idle-vs-enabled at quiescence) — and
//! into the observation together with a snapshot (`blocks` = `Queue::current_blocks()`, live requests, active
//! accept calls, holds).
//!
//! Environment actions (`do` entries):
//!   ["req",n]  ["cancel",n]  ["start",p]  ["stop",p]  ["ann",p,first,last|null]  ["ok",h]  ["fail",h]
//! Fetcher family (the real `run_block_fetcher` over a real `EngineManager`, see `FetSim`):
//!   ["queue"] queue the next block in the store.
//!
//! Property monitors (S) run on the implementation's own history, independent of the model (see `Sim::monitors`).
use std::{
    collections::{BTreeMap, BTreeSet},
    sync::{Arc, Mutex},
};

use rand::{rngs::StdRng, seq::SliceRandom, Rng};
use serde_json::{json, Value};
use vharness::{Opts, Out};
use zksync_concurrency::{ctx, scope, sync, time};
use zksync_consensus_engine::{testonly::in_memory, BlockStoreState, EngineManager, Last};
use zksync_consensus_network::verif::fetch::{Fetcher, Queue};
use zksync_consensus_roles::validator::{self, BlockNumber};

type Cancel = tokio::sync::oneshot::Sender<()>;
type AvailRx = sync::watch::Receiver<BlockStoreState>;

enum Ev {
    Acc { p: u64, n: u64, send: tokio::sync::oneshot::Sender<()>, rx: AvailRx },
    Stopped { p: u64, rx: AvailRx },
    Done(u64),
    Cancelled(u64),
}

/// Either a stand-alone queue or the queue inside a gossip network driven by the real block fetcher.
#[derive(Clone)]
enum Q {
    Plain(Arc<Queue>),
    Net(Arc<Fetcher>),
}

impl Q {
    fn current_blocks(&self) -> Vec<u64> {
        match self {
            Q::Plain(q) => q.current_blocks(),
            Q::Net(f) => f.current_blocks(),
        }
    }
    async fn accept_block(
        &self,
        ctx: &ctx::Ctx,
        rx: &mut AvailRx,
    ) -> ctx::OrCanceled<(BlockNumber, tokio::sync::oneshot::Sender<()>)> {
        match self {
            Q::Plain(q) => q.accept_block(ctx, rx).await,
            Q::Net(f) => f.accept_block(ctx, rx).await,
        }
    }
}

fn state(first: u64, last: Option<u64>) -> BlockStoreState {
    BlockStoreState { first: BlockNumber(first), last: last.map(|l| Last::PreGenesis(BlockNumber(l))) }
}

fn contains(a: &(u64, Option<u64>), n: u64) -> bool {
    a.1.is_some_and(|l| a.0 <= n && n <= l)
}

/// The store behind the fetcher family.
struct FetSim {
    manager: Arc<EngineManager>,
    blocks: Vec<validator::Block>,
    /// number of the first block of `blocks`
    first: u64,
    /// stops the fetcher and the engine runner
    stop: Option<Cancel>,
    /// `max_block_queue_size`
    k: u64,
    /// `queued().next()` when the fetcher was started
    start: u64,
    /// whether the engine's background tasks run (blocks get persisted) or not (they stay queued only)
    persist: bool,
}

struct Sim {
    root: Arc<ctx::Ctx>,
    q: Q,
    fet: Option<FetSim>,
    log: Arc<Mutex<Vec<Ev>>>,
    handles: Vec<tokio::task::JoinHandle<()>>,
    /// live `request` tasks (queue mode): block -> cancel handle (None once used)
    reqs: BTreeMap<u64, Option<Cancel>>,
    /// active `accept_block` calls: peer -> cancel handle
    accs: BTreeMap<u64, Option<Cancel>>,
    avail_tx: BTreeMap<u64, sync::watch::Sender<BlockStoreState>>,
    /// the connection's receiver, parked here while no accept call of the peer is active
    avail_rx: BTreeMap<u64, AvailRx>,
    avail: BTreeMap<u64, (u64, Option<u64>)>,
    holds: BTreeMap<u64, (u64, u64, tokio::sync::oneshot::Sender<()>)>,
    next_hold: u64,
    /// gates of the live futures: (0, block) for `request`, (1, peer) for `accept_block`
    gates: BTreeMap<(u8, u64), Gate>,
    // ---- monitor state (history of the implementation's own events)
    /// block -> hold id accepted for the current incarnation of the request and not resolved yet
    cur_hold: BTreeMap<u64, u64>,
    /// blocks whose current holder reported success (`ok`) and whose request has not returned yet
    ok_seen: BTreeSet<u64>,
    /// every announcement of a peer during the current step (incl. the one in force when the step began)
    ann_hist: BTreeMap<u64, Vec<(u64, Option<u64>)>>,
    /// all ops of the current case (for replays)
    case_ops: Vec<Value>,
}

const YIELDS: usize = 16;

/// Scheduling gate around a `request` / `accept_block` future. tokio wakes the receivers of a watch channel in an
/// order that depends on its own unseeded RNG, so which of two racing acceptors wins would not be a function of the
/// seed. Every future of the queue therefore sits behind a gate: while the gate is closed a poll only records that
/// the future wants to run; the harness opens one gate at a time (order chosen by the op line's `sch`), which makes
/// the interleaving of the critical sections (`send_if_modified`, `borrow_and_update`) deterministic and lets the
/// generator pick it. Not polling a woken future for a while is ordinary async scheduling.
#[derive(Default)]
struct GateSt {
    open: bool,
    pending: bool,
    waker: Option<std::task::Waker>,
}
type Gate = Arc<Mutex<GateSt>>;

struct Gated<F> {
    inner: std::pin::Pin<Box<F>>,
    gate: Gate,
}

impl<F: std::future::Future> std::future::Future for Gated<F> {
    type Output = F::Output;
    fn poll(mut self: std::pin::Pin<&mut Self>, cx: &mut std::task::Context<'_>) -> std::task::Poll<F::Output> {
        {
            let mut g = self.gate.lock().unwrap();
            if !g.open {
                g.pending = true;
                g.waker = Some(cx.waker().clone());
                return std::task::Poll::Pending;
            }
            g.pending = false;
        }
        self.inner.as_mut().poll(cx)
    }
}

fn gated<F: std::future::Future>(f: F, gate: &Gate) -> Gated<F> {
    Gated { inner: Box::pin(f), gate: gate.clone() }
}

/// Polls the ungated tasks (scope plumbing, the inner tasks of `accept_block`, the fetcher family's own tasks, and
/// whichever gated future is currently open) until nothing moves any more.
async fn quiesce(q: &Q, log: &Arc<Mutex<Vec<Ev>>>) {
    let mut last = None;
    let mut stable = 0;
    let mut rounds = 0;
    while stable < 3 && rounds < 10_000 {
        for _ in 0..YIELDS {
            tokio::task::yield_now().await;
        }
        let sig = (log.lock().unwrap().len(), q.current_blocks());
        if Some(&sig) == last.as_ref() {
            stable += 1;
        } else {
            stable = 0;
            last = Some(sig);
        }
        rounds += 1;
    }
}

impl Sim {
    fn new(root: Arc<ctx::Ctx>) -> Self {
        Sim {
            root,
            q: Q::Plain(Arc::new(Queue::new())),
            fet: None,
            log: Arc::new(Mutex::new(vec![])),
            handles: vec![],
            reqs: BTreeMap::new(),
            accs: BTreeMap::new(),
            avail_tx: BTreeMap::new(),
            avail_rx: BTreeMap::new(),
            avail: BTreeMap::new(),
            holds: BTreeMap::new(),
            next_hold: 0,
            gates: BTreeMap::new(),
            cur_hold: BTreeMap::new(),
            ok_seen: BTreeSet::new(),
            ann_hist: BTreeMap::new(),
            case_ops: vec![],
        }
    }

    /// Ends every task of the current case (scopes must run to completion: dropping one aborts the process).
    async fn teardown(&mut self) {
        for (_, c) in std::mem::take(&mut self.reqs) {
            if let Some(c) = c {
                let _ = c.send(());
            }
        }
        for (_, c) in std::mem::take(&mut self.accs) {
            if let Some(c) = c {
                let _ = c.send(());
            }
        }
        self.holds.clear();
        for (_, g) in std::mem::take(&mut self.gates) {
            let mut g = g.lock().unwrap();
            g.open = true;
            if let Some(w) = g.waker.take() {
                w.wake();
            }
        }
        if let Some(f) = &mut self.fet {
            if let Some(c) = f.stop.take() {
                let _ = c.send(());
            }
        }
        for h in std::mem::take(&mut self.handles) {
            let _ = h.await;
        }
        self.fet = None;
        self.log.lock().unwrap().clear();
        self.avail_tx.clear();
        self.avail_rx.clear();
        self.avail.clear();
        self.next_hold = 0;
        self.cur_hold.clear();
        self.ok_seen.clear();
        self.ann_hist.clear();
    }

    fn spawn_req(&mut self, n: u64) {
        let Q::Plain(q) = self.q.clone() else { return };
        let (cancel, cancel_rx) = tokio::sync::oneshot::channel::<()>();
        let (root, log) = (self.root.clone(), self.log.clone());
        self.reqs.insert(n, Some(cancel));
        let gate = Gate::default();
        self.gates.insert((0, n), gate.clone());
        // Same shape as `run_block_fetcher`: the request runs inside a scope that is cancelled from outside.
        self.handles.push(tokio::spawn(async move {
            let _: Result<(), ctx::Canceled> = scope::run!(&*root, |ctx, s| async {
                s.spawn_bg::<()>(async {
                    let _ = ctx.wait(cancel_rx).await;
                    Err(ctx::Canceled)
                });
                let r = gated(q.request(ctx, BlockNumber(n)), &gate).await;
                log.lock().unwrap().push(match r {
                    Ok(()) => Ev::Done(n),
                    Err(ctx::Canceled) => Ev::Cancelled(n),
                });
                Ok(())
            })
            .await;
        }));
    }

    fn spawn_acc(&mut self, p: u64) {
        let (cancel, cancel_rx) = tokio::sync::oneshot::channel::<()>();
        let (root, log, q) = (self.root.clone(), self.log.clone(), self.q.clone());
        if !self.avail_tx.contains_key(&p) {
            // `PushServer::new`: nothing announced yet
            let tx = sync::watch::channel(state(0, None)).0;
            self.avail_rx.insert(p, tx.subscribe());
            self.avail_tx.insert(p, tx);
        }
        let mut rx = self.avail_rx.remove(&p).expect("receiver parked");
        self.accs.insert(p, Some(cancel));
        let gate = Gate::default();
        self.gates.insert((1, p), gate.clone());
        self.handles.push(tokio::spawn(async move {
            let _: Result<(), ctx::Canceled> = scope::run!(&*root, |ctx, s| async {
                s.spawn_bg::<()>(async {
                    let _ = ctx.wait(cancel_rx).await;
                    Err(ctx::Canceled)
                });
                let r = gated(q.accept_block(ctx, &mut rx), &gate).await;
                log.lock().unwrap().push(match r {
                    Ok((n, send)) => Ev::Acc { p, n: n.0, send, rx },
                    Err(ctx::Canceled) => Ev::Stopped { p, rx },
                });
                Ok(())
            })
            .await;
        }));
    }

    /// Is the action list well-formed in the current state (evaluated sequentially, like the model's `step?`)?
    fn valid(&self, acts: &[Value]) -> bool {
        let mut reqs: BTreeSet<u64> = self.reqs.keys().copied().collect();
        let accs_now: BTreeSet<u64> = self.accs.keys().copied().collect();
        let mut accs = accs_now.clone();
        let mut holds: BTreeSet<u64> = self.holds.keys().copied().collect();
        for a in acts {
            let Some(arr) = a.as_array() else { return false };
            let kind = arr.first().and_then(|x| x.as_str()).unwrap_or("");
            let arg = |i: usize| arr.get(i).and_then(|x| x.as_u64());
            match (kind, arr.len()) {
                ("req", 2) => {
                    let Some(n) = arg(1) else { return false };
                    if self.fet.is_some() || !reqs.insert(n) {
                        return false;
                    }
                }
                ("cancel", 2) => {
                    let Some(n) = arg(1) else { return false };
                    if self.fet.is_some() || !reqs.contains(&n) {
                        return false;
                    }
                }
                ("start", 2) => {
                    let Some(p) = arg(1) else { return false };
                    if !accs.insert(p) {
                        return false;
                    }
                }
                ("stop", 2) => {
                    let Some(p) = arg(1) else { return false };
                    if !accs.contains(&p) {
                        return false;
                    }
                }
                ("ann", 4) => {
                    if arg(1).is_none() || arg(2).is_none() || !(arr[3].is_null() || arr[3].is_u64()) {
                        return false;
                    }
                }
                ("ok", 2) | ("fail", 2) => {
                    let Some(h) = arg(1) else { return false };
                    if !holds.remove(&h) {
                        return false;
                    }
                    // fetcher family: success = the holder queued the block (`runner.rs`), which is only possible
                    // for the block that is next in the store
                    if let (Some(f), "ok") = (&self.fet, kind) {
                        let n = self.holds[&h].1;
                        if n != f.manager.queued().next().0 || n < f.first || (n - f.first) as usize >= f.blocks.len() {
                            return false;
                        }
                    }
                }
                ("queue", 1) => {
                    let Some(f) = &self.fet else { return false };
                    let next = f.manager.queued().next().0;
                    if next < f.first || (next - f.first) as usize >= f.blocks.len() {
                        return false;
                    }
                }
                _ => return false,
            }
        }
        true
    }

    /// Applies one environment action (no task is polled here).
    async fn apply(&mut self, a: &Value, out: &mut Out) {
        let arr = a.as_array().unwrap();
        let kind = arr[0].as_str().unwrap();
        let arg = |i: usize| arr[i].as_u64().unwrap();
        out.count(&format!("act:{kind}"));
        match kind {
            "req" => self.spawn_req(arg(1)),
            "cancel" => {
                if let Some(c) = self.reqs.get_mut(&arg(1)).and_then(|c| c.take()) {
                    let _ = c.send(());
                }
            }
            "start" => self.spawn_acc(arg(1)),
            "stop" => {
                if let Some(c) = self.accs.get_mut(&arg(1)).and_then(|c| c.take()) {
                    let _ = c.send(());
                }
            }
            "ann" => {
                let (p, first, last) = (arg(1), arg(2), arr[3].as_u64());
                if !self.avail_tx.contains_key(&p) {
                    let tx = sync::watch::channel(state(0, None)).0;
                    self.avail_rx.insert(p, tx.subscribe());
                    self.avail_tx.insert(p, tx);
                }
                // `PushServer::handle(push_block_store_state)`: `self.blocks.send_replace(req.state)`
                self.avail_tx[&p].send_replace(state(first, last));
                self.avail.insert(p, (first, last));
                self.ann_hist.entry(p).or_default().push((first, last));
            }
            "ok" | "fail" => {
                let h = arg(1);
                let (_p, n, send) = self.holds.remove(&h).unwrap();
                if self.cur_hold.get(&n) == Some(&h) {
                    self.cur_hold.remove(&n);
                    if kind == "fail" {
                        out.count("fail_of_current_hold");
                    } else {
                        self.ok_seen.insert(n);
                    }
                }
                if kind == "ok" {
                    // `runner.rs`: queue_block succeeded, then `let _ = send_resp.send(());`
                    if let Some(f) = &self.fet {
                        let i = (n - f.first) as usize;
                        f.manager.queue_block(&self.root, f.blocks[i].clone()).await.expect("queue_block");
                    }
                    let _ = send.send(());
                } else {
                    drop(send);
                }
            }
            "queue" => {
                let f = self.fet.as_ref().unwrap();
                let next = f.manager.queued().next().0;
                let b = f.blocks[(next - f.first) as usize].clone();
                f.manager.queue_block(&self.root, b).await.expect("queue_block");
            }
            _ => unreachable!(),
        }
    }

    /// One step: actions back to back, then poll to quiescence, then drain the event log.
    /// Runs the futures to quiescence, one gated future at a time. `sch` seeds the choice among the futures that
    /// want to run.
    async fn schedule(&mut self, sch: u64, out: &mut Out) {
        let mut x = sch.wrapping_mul(0x9E37_79B9_7F4A_7C15).wrapping_add(0x1234_5678_9ABC_DEF1);
        let mut turns = 0;
        loop {
            quiesce(&self.q, &self.log).await;
            let pending: Vec<(u8, u64)> =
                self.gates.iter().filter(|(_, g)| g.lock().unwrap().pending).map(|(k, _)| *k).collect();
            if pending.is_empty() || turns > 10_000 {
                break;
            }
            x = x.wrapping_mul(6364136223846793005).wrapping_add(1442695040888963407);
            let pick = pending[((x >> 33) as usize) % pending.len()];
            if pending.len() > 1 {
                out.count("sched:choice");
            }
            let g = self.gates[&pick].clone();
            {
                let mut g = g.lock().unwrap();
                g.open = true;
                if let Some(w) = g.waker.take() {
                    w.wake();
                }
            }
            quiesce(&self.q, &self.log).await;
            g.lock().unwrap().open = false;
            turns += 1;
        }
    }

    async fn step(&mut self, acts: &[Value], sch: u64, out: &mut Out) -> Value {
        if !self.valid(acts) {
            out.count("bad_step");
            return json!({"bad": true, "class": "bad"});
        }
        // monitors need the announcements in force at the start of the step
        self.ann_hist.clear();
        for (p, a) in &self.avail {
            self.ann_hist.insert(*p, vec![*a]);
        }
        let blocks_before = self.q.current_blocks();
        for a in acts {
            self.apply(a, out).await;
        }
        self.schedule(sch, out).await;
        // stability re-check (a late event would mean the step was cut short: harness defect, not a finding)
        let evs: Vec<Ev> = std::mem::take(&mut *self.log.lock().unwrap());
        let mut trace = vec![];
        let mut accepted_now: Vec<(u64, u64, u64)> = vec![];
        for e in evs {
            match e {
                Ev::Acc { p, n, send, rx } => {
                    let h = self.next_hold;
                    self.next_hold += 1;
                    self.accs.remove(&p);
                    self.gates.remove(&(1, p));
                    self.avail_rx.insert(p, rx);
                    // ---- monitors at the accept
                    let live = match &self.fet {
                        None => self.reqs.contains_key(&n),
                        Some(_) => true,
                    };
                    if !live {
                        out.oracle_fail("accept-without-request", "a block with no live request was handed to a peer",
                            json!({"op": "case", "ops": self.case_ops, "p": p, "n": n}));
                    }
                    if let Some(h0) = self.cur_hold.get(&n) {
                        out.oracle_fail("double-handover", "a request was handed to a second connection while the first still holds it",
                            json!({"op": "case", "ops": self.case_ops, "n": n, "first_hold": h0, "second_hold": h}));
                    }
                    let announced = self.ann_hist.get(&p).is_some_and(|v| v.iter().any(|a| contains(a, n)));
                    if !announced {
                        out.oracle_fail("accept-not-announced", "a request was handed to a peer that has not announced the block",
                            json!({"op": "case", "ops": self.case_ops, "p": p, "n": n}));
                    }
                    self.cur_hold.insert(n, h);
                    self.holds.insert(h, (p, n, send));
                    accepted_now.push((p, n, h));
                    trace.push(json!(["acc", p, n, h]));
                    out.count("ev:acc");
                }
                Ev::Stopped { p, rx } => {
                    self.accs.remove(&p);
                    self.gates.remove(&(1, p));
                    self.avail_rx.insert(p, rx);
                    trace.push(json!(["stopped", p]));
                    out.count("ev:stopped");
                }
                Ev::Done(n) => {
                    self.reqs.remove(&n);
                    self.gates.remove(&(0, n));
                    if self.cur_hold.contains_key(&n) || !self.ok_seen.remove(&n) {
                        out.oracle_fail("done-without-success", "request returned Ok although no holder of it has reported success (the block is not stored)",
                            json!({"op": "case", "ops": self.case_ops, "n": n}));
                    }
                    trace.push(json!(["done", n]));
                    out.count("ev:done");
                }
                Ev::Cancelled(n) => {
                    self.ok_seen.remove(&n);
                    self.reqs.remove(&n);
                    self.gates.remove(&(0, n));
                    self.cur_hold.remove(&n);
                    trace.push(json!(["cancelled", n]));
                    out.count("ev:cancelled");
                }
            }
        }
        let blocks = self.q.current_blocks();
        self.monitors(acts, &blocks_before, &blocks, &accepted_now, out);
        let holds: Vec<Value> = self.holds.iter().map(|(h, (p, n, _))| json!([h, p, n])).collect();
        let class = if trace.is_empty() {
            if blocks == blocks_before { "idle" } else { "map" }
        } else {
            let kinds: BTreeSet<&str> = trace.iter().map(|t| t[0].as_str().unwrap()).collect();
            if kinds.len() == 1 { kinds.into_iter().next().unwrap() } else { "mixed" }
        };
        let mut obs = json!({
            "ev": trace,
            "blocks": blocks,
            "accs": self.accs.keys().collect::<Vec<_>>(),
            "holds": holds,
            "class": class,
        });
        if self.fet.is_none() {
            obs["reqs"] = json!(self.reqs.keys().collect::<Vec<_>>());
        }
        obs
    }

    /// Property monitors at quiescence, on the implementation's own snapshot and history.
    fn monitors(&mut self, acts: &[Value], before: &[u64], blocks: &[u64], accepted: &[(u64, u64, u64)], out: &mut Out) {
        let case = json!({"op": "case", "ops": self.case_ops});
        // never lost / stays requested: every live request is in the map xor held by exactly one connection
        if self.fet.is_none() {
            for n in self.reqs.keys() {
                let in_map = blocks.contains(n);
                let held = self.cur_hold.contains_key(n);
                if in_map == held {
                    out.oracle_fail(if in_map { "in-map-and-held" } else { "request-lost" },
                        if in_map { "a live request is both offered to peers and held by a connection" }
                        else { "a live request is neither offered to peers nor held by a connection" },
                        json!({"op": "case", "ops": self.case_ops, "n": n, "blocks": blocks}));
                }
            }
            for n in blocks {
                if !self.reqs.contains_key(n) {
                    out.oracle_fail("stale-map-entry", "the queue offers a block nobody requests (cancel / completion did not remove it)",
                        json!({"op": "case", "ops": self.case_ops, "n": n}));
                }
            }
        }
        // a failed hold is followed by re-availability (or a new hand-over) of the same block
        // fetcher family: one request per missing block, given up once the block is queued
        if let Some(f) = &self.fet {
            let next = f.manager.queued().next().0;
            if let Some(n) = blocks.iter().find(|n| **n < next) {
                out.oracle_fail("fetcher-requests-queued-block", "a block that is already queued for storage is still requested from peers",
                    json!({"op": "case", "ops": self.case_ops, "n": n, "queued_next": next}));
            }
            let mut wanted: Vec<u64> = blocks.to_vec();
            wanted.extend(self.cur_hold.keys().copied().filter(|n| *n >= next));
            wanted.sort();
            wanted.dedup();
            // the window: `max_block_queue_size` block numbers above what was persisted (or stored at start)
            let base = f.start.max(f.manager.persisted().next().0);
            let expected: Vec<u64> = (next..base + f.k).collect();
            if wanted != expected {
                out.oracle_fail("fetcher-missing-block-not-requested", "the blocks requested or being fetched are not exactly the missing blocks inside the fetcher's window",
                    json!({"op": "case", "ops": self.case_ops, "wanted": wanted, "expected": expected, "queued_next": next}));
            }
        }
        // no lost wake-up: the lowest offered block is not announced by a connection that sits in accept_block
        if let Some(min) = blocks.first() {
            for p in self.accs.keys() {
                if self.avail.get(p).is_some_and(|a| contains(a, *min)) {
                    out.oracle_fail("lost-wakeup", "quiescent, but the lowest requested block is announced by a peer waiting in accept_block",
                        json!({"op": "case", "ops": self.case_ops, "p": p, "n": min, "blocks": blocks}));
                }
            }
        }
        // lowest first. A step with a single action polls to quiescence before anything else happens, so the
        // accepted block must be the lowest: nothing lower may be left behind in the map.
        for (p, n, _) in accepted {
            let overtaken: Vec<u64> = blocks.iter().copied().filter(|m| m < n && before.contains(m)).collect();
            if !overtaken.is_empty() {
                if acts.len() == 1 {
                    out.oracle_fail("not-lowest", "a peer was handed a block while a lower requested block stayed in the queue",
                        json!({"op": "case", "ops": self.case_ops, "p": p, "n": n, "lower": overtaken}));
                }
            }
            let lower_any: Vec<u64> = blocks.iter().copied().filter(|m| m < n).collect();
            if !lower_any.is_empty() && acts.len() > 1 {
                // concurrent insertion of a lower block while the acceptor's sample was in flight (see Props/C19.lean,
                // `accept_may_overtake_concurrent_lower_request`): counted, allowed by the sampled-minimum reading.
                out.count("overtake_in_concurrent_step");
            }
        }
        let _ = case;
    }
}

// ---------------------------------------------------------------------------------------------------------------
// generator

fn act_ann(rng: &mut StdRng, p: u64, maxb: u64) -> Value {
    match rng.gen_range(0..10) {
        0 => json!(["ann", p, rng.gen_range(0..maxb), null]),
        1 => {
            // inverted range (never passes `verify()` on the wire, harmless for `contains`)
            let hi = rng.gen_range(0..maxb);
            json!(["ann", p, hi + 1, hi])
        }
        2 | 3 => json!(["ann", p, 0, maxb]),
        _ => {
            let lo = rng.gen_range(0..maxb);
            let hi = rng.gen_range(lo..=maxb);
            json!(["ann", p, lo, hi])
        }
    }
}

/// A random well-formed action in the current state of the simulation.
fn random_act(sim: &Sim, rng: &mut StdRng, peers: u64, maxb: u64) -> Value {
    for _ in 0..20 {
        let k = rng.gen_range(0..100);
        if k < 22 {
            let n = rng.gen_range(0..maxb);
            if !sim.reqs.contains_key(&n) {
                return json!(["req", n]);
            }
        } else if k < 30 {
            if let Some(n) = sim.reqs.keys().copied().collect::<Vec<_>>().choose(rng) {
                if sim.reqs[n].is_some() {
                    return json!(["cancel", n]);
                }
            }
        } else if k < 48 {
            let p = rng.gen_range(0..peers);
            if !sim.accs.contains_key(&p) {
                return json!(["start", p]);
            }
        } else if k < 53 {
            if let Some(p) = sim.accs.keys().copied().collect::<Vec<_>>().choose(rng) {
                if sim.accs[p].is_some() {
                    return json!(["stop", p]);
                }
            }
        } else if k < 75 {
            let p = rng.gen_range(0..peers);
            return act_ann(rng, p, maxb);
        } else if k < 87 {
            if let Some(h) = sim.holds.keys().copied().collect::<Vec<_>>().choose(rng) {
                return json!(["fail", h]);
            }
        } else if let Some(h) = sim.holds.keys().copied().collect::<Vec<_>>().choose(rng) {
            return json!(["ok", h]);
        }
    }
    act_ann(rng, 0, maxb)
}

/// `tokio::select!` picks a random ready branch; these combinations make two branches of one select ready in the
/// same poll, so the implementation's outcome would not be a function of the seed. They are legal interleavings
/// (the model allows both outcomes) but are kept out of the generated steps.
fn hazardous(sim: &Sim, acts: &[Value]) -> bool {
    let kind = |a: &Value| a[0].as_str().unwrap().to_string();
    let mut cancels = BTreeSet::new();
    let mut resolved_blocks = BTreeSet::new();
    let mut stops = BTreeSet::new();
    let mut anns = BTreeSet::new();
    let mut starts = BTreeSet::new();
    for a in acts {
        match kind(a).as_str() {
            "cancel" => { cancels.insert(a[1].as_u64().unwrap()); }
            "ok" | "fail" => {
                if let Some((_, n, _)) = sim.holds.get(&a[1].as_u64().unwrap()) {
                    resolved_blocks.insert(*n);
                }
            }
            "stop" => { stops.insert(a[1].as_u64().unwrap()); }
            "ann" => { anns.insert(a[1].as_u64().unwrap()); }
            "start" => { starts.insert(a[1].as_u64().unwrap()); }
            _ => {}
        }
    }
    cancels.intersection(&resolved_blocks).next().is_some()
        || stops.intersection(&anns).next().is_some()
        || stops.intersection(&starts).next().is_some()
}

fn s1(a: Value) -> Value {
    json!({"op": "step", "do": [a]})
}
fn sb(a: Vec<Value>) -> Value {
    json!({"op": "step", "do": a})
}
fn with_sch(mut op: Value, rng: &mut StdRng) -> Value {
    if op["op"] == "step" {
        op["sch"] = json!(rng.gen_range(0..1000u64));
    }
    op
}

/// Directed scenarios, one per mechanism named by the property; `b` shifts the block numbers.
fn directed(kind: usize, rng: &mut StdRng) -> Vec<Value> {
    let b: u64 = rng.gen_range(0..5);
    let (p, q, r): (u64, u64, u64) = *[(0, 1, 2), (1, 0, 2), (2, 1, 0), (1, 2, 0)].choose(rng).unwrap();
    match kind {
        // retry: the holder drops the channel -> the request is offered again, another peer takes it
        0 => vec![
            s1(json!(["req", b + 2])), s1(json!(["start", p])), s1(json!(["ann", p, b, b + 4])),
            s1(json!(["fail", 0])), s1(json!(["start", q])), s1(json!(["ann", q, b + 2, b + 2])),
            s1(json!(["fail", 1])), s1(json!(["start", p])), s1(json!(["ok", 2])),
        ],
        // lowest first + only announced: head-of-line blocking, partial ranges
        1 => vec![
            s1(json!(["req", b + 5])), s1(json!(["req", b + 3])), s1(json!(["req", b + 4])),
            s1(json!(["start", p])), s1(json!(["ann", p, b + 4, b + 9])),
            s1(json!(["start", q])), s1(json!(["ann", q, b + 3, b + 3])),
            s1(json!(["start", q])), s1(json!(["ann", q, b + 3, b + 5])),
            s1(json!(["ok", 0])), s1(json!(["ok", 1])), s1(json!(["start", p])), s1(json!(["ok", 2])),
        ],
        // wake-up when the minimum changes by insertion of a lower block / by cancellation of the lowest
        2 => vec![
            s1(json!(["start", p])), s1(json!(["ann", p, b, b + 1])),
            s1(json!(["req", b + 3])), s1(json!(["req", b + 1])), s1(json!(["start", p])),
            s1(json!(["req", b + 2])), s1(json!(["ann", p, b + 3, b + 3])),
            s1(json!(["cancel", b + 2])), s1(json!(["ok", 1])), s1(json!(["ok", 0])),
        ],
        // wake-up of the other acceptors when one of them removes the minimum and the map stays non-empty
        3 => vec![
            s1(json!(["req", b + 1])), s1(json!(["req", b + 2])), s1(json!(["req", b + 3])),
            s1(json!(["start", p])), s1(json!(["start", q])), s1(json!(["start", r])),
            s1(json!(["ann", q, b + 2, b + 2])), s1(json!(["ann", r, b + 3, b + 3])),
            s1(json!(["ann", p, b + 1, b + 1])),
            s1(json!(["ok", 2])), s1(json!(["fail", 1])), s1(json!(["start", q])), s1(json!(["ok", 0])), s1(json!(["ok", 3])),
        ],
        // two peers race for one request: exactly one gets it; after its failure the other one does
        4 => vec![
            s1(json!(["start", p])), s1(json!(["start", q])),
            s1(json!(["ann", p, b, b + 9])), s1(json!(["ann", q, b, b + 9])),
            s1(json!(["req", b + 4])), s1(json!(["fail", 0])), s1(json!(["fail", 1])),
            s1(json!(["start", p])), s1(json!(["start", q])), s1(json!(["ok", 2])),
        ],
        // cancellation: while offered; while held (late success / failure of the stale hold are no-ops); re-request
        5 => vec![
            s1(json!(["req", b])), s1(json!(["cancel", b])), s1(json!(["req", b])),
            s1(json!(["start", p])), s1(json!(["ann", p, b, b])), s1(json!(["cancel", b])),
            s1(json!(["req", b])), s1(json!(["start", p])), s1(json!(["fail", 0])), s1(json!(["ok", 1])),
            s1(json!(["req", b + 1])), s1(json!(["start", q])), s1(json!(["ann", q, b + 1, b + 1])),
            s1(json!(["cancel", b + 1])), s1(json!(["req", b + 1])), s1(json!(["ok", 2])), s1(json!(["start", q])), s1(json!(["ok", 3])),
        ],
        // disconnect of a peer that holds several requests: all of them are offered again
        6 => vec![
            s1(json!(["req", b])), s1(json!(["req", b + 1])), s1(json!(["req", b + 2])),
            s1(json!(["ann", p, b, b + 2])), s1(json!(["start", p])), s1(json!(["start", p])), s1(json!(["start", p])),
            s1(json!(["start", p])),
            sb(vec![json!(["stop", p]), json!(["fail", 0]), json!(["fail", 1]), json!(["fail", 2])]),
            s1(json!(["ann", q, b, b + 2])), s1(json!(["start", q])), s1(json!(["start", q])), s1(json!(["start", q])),
            s1(json!(["ok", 3])), s1(json!(["ok", 4])), s1(json!(["ok", 5])),
        ],
        // concurrent steps: insertion orders (ascending bumps once, descending every time), two failures at once,
        // announcement racing with the insertion of a lower block (the acceptor's sample is overtaken)
        7 => vec![
            s1(json!(["start", p])), s1(json!(["start", q])),
            sb(vec![json!(["req", b + 1]), json!(["req", b + 2]), json!(["req", b + 3])]),
            sb(vec![json!(["ann", p, b + 1, b + 1]), json!(["ann", q, b + 2, b + 3])]),
            s1(json!(["start", p])), s1(json!(["start", q])),
            sb(vec![json!(["fail", 0]), json!(["fail", 1])]),
            sb(vec![json!(["req", b + 6]), json!(["req", b + 5]), json!(["req", b + 4])]),
            sb(vec![json!(["ann", p, b, b + 9]), json!(["req", b])]),
            s1(json!(["start", p])), s1(json!(["start", p])),
        ],
        // the acceptor's sample is overtaken: it watches b+5, then (announce, insert lower) arrive together
        8 => vec![
            s1(json!(["start", p])), s1(json!(["req", b + 5])),
            sb(vec![json!(["ann", p, b + 4, b + 5]), json!(["req", b + 4])]),
            s1(json!(["start", p])), s1(json!(["ok", 0])), s1(json!(["ok", 1])),
        ],
        // request created and cancelled before it is first polled; cancel twice; stop an idle acceptor; restart
        9 => vec![
            sb(vec![json!(["req", b]), json!(["cancel", b])]),
            s1(json!(["req", b + 1])), sb(vec![json!(["cancel", b + 1]), json!(["cancel", b + 1])]),
            s1(json!(["start", p])), s1(json!(["stop", p])), s1(json!(["start", p])), s1(json!(["req", b + 2])),
            sb(vec![json!(["stop", p]), json!(["req", b + 1])]),
            s1(json!(["ann", p, b, b + 9])), s1(json!(["start", p])), s1(json!(["start", p])),
        ],
        // malformed steps (refused by both sides, state unchanged)
        _ => vec![
            s1(json!(["req", b])), s1(json!(["req", b])), s1(json!(["cancel", b + 1])), s1(json!(["stop", p])),
            s1(json!(["ok", 0])), s1(json!(["fail", 7])), s1(json!(["start", p])), s1(json!(["start", p])),
            sb(vec![json!(["cancel", b]), json!(["req", b])]), s1(json!(["bogus"])),
        ],
    }
}

const N_DIRECTED: usize = 11;

// ---------------------------------------------------------------------------------------------------------------
// driver (own loop instead of `vharness::drive`: the generator looks at the simulation's state, and the trace of
// every step is written into the operation line)

struct Harness {
    rt: tokio::runtime::Runtime,
    sim: Sim,
}

impl Harness {
    fn new() -> Self {
        let rt = tokio::runtime::Builder::new_current_thread().enable_all().build().unwrap();
        let root = ctx::test_root(&ctx::RealClock);
        Harness { rt, sim: Sim::new(Arc::new(root)) }
    }

    /// Executes one op; returns the op as written to `ops.jsonl` (with the trace) and the observation.
    fn exec(&mut self, op: &Value, out: &mut Out) -> (Value, Value) {
        let mut op = op.clone();
        let kind = op["op"].as_str().unwrap_or("").to_string();
        if kind == "case" {
            // a whole case in one line (replays of monitor failures)
            let ops: Vec<Value> = op["ops"].as_array().cloned().unwrap_or_default();
            let mut new_ops = vec![];
            let mut obs = vec![];
            for o in &ops {
                if o["op"] == "case" {
                    continue;
                }
                let (o2, b) = self.exec(o, out);
                new_ops.push(o2);
                obs.push(b);
            }
            op["ops"] = json!(new_ops);
            return (op, json!({"case": obs, "class": "case"}));
        }
        let Harness { rt, sim } = self;
        match kind.as_str() {
            "init" => {
                rt.block_on(sim.teardown());
                sim.case_ops.clear();
                sim.case_ops.push(op.clone());
                out.count("case");
                match op.get("fetcher").cloned() {
                    None => {
                        sim.q = Q::Plain(Arc::new(Queue::new()));
                        let obs = json!({"init": true, "blocks": sim.q.current_blocks(), "class": "init"});
                        (op, obs)
                    }
                    Some(f) => {
                        let obs = rt.block_on(init_fetcher(sim, &f));
                        op["first"] = obs["first"].clone();
                        sim.case_ops[0] = op.clone();
                        out.count("case:fetcher");
                        (op, obs)
                    }
                }
            }
            "step" => {
                let acts: Vec<Value> = op["do"].as_array().cloned().unwrap_or_default();
                if acts.len() > 1 {
                    out.count("step:concurrent");
                } else {
                    out.count("step:single");
                }
                sim.case_ops.push(op.clone());
                let sch = op["sch"].as_u64().unwrap_or(0);
                let obs = rt.block_on(sim.step(&acts, sch, out));
                op["trace"] = obs.get("ev").cloned().unwrap_or(json!([]));
                *sim.case_ops.last_mut().unwrap() = op.clone();
                (op, obs)
            }
            _ => (op, json!({"bad": true, "class": "bad"})),
        }
    }
}

async fn init_fetcher(sim: &mut Sim, f: &Value) -> Value {
    let k = f["k"].as_u64().unwrap_or(3);
    let nblocks = f["blocks"].as_u64().unwrap_or(8) as usize;
    let pre = f["pre"].as_u64().unwrap_or(0) as usize;
    let persist = f["persist"].as_bool().unwrap_or(true);
    let seed = f["seed"].as_u64().unwrap_or(0);
    let rng = &mut <StdRng as rand::SeedableRng>::seed_from_u64(seed);
    let mut setup = validator::testonly::Setup::new_without_pregenesis(rng, 1);
    setup.push_blocks_v2(rng, nblocks);
    let first = setup.first_block().0;
    let engine = in_memory::Engine::new_random(&setup, setup.first_block());
    let (manager, runner) = EngineManager::new(&sim.root, Box::new(engine), time::Duration::seconds(3600))
        .await
        .expect("EngineManager::new");
    let mut cfg = zksync_consensus_network::testonly::new_configs(rng, &setup, 0)[0].clone();
    cfg.max_block_queue_size = k as usize;
    cfg.validator_key = None;
    let fetcher = Arc::new(Fetcher::new(cfg, manager.clone()));
    let (stop, stop_rx) = tokio::sync::oneshot::channel::<()>();
    // blocks stored before the fetcher starts
    for b in setup.blocks.iter().take(pre) {
        manager.queue_block(&sim.root, b.clone()).await.expect("queue_block");
    }
    let root = sim.root.clone();
    let fet2 = fetcher.clone();
    sim.handles.push(tokio::spawn(async move {
        let _: Result<(), ctx::Canceled> = scope::run!(&*root, |ctx, s| async {
            if persist {
                s.spawn_bg(async {
                    let _ = runner.run(ctx).await;
                    Ok(())
                });
            }
            s.spawn_bg(async {
                fet2.run_block_fetcher(ctx).await;
                Ok(())
            });
            let _ = ctx.wait(stop_rx).await;
            Err(ctx::Canceled)
        })
        .await;
    }));
    sim.q = Q::Net(fetcher);
    sim.fet = Some(FetSim { manager, blocks: setup.blocks.clone(), first, stop: Some(stop), k, start: first + pre as u64, persist });
    quiesce(&sim.q, &sim.log).await;
    let f = sim.fet.as_ref().unwrap();
    let _ = (f.k, f.persist);
    json!({"init": true, "first": first, "blocks": sim.q.current_blocks(), "class": "init"})
}

fn read_corpus(dir: &std::path::Path) -> Vec<Value> {
    let mut ops = vec![];
    if let Ok(rd) = std::fs::read_dir(dir) {
        let mut files: Vec<_> = rd.filter_map(|e| e.ok()).map(|e| e.path()).collect();
        files.sort();
        for f in files {
            if let Ok(txt) = std::fs::read_to_string(&f) {
                for line in txt.lines() {
                    let line = line.trim();
                    if line.is_empty() || line.starts_with('#') {
                        continue;
                    }
                    if let Ok(v) = serde_json::from_str::<Value>(line) {
                        ops.push(v);
                    }
                }
            }
        }
    }
    ops
}

fn run(opts: &Opts) -> anyhow::Result<()> {
    let mut out = Out::new(opts)?;
    let mut h = Harness::new();
    let emit = |h: &mut Harness, out: &mut Out, op: &Value| {
        let (op2, obs) = h.exec(op, out);
        out.emit(op2, obs);
    };
    if let Some(path) = &opts.replay {
        let v: Value = serde_json::from_slice(&std::fs::read(path)?)?;
        for op in v["ops"].as_array().cloned().unwrap_or_default() {
            emit(&mut h, &mut out, &op);
        }
    } else {
        if let Some(c) = &opts.corpus {
            for op in read_corpus(c) {
                emit(&mut h, &mut out, &op);
            }
        }
        let mut rng = opts.rng();
        // every directed family a few times, with different parameters
        let reps = if opts.thorough { 40 } else { 6 };
        for rep in 0..reps {
            for k in 0..N_DIRECTED {
                let _ = rep;
                emit(&mut h, &mut out, &json!({"op": "init", "reset": true, "family": format!("directed{k}")}));
                for op in directed(k, &mut rng) {
                    let op = with_sch(op, &mut rng);
                    emit(&mut h, &mut out, &op);
                }
            }
        }
        // fetcher family
        let fet_cases = if opts.thorough { 60 } else { 8 };
        for i in 0..fet_cases {
            let k = rng.gen_range(1..=4u64);
            let blocks = rng.gen_range(4..=9u64);
            let pre = rng.gen_range(0..=2u64);
            let persist = i % 2 == 0;
            emit(&mut h, &mut out, &json!({"op": "init", "reset": true, "family": "fetcher",
                "fetcher": {"k": k, "blocks": blocks, "pre": pre, "persist": persist, "seed": rng.gen_range(0..4u64)}}));
            let first = h.sim.fet.as_ref().unwrap().first;
            let peers = 2u64;
            for _ in 0..rng.gen_range(10..30) {
                let sim = &h.sim;
                let f = sim.fet.as_ref().unwrap();
                let next = f.manager.queued().next().0;
                let can_queue = ((next - first) as u64) < blocks;
                let c = rng.gen_range(0..100);
                let a = if c < 25 && can_queue {
                    json!(["queue"])
                } else if c < 45 {
                    let p = rng.gen_range(0..peers);
                    if sim.accs.contains_key(&p) { act_ann(&mut rng, p, first + blocks) } else { json!(["start", p]) }
                } else if c < 65 {
                    json!(["ann", rng.gen_range(0..peers), first, first + blocks])
                } else if c < 80 {
                    match sim.holds.keys().copied().filter(|h| sim.valid(&[json!(["ok", h])])).collect::<Vec<_>>().choose(&mut rng) {
                        Some(h) => json!(["ok", h]),
                        None => {
                            let p = rng.gen_range(0..peers);
                            act_ann(&mut rng, p, first + blocks)
                        }
                    }
                } else if c < 92 {
                    match sim.holds.keys().copied().collect::<Vec<_>>().choose(&mut rng) {
                        Some(h) => json!(["fail", h]),
                        None => {
                            let p = rng.gen_range(0..peers);
                            act_ann(&mut rng, p, first + blocks)
                        }
                    }
                } else {
                    match sim.accs.keys().copied().collect::<Vec<_>>().choose(&mut rng) {
                        Some(p) if sim.accs[p].is_some() => json!(["stop", p]),
                        _ => json!(["start", rng.gen_range(0..peers)]),
                    }
                };
                let op = with_sch(s1(a), &mut rng);
                emit(&mut h, &mut out, &op);
            }
        }
        // random cases
        for _ in 0..opts.n {
            let peers = *[1u64, 2, 2, 3, 3, 3, 4].choose(&mut rng).unwrap();
            let maxb = rng.gen_range(3..=8u64);
            let len = rng.gen_range(8..=40);
            let conc = *[0u32, 0, 15, 30, 60].choose(&mut rng).unwrap();
            emit(&mut h, &mut out, &json!({"op": "init", "reset": true, "family": "random", "peers": peers}));
            for _ in 0..len {
                let mut acts = vec![random_act(&h.sim, &mut rng, peers, maxb)];
                if rng.gen_range(0..100) < conc {
                    for _ in 0..rng.gen_range(1..=3) {
                        let a = random_act(&h.sim, &mut rng, peers, maxb);
                        let mut cand = acts.clone();
                        cand.push(a);
                        if h.sim.valid(&cand) && !hazardous(&h.sim, &cand) {
                            acts = cand;
                        }
                    }
                }
                if hazardous(&h.sim, &acts) {
                    acts.truncate(1);
                }
                let op = with_sch(sb(acts), &mut rng);
                emit(&mut h, &mut out, &op);
            }
        }
    }
    // finish cleanly: every scope has to run to completion
    let Harness { rt, sim } = &mut h;
    rt.block_on(sim.teardown());
    out.finish(json!({}))
}

fn main() {
    let args: Vec<String> = std::env::args().collect();
    let opts = Opts::parse(&args[1..]);
    std::panic::set_hook(Box::new(|info| {
        vharness::LAST_PANIC.with(|p| *p.borrow_mut() = Some(vharness::panic_site(info)));
    }));
    if let Err(e) = run(&opts) {
        eprintln!("harness error: {e:#}");
        std::process::exit(3);
    }
}
