//! cepoch: the epoch boundary (component `epoch`, an additional harness of C01 and C03).
//!
//! One node (validator key 0) over a harness-owned `EngineInterface` with a DYNAMIC validator schedule (a table of
//! epochs: activation block, committee, block from which the schedule is announced as pending), whose block
//! persistence can be stalled, whose `get_pending_validator_schedule` can be made slow (a gate), and which survives
//! the node process (crash = every task of the life is cancelled, a new `EngineManager` is built on the same storage;
//! queued-but-not-persisted blocks are lost). The other validators (5 of the 6 members of every committee, quorum 5)
//! are played by the harness. Three op families, all against the real code:
//!
//!   mgr   real `EngineManager` + its runner: `verify_payload(number, epoch)` around activation / expiration for
//!         known / unknown / pending / pruned epochs while the schedule map grows poll by poll (manual clock);
//!         `queue_block` of blocks certified by the right / wrong epoch's committee.
//!   rep   a real `StateMachine` of epoch e stepped through the bft `verif` hook: blocks up to the expiration are
//!         voted for, the old leader's proposal for expiration+1 must be `InvalidPayload`; if the replica votes, the
//!         old committee finalizes it and a second node (epoch e+1) finalizes another payload -> disagreement.
//!   run   the real `bft::Config::run` for epochs e and e+1 on one node (spawned as the executor does), stalled
//!         persistence of the last block of e, crash, restart, an equivocating leader after the restart.
//!
//! K: every observation key not starting with `_` is compared with `lean/Driver/Cepoch.lean`. What is compared in the
//! `run` family is scheduling-independent by construction: durable writes / starts of an instance whose epoch is
//! already over when it acts (the last block of its epoch is persisted: "stale") depend on the order in which tokio
//! wakes the tasks waiting on the same `persisted` watch (and on `tokio::select!` inside `ctx.wait`), so they are
//! reported under `_stale_*` keys and watched by the monitors only.
//!
//! S (sites; C01 takes `verify:|vote:|qblock:|disagreement:`, C03 takes `slot:|equivocation:`):
//!   verify:accepted_outside_epoch      `verify_payload` Ok although the manager has no schedule for the epoch or the
//!                                      number is outside [activation, expiration] of what it knows
//!   verify:two_epochs_one_number       the same map accepted one number for two epochs
//!   vote:outside_epoch                 the node signed a commit vote for a NEW block outside its instance's epoch
//!   qblock:wrong_committee_accepted    `queue_block` stored a block certified by another committee than the
//!                                      claimed epoch's
//!   disagreement:two_payloads_one_number   two correct nodes store different payloads for one number
//!   slot:written_by_next_epoch_before_persist   `set_state` by an instance of epoch e+1 while the last block of e is
//!                                      not persisted
//!   slot:lost_backup_of_running_epoch  an instance of a running (not stale) epoch starts and the slot no longer
//!                                      holds the backup that epoch made (other than the view-0 bootstrap one)
//!   equivocation:*                     over everything key 0 signed in all lives, per epoch: two commit votes for a
//!                                      view, a commit at or below a timed-out view, views going backwards
//!   slot:late_write_over_votes         `set_state` by an instance of epoch e while a later epoch has a backup other than
//!                                      its view-0 bootstrap one (the assumption `Benign` of Props/Epoch.lean; the late
//!                                      write of an old instance over a bootstrap state is tolerated and counted)
//! The directed case `restart at the boundary with a slow schedule provider` (finding F13, fixed by a8b4c3e: an instance
//! that finds a later epoch's state in the slot stops) is generated first in every run and is in corpus/Cepoch.
use std::{
    collections::{BTreeMap, BTreeSet, HashSet, VecDeque},
    sync::{
        atomic::{AtomicBool, AtomicU64, AtomicUsize, Ordering},
        Arc, Mutex,
    },
};

use rand::{rngs::StdRng, Rng, SeedableRng};
use serde_json::{json, Value};
use vharness::{catch_async, Opts, Out, Prop};
use zksync_concurrency::{ctx, scope, sync, time};
use zksync_consensus_bft as bft;
use zksync_consensus_engine::{BlockStoreState, EngineInterface, EngineManager, Last, Transaction};
use zksync_consensus_network::io::{ConsensusInputMessage, ConsensusReq};
use zksync_consensus_roles::validator::{self, v2};

const NKEYS: usize = 8;
/// committee id -> members (key indices). Key 0 (the node) is in all of them and is never a leader.
const COMMITTEES: [[usize; 6]; 4] = [[0, 1, 2, 3, 4, 5], [0, 2, 3, 4, 5, 6], [0, 3, 4, 5, 6, 7], [0, 1, 2, 5, 6, 7]];
const ME: usize = 0;
const FETCH_S: i64 = 10;
const VIEW_TIMEOUT_S: i64 = 1_000_000;
const MAX_PAYLOAD: usize = 1000;

// ------------------------------------------------------------------------------------------------ truth

#[derive(Clone, Debug)]
struct EpochSpec {
    act: u64,
    com: usize,
    announce: u64,
}

/// The schedule provider's table (mirrored by `Truth` in lean/EraVerif/Model/Epoch.lean).
#[derive(Clone, Debug)]
struct Truth {
    epochs: Vec<EpochSpec>,
}

impl Truth {
    fn epoch_of(&self, n: u64) -> usize {
        self.epochs.iter().take_while(|e| e.act <= n).count().saturating_sub(1)
    }
    fn prov_schedule(&self, n: u64) -> (usize, u64) {
        let e = &self.epochs[self.epoch_of(n)];
        (e.com, e.act)
    }
    fn prov_pending(&self, n: u64) -> Option<(usize, u64)> {
        let e = self.epochs.get(self.epoch_of(n) + 1)?;
        (e.announce <= n).then_some((e.com, e.act))
    }
    /// the instance of epoch `x` acts although the last block of `x` is persisted
    fn stale(&self, x: u64, persisted_next: u64) -> bool {
        self.epochs.get(x as usize + 1).is_some_and(|nx| nx.act <= persisted_next)
    }
}

// ------------------------------------------------------------------------------------------------ storage stub

#[derive(Clone, Debug, PartialEq)]
struct WriteRec {
    epoch: u64,
    view: u64,
    phase: v2::Phase,
    persisted_next: u64,
}

struct StubInner {
    genesis: validator::Genesis,
    truth: Truth,
    schedules: Vec<validator::Schedule>,
    persisted: sync::watch::Sender<BlockStoreState>,
    blocks: Mutex<BTreeMap<u64, validator::Block>>,
    pending: Mutex<VecDeque<validator::Block>>,
    hold: AtomicBool,
    state: Mutex<Option<validator::ReplicaState>>,
    writes: Mutex<Vec<WriteRec>>,
    /// get_state calls: (persisted.next() at the call, what the slot held)
    reads: Mutex<Vec<(u64, Option<(u64, u64, v2::Phase)>)>>,
    /// last state each epoch made durable, over all lives
    last_backup: Mutex<BTreeMap<u64, (u64, v2::Phase)>>,
    pending_calls: AtomicUsize,
    gate: sync::watch::Sender<bool>,
    generation: AtomicU64,
    violations: Mutex<Vec<(String, String)>>,
}

impl std::fmt::Debug for StubInner {
    fn fmt(&self, f: &mut std::fmt::Formatter<'_>) -> std::fmt::Result {
        f.write_str("EpochStub")
    }
}

#[derive(Clone, Debug)]
struct Stub(Arc<StubInner>, u64);

impl StubInner {
    fn next(&self) -> u64 {
        self.persisted.borrow().next().0
    }
    fn persist_block(&self, b: validator::Block) {
        let n = b.number().0;
        self.blocks.lock().unwrap().insert(n, b.clone());
        self.persisted.send_modify(|p| {
            if p.next().0 == n {
                p.last = Some(Last::from(&b));
            }
        });
    }
    fn slot_summary(&self) -> Option<(u64, u64, v2::Phase)> {
        self.state.lock().unwrap().as_ref().map(|s| {
            let validator::ReplicaState::V2(s) = s;
            (s.epoch.0, s.view_number.0, s.phase)
        })
    }
}

impl Stub {
    fn stale_handle(&self) -> bool {
        self.1 != self.0.generation.load(Ordering::SeqCst)
    }
}

#[async_trait::async_trait]
impl EngineInterface for Stub {
    async fn genesis(&self, _ctx: &ctx::Ctx) -> ctx::Result<validator::Genesis> {
        Ok(self.0.genesis.clone())
    }
    async fn get_validator_schedule(
        &self,
        _ctx: &ctx::Ctx,
        number: validator::BlockNumber,
    ) -> ctx::Result<(validator::Schedule, validator::BlockNumber)> {
        let (com, act) = self.0.truth.prov_schedule(number.0);
        Ok((self.0.schedules[com].clone(), validator::BlockNumber(act)))
    }
    async fn get_pending_validator_schedule(
        &self,
        ctx: &ctx::Ctx,
        number: validator::BlockNumber,
    ) -> ctx::Result<Option<(validator::Schedule, validator::BlockNumber)>> {
        self.0.pending_calls.fetch_add(1, Ordering::SeqCst);
        // a slow provider: the answer arrives when the gate opens
        sync::wait_for(ctx, &mut self.0.gate.subscribe(), |open| *open).await?;
        Ok(self.0.truth.prov_pending(number.0).map(|(com, act)| (self.0.schedules[com].clone(), validator::BlockNumber(act))))
    }
    fn persisted(&self) -> sync::watch::Receiver<BlockStoreState> {
        self.0.persisted.subscribe()
    }
    async fn get_block(&self, _ctx: &ctx::Ctx, number: validator::BlockNumber) -> ctx::Result<validator::Block> {
        self.0.blocks.lock().unwrap().get(&number.0).cloned().ok_or_else(|| anyhow::format_err!("no block").into())
    }
    async fn queue_next_block(&self, _ctx: &ctx::Ctx, block: validator::Block) -> ctx::Result<()> {
        if self.stale_handle() {
            return Err(anyhow::format_err!("stale incarnation").into());
        }
        if self.0.hold.load(Ordering::SeqCst) {
            self.0.pending.lock().unwrap().push_back(block);
        } else {
            self.0.persist_block(block);
        }
        Ok(())
    }
    async fn verify_pregenesis_block(&self, _ctx: &ctx::Ctx, _block: &validator::PreGenesisBlock) -> ctx::Result<()> {
        Ok(())
    }
    async fn verify_payload(&self, _ctx: &ctx::Ctx, _number: validator::BlockNumber, _payload: &validator::Payload) -> ctx::Result<()> {
        Ok(())
    }
    async fn propose_payload(&self, ctx: &ctx::Ctx, _number: validator::BlockNumber) -> ctx::Result<validator::Payload> {
        // the node is never a leader
        ctx.canceled().await;
        Err(ctx::Canceled.into())
    }
    async fn get_state(&self, _ctx: &ctx::Ctx) -> ctx::Result<validator::ReplicaState> {
        self.0.reads.lock().unwrap().push((self.0.next(), self.0.slot_summary()));
        Ok(self.0.state.lock().unwrap().clone().unwrap_or_default())
    }
    async fn set_state(&self, ctx: &ctx::Ctx, state: &validator::ReplicaState) -> ctx::Result<()> {
        if self.stale_handle() {
            return Err(anyhow::format_err!("stale incarnation").into());
        }
        // "Implementations **must** propagate context cancellation."
        if !ctx.is_active() {
            return Err(ctx::Canceled.into());
        }
        let validator::ReplicaState::V2(s) = state;
        let next = self.0.next();
        let e = s.epoch.0;
        if let Some(spec) = self.0.truth.epochs.get(e as usize) {
            if e >= 1 && spec.act > next {
                self.0.violations.lock().unwrap().push((
                    "slot:written_by_next_epoch_before_persist".into(),
                    format!(
                        "set_state(epoch {e}, view {}, {:?}) while the last block of epoch {} (block {}) is not persisted (persisted.next = {next})",
                        s.view_number.0,
                        s.phase,
                        e - 1,
                        spec.act - 1
                    ),
                ));
            }
        }
        // a write below a later epoch that has more than its bootstrap backup
        {
            let lb = self.0.last_backup.lock().unwrap();
            if let Some((x, (v, p))) = lb.iter().find(|(x, b)| **x > e && **b != (0, v2::Phase::Timeout)) {
                self.0.violations.lock().unwrap().push((
                    "slot:late_write_over_votes".into(),
                    format!("set_state(epoch {e}, view {}, {:?}) after epoch {x} made the backup (view {v}, {p:?})", s.view_number.0, s.phase),
                ));
            }
        }
        // the view-0 bootstrap of a (re)started instance: the epoch begins from the default state
        if s.view_number.0 == 0 && s.phase == v2::Phase::Timeout && !self.0.truth.stale(e, next) {
            if let Some((v, p)) = self.0.last_backup.lock().unwrap().get(&e).cloned() {
                if (v, p) != (0, v2::Phase::Timeout) {
                    self.0.violations.lock().unwrap().push((
                        "slot:lost_backup_of_running_epoch".into(),
                        format!("the instance of epoch {e} begins at view 0 although the epoch had made the backup (view {v}, {p:?}); its epoch is not over (persisted.next = {next})"),
                    ));
                }
            }
        }
        self.0.writes.lock().unwrap().push(WriteRec { epoch: e, view: s.view_number.0, phase: s.phase, persisted_next: next });
        self.0.last_backup.lock().unwrap().insert(e, (s.view_number.0, s.phase));
        *self.0.state.lock().unwrap() = Some(state.clone());
        Ok(())
    }
    async fn push_tx(&self, _ctx: &ctx::Ctx, _tx: Transaction) -> ctx::Result<bool> {
        Ok(false)
    }
}

// ------------------------------------------------------------------------------------------------ the node

enum Mode {
    Run { inbound: sync::prunable_mpsc::Sender<ConsensusReq>, done: Arc<Mutex<Option<String>>> },
    Step { replica: Option<bft::verif::Replica> },
}

struct Inst {
    mode: Mode,
    outbound: ctx::channel::UnboundedReceiver<ConsensusInputMessage>,
    first_block: u64,
}

/// One process life of the node.
struct Life {
    clock: ctx::ManualClock,
    root: ctx::Ctx,
    manager: Arc<EngineManager>,
    stops: Vec<tokio::sync::oneshot::Sender<()>>,
    tasks: Vec<tokio::task::JoinHandle<()>>,
    insts: BTreeMap<u64, Inst>,
}

/// What the other validators of one epoch know (the harness plays them).
#[derive(Default)]
struct Book {
    /// certificate of the highest block they finalized in this epoch
    last_qc: Option<v2::CommitQC>,
}

struct Keys {
    sk: Vec<validator::SecretKey>,
}

struct Case {
    fam: String,
    truth: Truth,
    stub: Arc<StubInner>,
    life: Option<Life>,
    books: BTreeMap<u64, Book>,
    /// everything key 0 signed, over all lives
    hist: Vec<validator::Signed<validator::ConsensusMsg>>,
    ops: Vec<Value>,
    reported: HashSet<String>,
    /// number -> epochs accepted by verify_payload under the current map snapshot
    verify_ok: BTreeMap<u64, BTreeSet<u64>>,
    verify_snapshot: Value,
    panics_seen: HashSet<(usize, u64)>,
    /// cursors into the stub logs
    writes_seen: usize,
    reads_seen: usize,
}

pub struct Cepoch {
    rt: tokio::runtime::Runtime,
    keys: Keys,
    schedules: Vec<validator::Schedule>,
    case: Option<Case>,
}

fn phase_str(p: v2::Phase) -> &'static str {
    match p {
        v2::Phase::Prepare => "prepare",
        v2::Phase::Commit => "commit",
        v2::Phase::Timeout => "timeout",
    }
}

fn payload(id: u64) -> validator::Payload {
    validator::Payload(format!("payload-{id}").into_bytes())
}

fn gu(op: &Value, k: &str) -> u64 {
    op[k].as_u64().unwrap_or(0)
}

impl Cepoch {
    fn new(seed: u64) -> Self {
        let rng = &mut StdRng::seed_from_u64(seed ^ 0xE70C);
        let sk: Vec<validator::SecretKey> = (0..NKEYS).map(|_| rng.gen()).collect();
        let schedules = COMMITTEES
            .iter()
            .map(|c| {
                validator::Schedule::new(
                    c.iter().map(|i| validator::ValidatorInfo { key: sk[*i].public(), weight: 1, leader: *i != ME }),
                    validator::LeaderSelection { frequency: 1, mode: validator::LeaderSelectionMode::RoundRobin },
                )
                .expect("schedule")
            })
            .collect();
        Self {
            rt: tokio::runtime::Builder::new_current_thread().enable_all().build().unwrap(),
            keys: Keys { sk },
            schedules,
            case: None,
        }
    }

    // ---------------------------------------------------------------------------------------- life cycle

    fn stop_life(rt: &tokio::runtime::Runtime, life: &mut Life) {
        for (_, inst) in life.insts.iter_mut() {
            if let Mode::Step { replica } = &mut inst.mode {
                replica.take();
            }
        }
        for s in life.stops.drain(..) {
            let _ = s.send(());
        }
        let tasks: Vec<_> = life.tasks.drain(..).collect();
        rt.block_on(async {
            for mut t in tasks {
                for _ in 0..2000 {
                    if t.is_finished() {
                        break;
                    }
                    tokio::task::yield_now().await;
                }
                if !t.is_finished() {
                    t.abort();
                }
                let _ = (&mut t).await;
            }
        });
    }

    /// New `EngineManager` + runner on the case's storage (first start and every restart).
    fn start_life(rt: &tokio::runtime::Runtime, stub: &Arc<StubInner>) -> Result<Life, String> {
        let gen = stub.generation.fetch_add(1, Ordering::SeqCst) + 1;
        stub.pending.lock().unwrap().clear();
        let handle = Stub(stub.clone(), gen);
        rt.block_on(async {
            let clock = ctx::ManualClock::new();
            let root = ctx::test_root(&clock);
            let (manager, runner) = EngineManager::new(&root, Box::new(handle), time::Duration::seconds(FETCH_S))
                .await
                .map_err(|e| format!("{e:?}"))?;
            let (stop_tx, stop_rx) = tokio::sync::oneshot::channel::<()>();
            let r = root.with_deadline(time::Deadline::Infinite);
            let task = tokio::spawn(async move {
                let _: Result<(), ctx::Error> = scope::run!(&r, |ctx, s| async {
                    s.spawn_bg(async {
                        let _ = runner.run(ctx).await;
                        Ok(())
                    });
                    let _ = stop_rx.await;
                    Ok(())
                })
                .await;
            });
            Ok(Life { clock, root, manager, stops: vec![stop_tx], tasks: vec![task], insts: BTreeMap::new() })
        })
    }

    /// Runs the tasks until nothing observable changes any more.
    fn quiesce(&mut self) {
        let c = self.case.as_ref().unwrap();
        let stub = c.stub.clone();
        let Some(life) = c.life.as_ref() else { return };
        let manager = life.manager.clone();
        let dones: Vec<Arc<Mutex<Option<String>>>> = life
            .insts
            .values()
            .filter_map(|i| match &i.mode {
                Mode::Run { done, .. } => Some(done.clone()),
                _ => None,
            })
            .collect();
        self.rt.block_on(async {
            let snap = || {
                (
                    manager.queued(),
                    manager.persisted(),
                    stub.writes.lock().unwrap().len(),
                    stub.reads.lock().unwrap().len(),
                    stub.pending_calls.load(Ordering::SeqCst),
                    stub.pending.lock().unwrap().len(),
                    dones.iter().map(|d| d.lock().unwrap().clone()).collect::<Vec<_>>(),
                    (0..8u64).map(|e| manager.validator_schedule(validator::EpochNumber(e)).map(|l| (l.activation_block, l.expiration_block))).collect::<Vec<_>>(),
                )
            };
            let mut last = snap();
            let mut stable = 0;
            let mut rounds = 0;
            while stable < 4 && rounds < 3000 {
                for _ in 0..12 {
                    tokio::task::yield_now().await;
                }
                let now = snap();
                if now == last {
                    stable += 1;
                } else {
                    stable = 0;
                    last = now;
                }
                rounds += 1;
            }
        });
    }

    // ---------------------------------------------------------------------------------------- observations

    fn sched_json(&self) -> Value {
        let c = self.case.as_ref().unwrap();
        let life = c.life.as_ref().unwrap();
        let mut v = vec![];
        for e in 0..16u64 {
            if let Some(l) = life.manager.validator_schedule(validator::EpochNumber(e)) {
                let com = self.schedules.iter().position(|s| *s == l.schedule).map(|x| x as u64);
                v.push(json!([e, l.activation_block.0, l.expiration_block.map(|x| x.0), com]));
            }
        }
        json!(v)
    }

    /// The map the schedule task has built must be a chain (theorem `runner_maps_disjoint`): consecutive epochs,
    /// increasing activations, expiration(e) = activation(e+1) - 1, the last epoch open.
    fn check_map(&mut self, op: &Value, out: &mut Out) {
        let mut bad = None;
        {
            let c = self.case.as_ref().unwrap();
            let Some(life) = c.life.as_ref() else { return };
            let mut prev: Option<(u64, u64, Option<u64>)> = None;
            for e in 0..16u64 {
                let Some(l) = life.manager.validator_schedule(validator::EpochNumber(e)) else { continue };
                let cur = (e, l.activation_block.0, l.expiration_block.map(|x| x.0));
                if let Some((pe, pa, px)) = prev {
                    if e != pe + 1 || cur.1 <= pa || px != Some(cur.1 - 1) {
                        bad = Some(format!("epoch {pe} = [{pa}, {px:?}] is followed by epoch {e} = [{}, {:?}]", cur.1, cur.2));
                    }
                }
                prev = Some(cur);
            }
            if let Some((pe, _, Some(x))) = prev {
                bad = Some(format!("the last epoch {pe} of the map has the expiration {x}"));
            }
        }
        if let Some(b) = bad {
            self.fail(out, "verify:map_not_a_chain", &format!("the schedule map is not a chain of adjacent ranges: {b}"), op);
        }
    }

    /// Drains the outbound channels: everything the node signed during the op, per instance.
    fn drain_outbound(&mut self) -> Vec<(u64, validator::Signed<validator::ConsensusMsg>)> {
        let c = self.case.as_mut().unwrap();
        let mut res = vec![];
        if let Some(life) = c.life.as_mut() {
            for (e, inst) in life.insts.iter_mut() {
                while let Some(m) = inst.outbound.try_recv() {
                    res.push((*e, m.message));
                }
            }
        }
        for (_, m) in &res {
            c.hist.push(m.clone());
        }
        res
    }

    /// The part of the observation every op of the `rep` / `run` families ends with, and the monitors.
    fn run_obs(&mut self, op: &Value, out: &mut Out, obs: &mut serde_json::Map<String, Value>) -> Vec<(u64, validator::Signed<validator::ConsensusMsg>)> {
        self.quiesce();
        let sent = self.drain_outbound();
        let c = self.case.as_mut().unwrap();
        let stub = c.stub.clone();
        let truth = c.truth.clone();
        // durable writes of this op
        let writes: Vec<WriteRec> = stub.writes.lock().unwrap()[c.writes_seen..].to_vec();
        c.writes_seen += writes.len();
        let mut wrote = vec![];
        let mut stale_wrote = vec![];
        for w in &writes {
            let j = json!([w.epoch, w.view, phase_str(w.phase)]);
            if truth.stale(w.epoch, w.persisted_next) {
                stale_wrote.push(j);
                out.count("stale_write");
            } else {
                wrote.push(j);
            }
        }
        let nreads = stub.reads.lock().unwrap().len();
        let new_reads = nreads - c.reads_seen;
        c.reads_seen = nreads;
        let next = stub.next();
        obs.insert("next".into(), json!(next));
        obs.insert("wrote".into(), json!(wrote));
        obs.insert("_stale_wrote".into(), json!(stale_wrote));
        obs.insert("_reads".into(), json!(new_reads));
        obs.insert("_slot".into(), json!(stub.slot_summary().map(|(e, v, p)| json!([e, v, phase_str(p)]))));
        let mut pending_panics: Vec<String> = vec![];
        if let Some(life) = c.life.as_ref() {
            obs.insert("queued".into(), json!(life.manager.queued().next().0));
            let mut done = vec![];
            let mut how = vec![];
            let mut panicked: Vec<String> = vec![];
            for (e, inst) in &life.insts {
                if let Mode::Run { done: d, .. } = &inst.mode {
                    if let Some(h) = d.lock().unwrap().as_ref() {
                        done.push(*e);
                        if h.starts_with("panic") && c.panics_seen.insert((life_id(life), *e)) {
                            out.count("instance_panicked_at_teardown");
                            // the repo builds with panic = 'abort': a panic of the consensus component kills the node
                            // (property C10; not in the scope of C01 / C03, which borrow this harness too)
                            panicked.push(h.clone());
                        }
                        how.push(json!([e, h]));
                    }
                }
            }
            obs.insert("done".into(), json!(done));
            obs.insert("_done_how".into(), json!(how));
            for h in panicked {
                pending_panics.push(h);
            }
        }
        // ---- monitors
        for h in pending_panics {
            self.fail(out, "panic:bft_instance", &format!("the consensus component panicked (the node aborts): {h}"), op);
        }
        let viol: Vec<(String, String)> = std::mem::take(&mut *stub.violations.lock().unwrap());
        for (site, what) in viol {
            self.fail(out, &site, &what, op);
        }
        self.check_votes(&sent, op, out);
        self.check_equivocation(op, out);
        sent
    }

    fn fail(&mut self, out: &mut Out, site: &str, what: &str, op: &Value) {
        let c = self.case.as_mut().unwrap();
        let site = site.to_string();
        if c.reported.insert(site.clone()) {
            let ops = c.ops.clone();
            out.oracle_fail_ops(&site, what, op.clone(), &ops);
        }
    }

    /// A commit vote for a new block must lie inside the epoch of the instance that signed it (as far as the node's
    /// own schedule map knows it).
    fn check_votes(&mut self, sent: &[(u64, validator::Signed<validator::ConsensusMsg>)], op: &Value, out: &mut Out) {
        let mut fails = vec![];
        {
            let c = self.case.as_ref().unwrap();
            let Some(life) = c.life.as_ref() else { return };
            for (e, m) in sent {
                let validator::ConsensusMsg::V2(v2::ChonkyMsg::ReplicaCommit(v)) = &m.msg else { continue };
                let n = v.proposal.number.0;
                let bad = match life.manager.validator_schedule(validator::EpochNumber(*e)) {
                    None => true,
                    Some(l) => n < l.activation_block.0 || l.expiration_block.is_some_and(|x| n > x.0),
                };
                if bad {
                    fails.push(format!("the instance of epoch {e} signed a commit vote for block {n} (view {}), outside its epoch", v.view.number.0));
                } else if c.truth.epoch_of(n) as u64 != *e {
                    out.count("lagging_vote_past_boundary");
                }
            }
        }
        for f in fails {
            self.fail(out, "vote:outside_epoch", &f, op);
        }
    }

    /// One commit vote per view; no commit vote at or below a view already timed out; signed views never go backwards —
    /// per epoch, over all lives.
    fn check_equivocation(&mut self, op: &Value, out: &mut Out) {
        let mut fails: Vec<(&'static str, String)> = vec![];
        {
            let c = self.case.as_ref().unwrap();
            let mut commits: BTreeMap<u64, Vec<&v2::ReplicaCommit>> = BTreeMap::new();
            let mut max_timeout: BTreeMap<u64, u64> = BTreeMap::new();
            let mut max_signed: BTreeMap<u64, u64> = BTreeMap::new();
            for m in &c.hist {
                let validator::ConsensusMsg::V2(cm) = &m.msg;
                match cm {
                    v2::ChonkyMsg::ReplicaCommit(v) => {
                        let e = v.view.epoch.0;
                        let vn = v.view.number.0;
                        if commits.get(&e).is_some_and(|cs| cs.iter().any(|c| c.view.number == v.view.number && *c != v)) {
                            fails.push(("equivocation:two_commits_one_view", format!("two different commit votes signed for view {vn} of epoch {e}")));
                        }
                        if max_timeout.get(&e).is_some_and(|t| vn <= *t) {
                            fails.push(("equivocation:commit_after_timeout", format!("a commit vote signed for view {vn} of epoch {e}, at or below a view already timed out")));
                        }
                        if max_signed.get(&e).is_some_and(|s| vn < *s) {
                            fails.push(("equivocation:views_backwards", format!("epoch {e}: a commit vote for view {vn} after a vote for view {}", max_signed[&e])));
                        }
                        let s = max_signed.entry(e).or_default();
                        *s = (*s).max(vn);
                        commits.entry(e).or_default().push(v);
                    }
                    v2::ChonkyMsg::ReplicaTimeout(t) => {
                        let e = t.view.epoch.0;
                        let vn = t.view.number.0;
                        if max_signed.get(&e).is_some_and(|s| vn < *s) {
                            fails.push(("equivocation:views_backwards", format!("epoch {e}: a timeout vote for view {vn} after a vote for view {}", max_signed[&e])));
                        }
                        let s = max_signed.entry(e).or_default();
                        *s = (*s).max(vn);
                        let mt = max_timeout.entry(e).or_default();
                        *mt = (*mt).max(vn);
                    }
                    _ => {}
                }
            }
        }
        for (site, what) in fails {
            self.fail(out, site, &what, op);
        }
    }

    // ---------------------------------------------------------------------------------------- messages of the others

    fn genesis_hash(&self) -> validator::GenesisHash {
        self.case.as_ref().unwrap().stub.genesis.hash()
    }

    fn com_of_epoch(&self, e: u64) -> usize {
        self.case.as_ref().unwrap().truth.epochs[e as usize].com
    }

    /// the 5 members of the committee other than the node
    fn others(&self, com: usize) -> Vec<usize> {
        COMMITTEES[com].iter().copied().filter(|i| *i != ME).collect()
    }

    fn commit_qc(&self, com: usize, vote: &v2::ReplicaCommit) -> v2::CommitQC {
        let schedule = &self.schedules[com];
        let mut signers = v2::Signers::new(schedule.len());
        let mut sigs = vec![];
        for i in self.others(com) {
            let sk = &self.keys.sk[i];
            signers.0.set(schedule.index(&sk.public()).unwrap(), true);
            sigs.push(sk.sign_msg(vote.clone()).sig);
        }
        v2::CommitQC { message: vote.clone(), signers, signature: validator::AggregateSignature::aggregate(sigs.iter()) }
    }

    /// the view-0 timeout certificate of epoch `e` (nobody has voted or finalized anything in the epoch yet)
    fn timeout_qc0(&self, e: u64, com: usize) -> v2::TimeoutQC {
        let schedule = &self.schedules[com];
        let view = v2::View { genesis: self.genesis_hash(), number: validator::ViewNumber(0), epoch: validator::EpochNumber(e) };
        let msg = v2::ReplicaTimeout { view, high_vote: None, high_qc: None };
        let mut signers = v2::Signers::new(schedule.len());
        let mut sigs = vec![];
        for i in self.others(com) {
            let sk = &self.keys.sk[i];
            signers.0.set(schedule.index(&sk.public()).unwrap(), true);
            sigs.push(sk.sign_msg(msg.clone()).sig);
        }
        let mut map = BTreeMap::new();
        map.insert(msg, signers);
        v2::TimeoutQC { view, map, signature: validator::AggregateSignature::aggregate(sigs.iter()) }
    }

    fn vote(&self, e: u64, view: u64, n: u64, pay: u64) -> v2::ReplicaCommit {
        v2::ReplicaCommit {
            view: v2::View { genesis: self.genesis_hash(), number: validator::ViewNumber(view), epoch: validator::EpochNumber(e) },
            proposal: v2::BlockHeader { number: validator::BlockNumber(n), payload: payload(pay).hash() },
        }
    }

    /// A final block `n` with payload `pay`, naming epoch `claimed`, certified by the committee `by`.
    fn final_block(&self, n: u64, claimed: u64, by: usize, pay: u64, payload_ok: bool) -> validator::Block {
        let vote = self.vote(claimed, n + 1, n, pay);
        let qc = self.commit_qc(by, &vote);
        v2::FinalBlock { payload: if payload_ok { payload(pay) } else { payload(pay + 100_000) }, justification: qc }.into()
    }

    /// Delivers one message to the instance of epoch `e`. Stepped instance: the handler's verdict. Running
    /// instance: `None` (the loop only logs it).
    fn deliver(&mut self, e: u64, msg: validator::Signed<validator::ConsensusMsg>) -> Option<String> {
        let c = self.case.as_mut().unwrap();
        let life = c.life.as_mut()?;
        let root = life.root.with_deadline(time::Deadline::Infinite);
        let inst = life.insts.get_mut(&e)?;
        match &mut inst.mode {
            Mode::Run { inbound, .. } => {
                inbound.send(ConsensusReq { msg, ack: zksync_concurrency::oneshot::channel().0 });
                None
            }
            Mode::Step { replica } => {
                let mut r = replica.take()?;
                let clock = life.clock.clone();
                // the handler is polled with the other tasks in between; if it is stuck (waiting for a block to be
                // persisted) the view deadline is let pass, after which `on_proposal` gives up
                let res = self.rt.block_on(async {
                    catch_async(async {
                        let v = {
                            let fut = r.handle(&root, msg);
                            tokio::pin!(fut);
                            let mut v = vharness::sim::run_until_idle(fut.as_mut(), 30).await;
                            if v.is_none() {
                                clock.advance(time::Duration::seconds(VIEW_TIMEOUT_S + 1));
                                v = vharness::sim::run_until_idle(fut.as_mut(), 30).await;
                            }
                            v
                        };
                        (v, r)
                    })
                    .await
                });
                match res {
                    Err(site) => Some(format!("panic:{site}")),
                    // still stuck: the replica is abandoned (its handler never returns)
                    Ok((None, _r)) => Some("blocked".into()),
                    Ok((Some(verdict), r)) => {
                        let c = self.case.as_mut().unwrap();
                        if let Some(Mode::Step { replica }) = c.life.as_mut().and_then(|l| l.insts.get_mut(&e)).map(|i| &mut i.mode) {
                            *replica = Some(r);
                        }
                        Some(match verdict {
                            Ok(()) => "accepted".into(),
                            Err(cl) if cl.starts_with("Internal") => "internal".into(),
                            Err(cl) => format!("rejected:{cl}"),
                        })
                    }
                }
            }
        }
    }

    // ---------------------------------------------------------------------------------------- ops

    fn exec_inner(&mut self, op: &Value, out: &mut Out) -> Value {
        let handle = self.rt.handle().clone();
        let _in_runtime = handle.enter();
        let name = op["op"].as_str().unwrap_or("").to_string();
        out.count(&format!("op:{name}"));
        let mut obs = serde_json::Map::new();
        match name.as_str() {
            "boot" => {
                if let Some(mut old) = self.case.take() {
                    if let Some(mut life) = old.life.take() {
                        Self::stop_life(&self.rt, &mut life);
                    }
                }
                let first = gu(op, "first");
                let acts: Vec<u64> = op["acts"].as_array().unwrap().iter().map(|x| x.as_u64().unwrap()).collect();
                let coms: Vec<usize> = op["coms"].as_array().unwrap().iter().map(|x| x.as_u64().unwrap() as usize).collect();
                let ann: Vec<u64> = op["announce"].as_array().unwrap().iter().map(|x| x.as_u64().unwrap()).collect();
                let truth = Truth {
                    epochs: (0..acts.len()).map(|i| EpochSpec { act: acts[i], com: coms[i], announce: ann[i] }).collect(),
                };
                let is_static = op["static"].as_bool().unwrap_or(false);
                let genesis = validator::GenesisRaw {
                    chain_id: validator::ChainId(1337),
                    fork_number: validator::ForkNumber(0),
                    first_block: validator::BlockNumber(first),
                    protocol_version: validator::ProtocolVersion::CURRENT,
                    validators_schedule: is_static.then(|| self.schedules[coms[0]].clone()),
                }
                .with_hash();
                let stub = Arc::new(StubInner {
                    genesis,
                    truth: truth.clone(),
                    schedules: self.schedules.clone(),
                    persisted: sync::watch::channel(BlockStoreState { first: validator::BlockNumber(first), last: None }).0,
                    blocks: Mutex::new(BTreeMap::new()),
                    pending: Mutex::new(VecDeque::new()),
                    hold: AtomicBool::new(op["hold"].as_bool().unwrap_or(false)),
                    state: Mutex::new(None),
                    writes: Mutex::new(vec![]),
                    reads: Mutex::new(vec![]),
                    last_backup: Mutex::new(BTreeMap::new()),
                    pending_calls: AtomicUsize::new(0),
                    gate: sync::watch::channel(true).0,
                    generation: AtomicU64::new(0),
                    violations: Mutex::new(vec![]),
                });
                let fam = op["fam"].as_str().unwrap_or("mgr").to_string();
                out.count(&format!("case:{fam}"));
                self.case = Some(Case {
                    fam,
                    truth,
                    stub: stub.clone(),
                    life: None,
                    books: BTreeMap::new(),
                    hist: vec![],
                    ops: vec![],
                    reported: HashSet::new(),
                    verify_ok: BTreeMap::new(),
                    verify_snapshot: json!(null),
                    panics_seen: HashSet::new(),
                    writes_seen: 0,
                    reads_seen: 0,
                });
                match Self::start_life(&self.rt, &stub) {
                    Ok(l) => self.case.as_mut().unwrap().life = Some(l),
                    Err(e) => return json!({"_err": e, "ok": false}),
                }
                self.quiesce();
                obs.insert("sched".into(), self.sched_json());
                self.check_map(op, out);
                obs.insert("asked".into(), json!(stub.pending_calls.load(Ordering::SeqCst)));
                obs.insert("next".into(), json!(stub.next()));
            }
            _ if self.case.is_none() => return json!({"_err": "no case"}),
            "tick" => {
                // the poll interval of the schedule task passes
                let c = self.case.as_ref().unwrap();
                let stub = c.stub.clone();
                if let Some(life) = c.life.as_ref() {
                    life.clock.advance(time::Duration::seconds(FETCH_S));
                }
                if c.fam == "mgr" {
                    self.quiesce();
                } else {
                    self.run_obs(op, out, &mut obs);
                }
                obs.insert("sched".into(), self.sched_json());
                self.check_map(op, out);
                obs.insert("asked".into(), json!(stub.pending_calls.load(Ordering::SeqCst)));
            }
            "jump" => {
                // the execution layer obtained blocks up to `to` by other means (they carry certificates of their epochs)
                let to = gu(op, "to");
                let c = self.case.as_ref().unwrap();
                let stub = c.stub.clone();
                let from = stub.next();
                for n in from..=to {
                    let e = c.truth.epoch_of(n) as u64;
                    let com = c.truth.epochs[e as usize].com;
                    let vote = self.vote(e, n + 1, n, 500_000 + n);
                    // nobody verifies what the storage reports: an unsigned certificate is enough
                    let qc = v2::CommitQC::new(vote, &self.schedules[com]);
                    stub.persist_block(v2::FinalBlock { payload: payload(500_000 + n), justification: qc }.into());
                }
                if c.fam == "mgr" {
                    self.quiesce();
                    obs.insert("next".into(), json!(stub.next()));
                } else {
                    self.run_obs(op, out, &mut obs);
                }
            }
            "verify" => {
                let (n, e) = (gu(op, "n"), gu(op, "e"));
                let c = self.case.as_ref().unwrap();
                let life = c.life.as_ref().unwrap();
                let (manager, root) = (life.manager.clone(), life.root.with_deadline(time::Deadline::Infinite));
                let r = self.rt.block_on(async {
                    catch_async(manager.verify_payload(&root, validator::BlockNumber(n), validator::EpochNumber(e), &payload(1))).await
                });
                let ok = match r {
                    Err(site) => return json!({"panic": site}),
                    Ok(r) => r.is_ok(),
                };
                obs.insert("ok".into(), json!(ok));
                if ok {
                    let bad = match manager.validator_schedule(validator::EpochNumber(e)) {
                        None => true,
                        Some(l) => n < l.activation_block.0 || l.expiration_block.is_some_and(|x| n > x.0),
                    };
                    if bad {
                        self.fail(out, "verify:accepted_outside_epoch", &format!("verify_payload({n}, epoch {e}) accepted; the manager's schedule map is {}", self.sched_json()), op);
                    }
                    let snap = self.sched_json();
                    let c = self.case.as_mut().unwrap();
                    if c.verify_snapshot != snap {
                        c.verify_snapshot = snap;
                        c.verify_ok.clear();
                    }
                    let set = c.verify_ok.entry(n).or_default();
                    set.insert(e);
                    if set.len() > 1 {
                        let s = format!("{set:?}");
                        self.fail(out, "verify:two_epochs_one_number", &format!("verify_payload accepted block {n} for epochs {s} under one schedule map"), op);
                    }
                    if self.case.as_ref().unwrap().truth.epoch_of(n) as u64 != e {
                        out.count("lagging_accept_past_boundary");
                    }
                }
                out.count(if ok { "verify:ok" } else { "verify:rejected" });
            }
            "qblock" => {
                let (n, claimed, by, pay) = (gu(op, "n"), gu(op, "claimed"), gu(op, "by") as usize, gu(op, "pay"));
                let payok = op["payok"].as_bool().unwrap_or(true);
                let block = self.final_block(n, claimed, by, pay, payok);
                let c = self.case.as_ref().unwrap();
                let life = c.life.as_ref().unwrap();
                let (manager, root) = (life.manager.clone(), life.root.with_deadline(time::Deadline::Infinite));
                let r = self.rt.block_on(async { catch_async(manager.queue_block(&root, block)).await });
                let class = match r {
                    Err(site) => return json!({"panic": site}),
                    Ok(Ok(())) => "ok".to_string(),
                    Ok(Err(e)) => {
                        let s = format!("{e:#}");
                        obs.insert("_err".into(), json!(s));
                        if s.contains("epoch schedule is not available") { "no_schedule".into() } else { "bad_block".into() }
                    }
                };
                if class == "ok" {
                    let known = manager.validator_schedule(validator::EpochNumber(claimed));
                    let right = known.is_some_and(|l| l.schedule == self.schedules[by]) && payok;
                    if !right {
                        self.fail(out, "qblock:wrong_committee_accepted", &format!("queue_block stored block {n} naming epoch {claimed} certified by committee {by}"), op);
                    }
                }
                out.count(&format!("qblock:{class}"));
                obs.insert("class".into(), json!(class));
                if self.case.as_ref().unwrap().fam == "mgr" {
                    self.quiesce();
                    let c = self.case.as_ref().unwrap();
                    obs.insert("queued".into(), json!(c.life.as_ref().unwrap().manager.queued().next().0));
                    obs.insert("next".into(), json!(c.stub.next()));
                } else {
                    self.run_obs(op, out, &mut obs);
                }
            }
            "hold" => {
                self.case.as_ref().unwrap().stub.hold.store(op["on"].as_bool().unwrap_or(true), Ordering::SeqCst);
            }
            "gate" => {
                let open = op["open"].as_bool().unwrap_or(true);
                self.case.as_ref().unwrap().stub.gate.send_replace(open);
                self.run_obs(op, out, &mut obs);
                obs.insert("sched".into(), self.sched_json());
                self.check_map(op, out);
            }
            "persist" => {
                // the slow storage finishes writing the next block it was handed
                let stub = self.case.as_ref().unwrap().stub.clone();
                let b = stub.pending.lock().unwrap().pop_front();
                obs.insert("had".into(), json!(b.is_some()));
                if let Some(b) = b {
                    stub.persist_block(b);
                }
                self.run_obs(op, out, &mut obs);
            }
            "spawn" => {
                // what the executor does once the schedule of `e` is known: Config::new + Config::run as a task
                let e = gu(op, "e");
                let c = self.case.as_mut().unwrap();
                let life = c.life.as_mut().unwrap();
                let cfg = bft::Config::new(self.keys.sk[ME].clone(), MAX_PAYLOAD, time::Duration::seconds(VIEW_TIMEOUT_S), life.manager.clone(), validator::EpochNumber(e));
                let ok = cfg.is_ok() && !life.insts.contains_key(&e);
                obs.insert("ok".into(), json!(ok));
                if ok {
                    let cfg = cfg.unwrap();
                    let first_block = life.manager.validator_schedule(validator::EpochNumber(e)).unwrap().activation_block.0;
                    let (out_send, out_recv) = ctx::channel::unbounded();
                    let (in_send, in_recv) = bft::create_input_channel();
                    let done = Arc::new(Mutex::new(None));
                    let d = done.clone();
                    let root = life.root.with_deadline(time::Deadline::Infinite);
                    let (stop_tx, stop_rx) = tokio::sync::oneshot::channel::<()>();
                    let task = tokio::spawn(async move {
                        let _: Result<(), ctx::Error> = scope::run!(&root, |ctx, s| async {
                            s.spawn_bg(async {
                                // a panic inside the component (it aborts the real node) ends the instance
                                let r = catch_async(cfg.run(ctx, out_send, in_recv)).await;
                                *d.lock().unwrap() = Some(match r {
                                    Ok(Ok(())) => "ok".to_string(),
                                    Ok(Err(e)) => format!("err:{e:#}"),
                                    Err(site) => format!("panic:{site}"),
                                });
                                Ok(())
                            });
                            let _ = stop_rx.await;
                            Ok(())
                        })
                        .await;
                    });
                    life.stops.push(stop_tx);
                    life.tasks.push(task);
                    life.insts.insert(e, Inst { mode: Mode::Run { inbound: in_send, done }, outbound: out_recv, first_block });
                }
                self.run_obs(op, out, &mut obs);
            }
            "rstart" => {
                // StateMachine::start for epoch `e` on the verif hook (stepped replica)
                let e = gu(op, "e");
                let c = self.case.as_mut().unwrap();
                let life = c.life.as_mut().unwrap();
                let cfg = bft::Config::new(self.keys.sk[ME].clone(), MAX_PAYLOAD, time::Duration::seconds(VIEW_TIMEOUT_S), life.manager.clone(), validator::EpochNumber(e));
                let ok = cfg.is_ok() && !life.insts.contains_key(&e);
                obs.insert("ok".into(), json!(ok));
                if ok {
                    let first_block = life.manager.validator_schedule(validator::EpochNumber(e)).unwrap().activation_block.0;
                    let (out_send, out_recv) = ctx::channel::unbounded();
                    let root = life.root.with_deadline(time::Deadline::Infinite);
                    let r = self.rt.block_on(async { catch_async(bft::verif::Replica::start(&root, cfg.unwrap(), out_send)).await });
                    match r {
                        Err(site) => return json!({"panic": site}),
                        Ok(Err(err)) => return json!({"_err": format!("{err:?}"), "ok": false}),
                        Ok(Ok(replica)) => {
                            let s = replica.snapshot();
                            obs.insert("view".into(), json!(s.view.0));
                            obs.insert("phase".into(), json!(phase_str(s.phase)));
                            let c = self.case.as_mut().unwrap();
                            c.life.as_mut().unwrap().insts.insert(e, Inst { mode: Mode::Step { replica: Some(replica) }, outbound: out_recv, first_block });
                        }
                    }
                }
                self.run_obs(op, out, &mut obs);
            }
            "prop" => {
                // the leader of `view` of epoch `e` proposes: a new block `n` with payload `pay`, justified by the
                // certificate of the previous block (`just` = "c") or by the view-0 timeout certificate ("t")
                let (e, view, n, pay) = (gu(op, "e"), gu(op, "view"), gu(op, "n"), gu(op, "pay"));
                let com = self.com_of_epoch(e);
                let just = if op["just"].as_str() == Some("t") {
                    v2::ProposalJustification::Timeout(self.timeout_qc0(e, com))
                } else {
                    // the certificate of block n-1 finalized in view `view - 1` with payload `ppay`
                    let vote = self.vote(e, view - 1, n - 1, gu(op, "ppay"));
                    v2::ProposalJustification::Commit(self.commit_qc(com, &vote))
                };
                let leader = self.schedules[com].view_leader(validator::ViewNumber(view));
                let lk = self.keys.sk.iter().find(|k| k.public() == leader).unwrap().clone();
                let msg = lk.sign_msg(validator::ConsensusMsg::V2(v2::ChonkyMsg::LeaderProposal(v2::LeaderProposal {
                    proposal_payload: Some(payload(pay)),
                    justification: just,
                })));
                if let Some(class) = self.deliver(e, msg) {
                    if class.starts_with("panic") {
                        return json!({"panic": class});
                    }
                    out.count(&format!("prop:{class}"));
                    obs.insert("class".into(), json!(class));
                }
                let sent = self.run_obs(op, out, &mut obs);
                let voted = sent.iter().any(|(x, m)| {
                    *x == e && matches!(&m.msg, validator::ConsensusMsg::V2(v2::ChonkyMsg::ReplicaCommit(v)) if v.view.number.0 == view && v.proposal.number.0 == n && v.proposal.payload == payload(pay).hash())
                });
                obs.insert("voted".into(), json!(voted));
                out.count(if voted { "prop:voted" } else { "prop:not_voted" });
            }
            "commits" => {
                // the 5 other members vote for (view, n, pay): the node assembles the certificate
                let (e, view, n, pay) = (gu(op, "e"), gu(op, "view"), gu(op, "n"), gu(op, "pay"));
                let com = self.com_of_epoch(e);
                let vote = self.vote(e, view, n, pay);
                let mut classes = vec![];
                for i in self.others(com) {
                    let m = self.keys.sk[i].sign_msg(validator::ConsensusMsg::V2(v2::ChonkyMsg::ReplicaCommit(vote.clone())));
                    if let Some(cl) = self.deliver(e, m) {
                        if cl.starts_with("panic") {
                            return json!({"panic": cl});
                        }
                        classes.push(cl);
                    }
                }
                if !classes.is_empty() {
                    obs.insert("_classes".into(), json!(classes));
                }
                let qc = self.commit_qc(com, &vote);
                self.case.as_mut().unwrap().books.entry(e).or_default().last_qc = Some(qc);
                self.run_obs(op, out, &mut obs);
            }
            "restart" => {
                // the process is killed and started again on the same storage
                let _ = self.drain_outbound();
                let c = self.case.as_mut().unwrap();
                if let Some(mut life) = c.life.take() {
                    Self::stop_life(&self.rt, &mut life);
                }
                let stub = c.stub.clone();
                if let Some(g) = op["gate"].as_bool() {
                    stub.gate.send_replace(g);
                }
                // whatever the dying tasks still did is not part of the new life's observations
                c.writes_seen = stub.writes.lock().unwrap().len();
                c.reads_seen = stub.reads.lock().unwrap().len();
                match Self::start_life(&self.rt, &stub) {
                    Ok(l) => c.life = Some(l),
                    Err(e) => return json!({"_err": e, "ok": false}),
                }
                self.run_obs(op, out, &mut obs);
                obs.insert("sched".into(), self.sched_json());
                self.check_map(op, out);
                obs.insert("asked".into(), json!(stub.pending_calls.load(Ordering::SeqCst)));
            }
            "peer" => {
                // a second correct node: takes the blocks of the finished epochs from the first node, learns the next
                // schedule, and receives the block that the NEXT committee finalized for `n` (payload `pay`)
                let (n, pay, e) = (gu(op, "n"), gu(op, "pay"), gu(op, "e"));
                let c = self.case.as_ref().unwrap();
                let a = c.life.as_ref().unwrap().manager.clone();
                let root = c.life.as_ref().unwrap().root.with_deadline(time::Deadline::Infinite);
                let truth = c.truth.clone();
                let bstub = Arc::new(StubInner {
                    genesis: c.stub.genesis.clone(),
                    truth: truth.clone(),
                    schedules: self.schedules.clone(),
                    persisted: sync::watch::channel(BlockStoreState { first: c.stub.genesis.first_block, last: None }).0,
                    blocks: Mutex::new(BTreeMap::new()),
                    pending: Mutex::new(VecDeque::new()),
                    hold: AtomicBool::new(false),
                    state: Mutex::new(None),
                    writes: Mutex::new(vec![]),
                    reads: Mutex::new(vec![]),
                    last_backup: Mutex::new(BTreeMap::new()),
                    pending_calls: AtomicUsize::new(0),
                    gate: sync::watch::channel(true).0,
                    generation: AtomicU64::new(0),
                    violations: Mutex::new(vec![]),
                });
                let mut blife = match Self::start_life(&self.rt, &bstub) {
                    Ok(l) => l,
                    Err(e) => return json!({"_err": e}),
                };
                let bm = blife.manager.clone();
                let block = self.final_block(n, e, truth.epochs[e as usize].com, pay, true);
                let first = c.stub.genesis.first_block.0;
                let clock = blife.clock.clone();
                let (b_ok, disagreements): (bool, Vec<String>) = self.rt.block_on(async {
                    let settle = || async {
                        for _ in 0..60 {
                            tokio::task::yield_now().await;
                        }
                    };
                    let mut b_ok = true;
                    for k in first..n {
                        let Ok(Some(b)) = a.get_block(&root, validator::BlockNumber(k)).await else { b_ok = false; break };
                        // the schedule task of B follows the persisted head
                        for _ in 0..3 {
                            if bm.validator_schedule(b_epoch(&b)).is_some() {
                                break;
                            }
                            clock.advance(time::Duration::seconds(FETCH_S));
                            settle().await;
                        }
                        if bm.queue_block(&root, b).await.is_err() {
                            b_ok = false;
                            break;
                        }
                        settle().await;
                    }
                    for _ in 0..3 {
                        if bm.validator_schedule(validator::EpochNumber(e)).is_some() {
                            break;
                        }
                        clock.advance(time::Duration::seconds(FETCH_S));
                        settle().await;
                    }
                    if b_ok && bm.queue_block(&root, block).await.is_err() {
                        b_ok = false;
                    }
                    settle().await;
                    let mut dis = vec![];
                    let top = a.queued().next().0.min(bm.queued().next().0);
                    for k in first..top {
                        let (Ok(Some(x)), Ok(Some(y))) = (a.get_block(&root, validator::BlockNumber(k)).await, bm.get_block(&root, validator::BlockNumber(k)).await) else { continue };
                        if x.payload() != y.payload() {
                            dis.push(format!("block {k}: node A stores a block of epoch {} and node B a block of epoch {} with different payloads", b_epoch(&x).0, b_epoch(&y).0));
                        }
                    }
                    (b_ok, dis)
                });
                Self::stop_life(&self.rt, &mut blife);
                obs.insert("b_ok".into(), json!(b_ok));
                obs.insert("agree".into(), json!(disagreements.is_empty()));
                for d in disagreements {
                    self.fail(out, "disagreement:two_payloads_one_number", &d, op);
                }
            }
            _ => return json!({"bad_op": true}),
        }
        Value::Object(obs)
    }
}

fn life_id(l: &Life) -> usize {
    Arc::as_ptr(&l.manager) as usize
}

fn b_epoch(b: &validator::Block) -> validator::EpochNumber {
    match b {
        validator::Block::FinalV2(b) => b.epoch(),
        validator::Block::PreGenesis(_) => validator::EpochNumber(0),
    }
}

// ------------------------------------------------------------------------------------------------ generation

struct G<'a> {
    rng: &'a mut StdRng,
    ops: Vec<Value>,
    pay: u64,
}

impl G<'_> {
    fn fresh_pay(&mut self) -> u64 {
        self.pay += 1;
        self.pay
    }

    /// A table of 2-4 epochs of 2-4 blocks, committees differing from epoch to epoch, each schedule announced
    /// `lead` blocks before it activates.
    fn table(&mut self, first: u64, run: bool) -> (Vec<u64>, Vec<u64>, Vec<u64>) {
        let k = self.rng.gen_range(2..=4);
        let mut acts = vec![first];
        let mut coms = vec![self.rng.gen_range(0..4u64)];
        let mut ann = vec![0u64];
        for i in 1..k {
            let len = if run { self.rng.gen_range(2..=3) } else { self.rng.gen_range(2..=4) };
            let a = acts[i - 1] + len;
            acts.push(a);
            coms.push(loop {
                let c = self.rng.gen_range(0..4u64);
                if c != coms[i - 1] || self.rng.gen_bool(0.15) {
                    break c;
                }
            });
            // announced at least one block inside the previous epoch, at most at its first block
            ann.push(self.rng.gen_range(acts[i - 1]..a - 1));
        }
        (acts, coms, ann)
    }

    fn boot(&mut self, fam: &str, first: u64, t: &(Vec<u64>, Vec<u64>, Vec<u64>), extra: Value) {
        let mut o = json!({"op": "boot", "reset": true, "fam": fam, "first": first, "acts": t.0, "coms": t.1, "announce": t.2});
        for (k, v) in extra.as_object().unwrap() {
            o[k] = v.clone();
        }
        self.ops.push(o);
    }

    /// verify_payload probes around every boundary the table has, for every epoch the table has plus one unknown
    fn probes(&mut self, t: &(Vec<u64>, Vec<u64>, Vec<u64>), few: bool) {
        let k = t.0.len() as u64;
        let mut ns = BTreeSet::new();
        for a in &t.0 {
            for d in [-2i64, -1, 0, 1] {
                let n = *a as i64 + d;
                if n >= 0 {
                    ns.insert(n as u64);
                }
            }
        }
        ns.insert(t.0[t.0.len() - 1] + 7);
        ns.insert(t.0[t.0.len() - 1] + 1000);
        ns.insert(0);
        let ns: Vec<u64> = ns.into_iter().collect();
        for n in &ns {
            for e in 0..=k {
                if self.rng.gen_bool(if few { 0.85 } else { 0.4 }) {
                    continue;
                }
                self.ops.push(json!({"op": "verify", "n": n, "e": e}));
            }
        }
    }

    /// family (i): the manager alone
    fn case_mgr(&mut self) {
        let first = *[0u64, 1, 3, 7].get(self.rng.gen_range(0..4)).unwrap();
        let t = self.table(first, false);
        let is_static = self.rng.gen_bool(0.12);
        self.boot("mgr", first, &t, json!({"static": is_static}));
        self.probes(&t, false);
        let last_act = t.0[t.0.len() - 1];
        let mut next = first;
        // walk the chain: blocks arrive (side channel or queue_block), the schedule task polls now and then
        while next <= last_act + 2 {
            match self.rng.gen_range(0..10) {
                0..=3 => {
                    let to = next + self.rng.gen_range(0..2);
                    self.ops.push(json!({"op": "jump", "to": to}));
                    next = to + 1;
                }
                4..=6 => {
                    // a block for the next number: right committee, or the neighbour epoch's, or a wrong claim
                    let e_true = t.0.iter().take_while(|a| **a <= next).count() as u64 - 1;
                    let (claimed, by) = match self.rng.gen_range(0..6) {
                        0 => (e_true, t.1[e_true as usize]),
                        1 => (e_true, t.1[e_true as usize]),
                        2 if e_true > 0 => (e_true - 1, t.1[e_true as usize - 1]),
                        3 if (e_true as usize) + 1 < t.0.len() => (e_true + 1, t.1[e_true as usize + 1]),
                        4 => (e_true, (t.1[e_true as usize] + 1) % 4),
                        _ => (e_true + 5, t.1[e_true as usize]),
                    };
                    let pay = self.fresh_pay();
                    let payok = !self.rng.gen_bool(0.08);
                    self.ops.push(json!({"op": "qblock", "n": next, "claimed": claimed, "by": by, "pay": pay, "payok": payok}));
                    // whether it was stored depends on what the manager knows; make sure the walk goes on
                    self.ops.push(json!({"op": "jump", "to": next}));
                    next += 1;
                }
                _ => {
                    self.ops.push(json!({"op": "tick"}));
                    self.probes(&t, true);
                }
            }
        }
        self.ops.push(json!({"op": "tick"}));
        self.probes(&t, false);
        if self.rng.gen_bool(0.5) {
            // restart: the map is rebuilt from the last persisted block
            self.ops.push(json!({"op": "restart"}));
            self.probes(&t, true);
            self.ops.push(json!({"op": "tick"}));
            self.probes(&t, true);
        }
    }

    /// blocks `from..=to` of epoch `e` are proposed, voted and finalized one per view (block `first_of_epoch` in
    /// view 1, ...); `ppay` = payload id of block `from - 1`; returns the payload id of the last block produced
    fn produce(&mut self, e: u64, first_of_epoch: u64, from: u64, to: u64, mut ppay: u64) -> u64 {
        for n in from..=to {
            let view = n - first_of_epoch + 1;
            let pay = self.fresh_pay();
            if n == first_of_epoch {
                self.ops.push(json!({"op": "prop", "e": e, "view": view, "n": n, "pay": pay, "just": "t"}));
            } else {
                self.ops.push(json!({"op": "prop", "e": e, "view": view, "n": n, "pay": pay, "just": "c", "ppay": ppay}));
            }
            self.ops.push(json!({"op": "commits", "e": e, "view": view, "n": n, "pay": pay}));
            ppay = pay;
        }
        ppay
    }

    /// family (ii): a stepped replica of epoch 0 at the end of its epoch
    fn case_rep(&mut self) {
        let first = *[0u64, 1, 3].get(self.rng.gen_range(0..3)).unwrap();
        let mut t = self.table(first, true);
        t.0.truncate(2);
        t.1.truncate(2);
        t.2.truncate(2);
        if t.1[0] == t.1[1] {
            t.1[1] = (t.1[0] + 1) % 4;
        }
        self.boot("rep", first, &t, json!({}));
        self.ops.push(json!({"op": "rstart", "e": 0}));
        let exp = t.0[1] - 1;
        let ppay = self.produce(0, first, first, exp, 0);
        // does the node know where its epoch ends?
        let informed = self.rng.gen_bool(0.75);
        if informed {
            self.ops.push(json!({"op": "tick"}));
        }
        self.ops.push(json!({"op": "verify", "n": exp, "e": 0}));
        self.ops.push(json!({"op": "verify", "n": exp + 1, "e": 0}));
        self.ops.push(json!({"op": "verify", "n": exp + 1, "e": 1}));
        // the old leader proposes one more block
        let view = exp + 1 - first + 1;
        let pay = self.fresh_pay();
        self.ops.push(json!({"op": "prop", "e": 0, "view": view, "n": exp + 1, "pay": pay, "just": "c", "ppay": ppay}));
        // the other members of the old committee behave like the node: if it voted they all did
        self.ops.push(json!({"op": "commits", "e": 0, "view": view, "n": exp + 1, "pay": pay}));
        if informed {
            let pay2 = self.fresh_pay();
            self.ops.push(json!({"op": "peer", "n": exp + 1, "e": 1, "pay": pay2}));
        }
    }

    /// family (iii): Config::run of epochs 0 and 1 on one node around the boundary
    fn case_run(&mut self, variant: u32) {
        let first = *[0u64, 1, 3].get(self.rng.gen_range(0..3)).unwrap();
        let mut t = self.table(first, true);
        // epoch 0 has 3 or 4 blocks (the schedule task asks for the next schedule once two of them are persisted)
        let grow = 3 + (variant as u64 / 3) % 2 - (t.0[1] - t.0[0]).min(3 + (variant as u64 / 3) % 2);
        for a in t.0.iter_mut().skip(1) {
            *a += grow;
        }
        for (i, a) in t.2.iter_mut().enumerate().skip(1) {
            *a = if i == 1 { first + (variant as u64 % 2) } else { *a + grow };
        }
        while t.0.len() < 3 {
            let a = t.0[t.0.len() - 1] + 3;
            t.0.push(a);
            t.1.push(self.rng.gen_range(0..4));
            t.2.push(a - 2);
        }
        self.boot("run", first, &t, json!({}));
        self.ops.push(json!({"op": "spawn", "e": 0}));
        self.ops.push(json!({"op": "spawn", "e": 1})); // not known yet: Config::new fails
        let exp = t.0[1] - 1;
        // all blocks of epoch 0 but the last one; the schedule of epoch 1 gets known on the way
        let mut ppay = 0;
        let mut spawned1 = false;
        for n in first..exp {
            ppay = self.produce(0, first, n, n, ppay);
            if !spawned1 && n >= t.2[1] + 1 {
                self.ops.push(json!({"op": "tick"}));
                self.ops.push(json!({"op": "spawn", "e": 1}));
                spawned1 = true;
            }
        }
        if !spawned1 {
            self.ops.push(json!({"op": "tick"}));
            self.ops.push(json!({"op": "spawn", "e": 1}));
        }
        // the last block of epoch 0: storage is slow from here on
        self.ops.push(json!({"op": "hold", "on": true}));
        let vlast = exp - first + 1;
        let pay_last = self.fresh_pay();
        if exp == first {
            self.ops.push(json!({"op": "prop", "e": 0, "view": vlast, "n": exp, "pay": pay_last, "just": "t"}));
        } else {
            self.ops.push(json!({"op": "prop", "e": 0, "view": vlast, "n": exp, "pay": pay_last, "just": "c", "ppay": ppay}));
        }
        self.ops.push(json!({"op": "commits", "e": 0, "view": vlast, "n": exp, "pay": pay_last}));
        match variant % 3 {
            0 => {
                // killed before the block write lands; the leader of that view then equivocates
                self.ops.push(json!({"op": "restart"}));
                self.ops.push(json!({"op": "spawn", "e": 0}));
                self.ops.push(json!({"op": "tick"}));
                let pay2 = self.fresh_pay();
                if exp == first {
                    self.ops.push(json!({"op": "prop", "e": 0, "view": vlast, "n": exp, "pay": pay2, "just": "t"}));
                } else {
                    self.ops.push(json!({"op": "prop", "e": 0, "view": vlast, "n": exp, "pay": pay2, "just": "c", "ppay": ppay}));
                }
                self.ops.push(json!({"op": "spawn", "e": 1}));
                // the block is finalized again (the others still have it) and this time it is written
                self.ops.push(json!({"op": "hold", "on": false}));
                self.ops.push(json!({"op": "qblock", "n": exp, "claimed": 0, "by": t.1[0], "pay": pay_last, "payok": true}));
                self.ops.push(json!({"op": "tick"}));
            }
            1 => {
                // the write lands: epoch 0 is over, epoch 1 takes the slot and goes on
                self.ops.push(json!({"op": "persist"}));
                self.ops.push(json!({"op": "hold", "on": false}));
                let e1_last = (t.0[2] - 1).min(t.0[1] + 1);
                let p_first = self.produce(1, t.0[1], t.0[1], t.0[1], 0);
                if e1_last > t.0[1] {
                    self.produce(1, t.0[1], e1_last, e1_last, p_first);
                }
                // killed in the middle of epoch 1, an equivocating leader afterwards
                self.ops.push(json!({"op": "restart"}));
                self.ops.push(json!({"op": "tick"}));
                self.ops.push(json!({"op": "spawn", "e": 1}));
                let v = e1_last - t.0[1] + 1;
                let pay2 = self.fresh_pay();
                if e1_last == t.0[1] {
                    self.ops.push(json!({"op": "prop", "e": 1, "view": v, "n": e1_last, "pay": pay2, "just": "t"}));
                } else {
                    self.ops.push(json!({"op": "prop", "e": 1, "view": v, "n": e1_last, "pay": pay2, "just": "c", "ppay": p_first}));
                }
            }
            _ => {
                // the write lands late, after more waiting; then a crash right at the boundary and the regular restart
                self.ops.push(json!({"op": "tick"}));
                self.ops.push(json!({"op": "persist"}));
                self.ops.push(json!({"op": "hold", "on": false}));
                self.ops.push(json!({"op": "restart"}));
                // the executor begins with the first epoch of the map (epoch 0: the last persisted block is its last one)
                self.ops.push(json!({"op": "spawn", "e": 0}));
                self.ops.push(json!({"op": "tick"}));
                self.ops.push(json!({"op": "spawn", "e": 1}));
                self.produce(1, t.0[1], t.0[1], t.0[1], 0);
            }
        }
    }

    /// Directed scenario F13: restart exactly at the boundary (last block of epoch 0 persisted, epoch 1 has voted,
    /// its first block is not persisted) with a slow `get_pending_validator_schedule`: the executor's first epoch
    /// is 0 again.
    fn case_f13(&mut self) {
        let first = 0u64;
        let t = (vec![0u64, 3, 6], vec![0u64, 1, 2], vec![0u64, 1, 4]);
        self.boot("run", first, &t, json!({"f13": true}));
        self.ops.push(json!({"op": "spawn", "e": 0}));
        let p = self.produce(0, 0, 0, 1, 0);
        self.ops.push(json!({"op": "tick"}));
        self.ops.push(json!({"op": "spawn", "e": 1}));
        self.produce(0, 0, 2, 2, p);
        // epoch 1: the node votes for block 3 in view 1; the block is not finalized before the crash
        let pay = self.fresh_pay();
        self.ops.push(json!({"op": "prop", "e": 1, "view": 1, "n": 3, "pay": pay, "just": "t"}));
        // killed; the provider is slow after the restart
        self.ops.push(json!({"op": "restart", "gate": false}));
        self.ops.push(json!({"op": "spawn", "e": 0})); // the first epoch of the map: epoch 0
        self.ops.push(json!({"op": "gate", "open": true}));
        self.ops.push(json!({"op": "spawn", "e": 1}));
        // the leader of view 1 of epoch 1 sends another proposal for view 1
        let pay2 = self.fresh_pay();
        self.ops.push(json!({"op": "prop", "e": 1, "view": 1, "n": 3, "pay": pay2, "just": "t"}));
    }
}

impl Prop for Cepoch {
    fn gen(&mut self, opts: &Opts) -> Vec<Value> {
        let mut rng = opts.rng();
        let mut g = G { rng: &mut rng, ops: vec![], pay: 0 };
        // budget: n is the approximate number of ops
        g.case_f13();
        let mut i = 0u32;
        while g.ops.len() < opts.n {
            match i % 4 {
                0 => g.case_mgr(),
                1 => g.case_rep(),
                _ => g.case_run(i / 4 * 2 + (i % 4 == 3) as u32),
            }
            i += 1;
        }
        g.ops
    }

    fn exec(&mut self, op: &Value, out: &mut Out) -> Value {
        if op["op"].as_str() == Some("boot") {
            if let Some(c) = self.case.as_mut() {
                c.ops.clear();
            }
        }
        if let Some(c) = self.case.as_mut() {
            if op["op"].as_str() != Some("boot") {
                c.ops.push(op.clone());
            }
        }
        let r = self.exec_inner(op, out);
        if op["op"].as_str() == Some("boot") {
            if let Some(c) = self.case.as_mut() {
                c.ops.push(op.clone());
            }
        }
        r
    }
}

fn main() {
    let args: Vec<String> = std::env::args().collect();
    let opts = Opts::parse(&args[1..]);
    vharness::main_for(&mut Cepoch::new(opts.seed));
}
