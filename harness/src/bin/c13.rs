//! C13: the encrypted noise stream (`noise::Stream`, through the `verif::noise::NoiseStream` hook) driven poll by
//! poll over a scripted in-memory transport.
//!
//! One case = one session (`init` performs a real client/server noise handshake between two streams). Direction
//! `d` (0: client -> server, 1: server -> client) has a writer (endpoint `d`), a reader (endpoint `1-d`) and the
//! bytes in flight between them, which the harness owns and may tamper with. Every op is one `poll_*` call with a
//! script of what the underlying transport answers during that call:
//!   write scripts  `tw`: k>=1 accept up to k bytes | 0 accept nothing (-> WriteZero) | "P" Pending | "E" error
//!   read scripts   `tr`: k>=1 deliver up to k bytes (nothing in flight -> 0 bytes = EOF) | 0 EOF | "P" | "E"
//!   an exhausted script answers Pending.
//! Observations: result of the call, every transport call (size offered, outcome), frame headers put on the wire,
//! plaintext returned as (offset into the known plaintext, length).
use std::{
    cell::RefCell,
    collections::VecDeque,
    future::Future,
    pin::Pin,
    rc::Rc,
    task::{Context, Poll, Waker},
};

use rand::{rngs::StdRng, seq::SliceRandom, Rng};
use serde_json::{json, Value};
use vharness::{catch, Opts, Out, Prop};
use zksync_concurrency::{
    ctx,
    io::{self, AsyncRead, AsyncWrite},
};
use zksync_consensus_network::verif::noise::NoiseStream;

const MAX_FRAME_LEN: usize = 65537;
const MAX_PAYLOAD_LEN: usize = 65519;
const TAG: usize = 16;

// ---------------------------------------------------------------------------------------------------------------
// scripted transport
// ---------------------------------------------------------------------------------------------------------------

#[derive(Clone, Copy, Debug, PartialEq)]
enum Ev {
    N(usize),
    P,
    E,
}

#[derive(Clone, Copy, Debug, PartialEq)]
enum Tag {
    /// byte `idx` of frame `k` as produced by the writer
    Frame { k: usize, idx: usize },
    Junk,
}

#[derive(Default)]
struct DirNet {
    /// bytes in flight (accepted from the writer, not yet pulled by the reader) and their provenance
    wire: Vec<u8>,
    tags: Vec<Tag>,
    /// link cut by a `trunc` tamper: later writes are accepted and dropped
    cut: bool,
    sent_total: usize,
    pulled_total: usize,
    // scanner over the writer's output: frame number, offset in the frame, low length byte, frame length
    scan_k: usize,
    scan_idx: usize,
    scan_lo: u8,
    scan_flen: usize,
    cur: Vec<u8>,
    /// complete frames exactly as written
    hist: Vec<Vec<u8>>,
    /// sum of (length field - 16) over complete frames
    hist_payload: usize,
    hdrs_op: Vec<usize>,
    max_offered: usize,
    short_frame: bool,
    // scripts of the current op
    wscript: VecDeque<Ev>,
    wtrace: Vec<(usize, i64)>,
    rscript: VecDeque<Ev>,
    rtrace: Vec<(usize, i64)>,
    fl: Option<Ev>,
    fl_called: bool,
}

impl DirNet {
    fn scan(&mut self, bytes: &[u8]) -> Vec<Tag> {
        let mut tags = Vec::with_capacity(bytes.len());
        for &b in bytes {
            tags.push(Tag::Frame { k: self.scan_k, idx: self.scan_idx });
            self.cur.push(b);
            if self.scan_idx == 0 {
                self.scan_lo = b;
            } else if self.scan_idx == 1 {
                let n = self.scan_lo as usize + 256 * (b as usize);
                self.scan_flen = 2 + n;
                self.hdrs_op.push(n);
                if n < TAG + 1 {
                    self.short_frame = true;
                }
            }
            self.scan_idx += 1;
            if self.scan_idx >= 2 && self.scan_idx == self.scan_flen {
                let f = std::mem::take(&mut self.cur);
                self.hist_payload += f.len().saturating_sub(2 + TAG);
                self.hist.push(f);
                self.scan_k += 1;
                self.scan_idx = 0;
            }
        }
        tags
    }

    /// complete frames fully in flight: (start, len, frame number)
    fn complete_frames(&self) -> Vec<(usize, usize, usize)> {
        let mut res = vec![];
        let l = self.wire.len();
        let mut p = 0;
        while p < l {
            if let Tag::Frame { k, idx: 0 } = self.tags[p] {
                if k < self.hist.len() {
                    let flen = self.hist[k].len();
                    if p + flen <= l && self.tags[p + flen - 1] == (Tag::Frame { k, idx: flen - 1 }) {
                        res.push((p, flen, k));
                        p += flen;
                        continue;
                    }
                }
            }
            p += 1;
        }
        res
    }

    fn body_pos_from(&self, p0: usize) -> Option<usize> {
        (p0..self.wire.len()).find(|&p| matches!(self.tags[p], Tag::Frame { idx, .. } if idx >= 2))
    }

    fn splice(&mut self, pos: usize, del: usize, ins: &[u8]) {
        self.wire.splice(pos..pos + del, ins.iter().copied());
        self.tags.splice(pos..pos + del, ins.iter().map(|_| Tag::Junk));
    }

    /// like `splice`, for inserted copies of authentic bytes: they keep their provenance
    fn splice_tagged(&mut self, pos: usize, ins: &[u8], tags: &[Tag]) {
        self.wire.splice(pos..pos, ins.iter().copied());
        self.tags.splice(pos..pos, tags.iter().copied());
    }

    /// The model treats a ciphertext byte as different from every byte that is not that very ciphertext byte. On the
    /// real wire a made-up or displaced byte equals the byte it replaces with probability 1/256, and if it is the
    /// only byte of its frame that changed, the tampering is void. To keep runs deterministic (the ciphertext differs
    /// from run to run), the first byte after `pos` that the model considers changed and that sits in a frame body is
    /// forced to really differ. (Nothing behind it is ever interpreted: the reader fails at that frame for good.)
    fn decoincide(&mut self, pos: usize, old_wire: &[u8], old_tags: &[Tag]) -> bool {
        for i in pos..self.wire.len().min(old_wire.len()) {
            if self.tags[i] == old_tags[i] && old_tags[i] != Tag::Junk {
                continue;
            }
            match old_tags[i] {
                Tag::Frame { idx, .. } if idx >= 2 => {
                    if self.wire[i] == old_wire[i] {
                        self.wire[i] ^= 1;
                        return true;
                    }
                    return false;
                }
                Tag::Frame { .. } => {
                    if self.wire[i] == old_wire[i] {
                        continue;
                    }
                    return false;
                }
                Tag::Junk => return false,
            }
        }
        false
    }
}

struct Net {
    handshake: bool,
    dirs: [DirNet; 2],
}

#[derive(Clone)]
struct End {
    net: Rc<RefCell<Net>>,
    me: usize,
}

fn io_err() -> io::Error {
    io::Error::new(io::ErrorKind::BrokenPipe, "scripted transport error")
}

impl AsyncRead for End {
    fn poll_read(self: Pin<&mut Self>, _cx: &mut Context<'_>, buf: &mut io::ReadBuf<'_>) -> Poll<io::Result<()>> {
        let mut net = self.net.borrow_mut();
        let hs = net.handshake;
        let d = &mut net.dirs[1 - self.me];
        let cap = buf.remaining();
        if hs {
            if d.wire.is_empty() {
                return Poll::Pending;
            }
            let n = cap.min(d.wire.len());
            buf.put_slice(&d.wire[..n]);
            d.wire.drain(..n);
            d.tags.drain(..n);
            return Poll::Ready(Ok(()));
        }
        match d.rscript.pop_front() {
            None | Some(Ev::P) => {
                d.rtrace.push((cap, -1));
                Poll::Pending
            }
            Some(Ev::E) => {
                d.rtrace.push((cap, -2));
                Poll::Ready(Err(io_err()))
            }
            Some(Ev::N(k)) => {
                let n = k.min(cap).min(d.wire.len());
                d.rtrace.push((cap, n as i64));
                buf.put_slice(&d.wire[..n]);
                d.wire.drain(..n);
                d.tags.drain(..n);
                d.pulled_total += n;
                Poll::Ready(Ok(()))
            }
        }
    }
}

impl AsyncWrite for End {
    fn poll_write(self: Pin<&mut Self>, _cx: &mut Context<'_>, buf: &[u8]) -> Poll<io::Result<usize>> {
        let mut net = self.net.borrow_mut();
        let hs = net.handshake;
        let d = &mut net.dirs[self.me];
        if hs {
            d.wire.extend_from_slice(buf);
            d.tags.extend(buf.iter().map(|_| Tag::Junk));
            return Poll::Ready(Ok(buf.len()));
        }
        d.max_offered = d.max_offered.max(buf.len());
        match d.wscript.pop_front() {
            None | Some(Ev::P) => {
                d.wtrace.push((buf.len(), -1));
                Poll::Pending
            }
            Some(Ev::E) => {
                d.wtrace.push((buf.len(), -2));
                Poll::Ready(Err(io_err()))
            }
            Some(Ev::N(k)) => {
                let n = k.min(buf.len());
                d.wtrace.push((buf.len(), n as i64));
                let tags = d.scan(&buf[..n]);
                d.sent_total += n;
                if !d.cut {
                    d.wire.extend_from_slice(&buf[..n]);
                    d.tags.extend(tags);
                }
                Poll::Ready(Ok(n))
            }
        }
    }

    fn poll_flush(self: Pin<&mut Self>, _cx: &mut Context<'_>) -> Poll<io::Result<()>> {
        let mut net = self.net.borrow_mut();
        if net.handshake {
            return Poll::Ready(Ok(()));
        }
        let d = &mut net.dirs[self.me];
        d.fl_called = true;
        match d.fl {
            Some(Ev::P) => Poll::Pending,
            Some(Ev::E) => Poll::Ready(Err(io_err())),
            _ => Poll::Ready(Ok(())),
        }
    }

    fn poll_shutdown(self: Pin<&mut Self>, cx: &mut Context<'_>) -> Poll<io::Result<()>> {
        self.poll_flush(cx)
    }
}

// ---------------------------------------------------------------------------------------------------------------
// session
// ---------------------------------------------------------------------------------------------------------------

struct Session {
    ends: [NoiseStream<End>; 2],
    net: Rc<RefCell<Net>>,
    accepted: [usize; 2],
    delivered: [usize; 2],
}

/// plaintext byte at offset `i` of direction `d` (splitmix64 of the offset: position-sensitive, so a duplicated,
/// dropped or reordered byte range shows up as a mismatch)
fn pt(d: usize, i: usize) -> u8 {
    let mut z = (i as u64).wrapping_add((d as u64) << 56).wrapping_add(0x9E3779B97F4A7C15);
    z = (z ^ (z >> 30)).wrapping_mul(0xBF58476D1CE4E5B9);
    z = (z ^ (z >> 27)).wrapping_mul(0x94D049BB133111EB);
    (z ^ (z >> 31)) as u8
}

fn new_session() -> Result<(Session, bool), String> {
    let net = Rc::new(RefCell::new(Net { handshake: true, dirs: [DirNet::default(), DirNet::default()] }));
    let ctx = ctx::test_root(&ctx::RealClock);
    let e0 = End { net: net.clone(), me: 0 };
    let e1 = End { net: net.clone(), me: 1 };
    let mut fc = Box::pin(NoiseStream::client_handshake(&ctx, e0));
    let mut fs = Box::pin(NoiseStream::server_handshake(&ctx, e1));
    let mut cx = Context::from_waker(Waker::noop());
    let (mut rc, mut rs) = (None, None);
    for _ in 0..10_000 {
        if rc.is_none() {
            if let Poll::Ready(r) = fc.as_mut().poll(&mut cx) {
                rc = Some(r);
            }
        }
        if rs.is_none() {
            if let Poll::Ready(r) = fs.as_mut().poll(&mut cx) {
                rs = Some(r);
            }
        }
        if rc.is_some() && rs.is_some() {
            break;
        }
    }
    let c = rc.ok_or("client handshake did not finish")?.map_err(|e| format!("client handshake: {e:?}"))?;
    let s = rs.ok_or("server handshake did not finish")?.map_err(|e| format!("server handshake: {e:?}"))?;
    let same = c.id() == s.id();
    {
        let mut n = net.borrow_mut();
        if !n.dirs[0].wire.is_empty() || !n.dirs[1].wire.is_empty() {
            return Err("handshake left bytes in flight".into());
        }
        n.handshake = false;
    }
    Ok((Session { ends: [c, s], net, accepted: [0, 0], delivered: [0, 0] }, same))
}

/// The responder speaks first: the initiator's handshake future is polled once (its message is on the wire), the
/// responder's handshake runs to completion and the responder immediately writes and flushes `sizes` bytes in frames;
/// only then the initiator's handshake is polled to completion and it reads until nothing is left. Returns
/// (bytes written by the responder, bytes read by the initiator, all bytes as written, terminal reader state).
fn early_session(sizes: &[usize]) -> Result<(usize, usize, bool, String), String> {
    let net = Rc::new(RefCell::new(Net { handshake: true, dirs: [DirNet::default(), DirNet::default()] }));
    let ctx = ctx::test_root(&ctx::RealClock);
    let e0 = End { net: net.clone(), me: 0 };
    let e1 = End { net: net.clone(), me: 1 };
    let mut fc = Box::pin(NoiseStream::client_handshake(&ctx, e0));
    let mut fs = Box::pin(NoiseStream::server_handshake(&ctx, e1));
    let mut cx = Context::from_waker(Waker::noop());
    if fc.as_mut().poll(&mut cx).is_ready() {
        return Err("client handshake finished without the server".into());
    }
    let mut srv = None;
    for _ in 0..1000 {
        if let Poll::Ready(r) = fs.as_mut().poll(&mut cx) {
            srv = Some(r.map_err(|e| format!("server handshake: {e:?}"))?);
            break;
        }
    }
    let mut srv = srv.ok_or("server handshake did not finish")?;
    // the responder is in transport mode: it writes at once (the transport takes everything)
    let mut written = 0usize;
    for &sz in sizes {
        let data: Vec<u8> = (0..sz).map(|i| pt(1, written + i)).collect();
        let mut off = 0;
        let mut guard = 0;
        while off < data.len() && guard < 10_000 {
            guard += 1;
            match Pin::new(&mut srv).poll_write(&mut cx, &data[off..]) {
                Poll::Ready(Ok(n)) => off += n,
                Poll::Ready(Err(e)) => return Err(format!("early write: {e:?}")),
                Poll::Pending => {}
            }
        }
        written += off;
        for _ in 0..1000 {
            if Pin::new(&mut srv).poll_flush(&mut cx).is_ready() {
                break;
            }
        }
    }
    let mut cli = None;
    for _ in 0..1000 {
        if let Poll::Ready(r) = fc.as_mut().poll(&mut cx) {
            cli = Some(r.map_err(|e| format!("client handshake: {e:?}"))?);
            break;
        }
    }
    let mut cli = cli.ok_or("client handshake did not finish")?;
    // keep the handshake-mode transport (it hands over whatever is on the wire); read until nothing is left
    let mut got = 0usize;
    let mut same = true;
    let mut state = "pending".to_string();
    for _ in 0..10_000 {
        let mut store = vec![0u8; 100_000];
        let mut rb = io::ReadBuf::new(&mut store);
        match Pin::new(&mut cli).poll_read(&mut cx, &mut rb) {
            Poll::Ready(Ok(())) => {
                if rb.filled().is_empty() {
                    state = "eof".into();
                    break;
                }
                for (i, b) in rb.filled().iter().enumerate() {
                    same &= *b == pt(1, got + i);
                }
                got += rb.filled().len();
            }
            Poll::Ready(Err(e)) => {
                state = format!("err:{:?}", e.kind());
                break;
            }
            Poll::Pending => {
                state = "pending".into();
                break;
            }
        }
    }
    drop(srv);
    Ok((written, got, same, state))
}

fn parse_script(v: &Value) -> VecDeque<Ev> {
    v.as_array()
        .map(|a| {
            a.iter()
                .map(|x| match x {
                    Value::String(s) if s == "P" => Ev::P,
                    Value::String(_) => Ev::E,
                    x => Ev::N(x.as_u64().unwrap_or(0) as usize),
                })
                .collect()
        })
        .unwrap_or_default()
}

fn parse_fl(v: &Value) -> Option<Ev> {
    match v.as_str() {
        Some("P") => Some(Ev::P),
        Some("E") => Some(Ev::E),
        _ => None,
    }
}

fn err_kind(e: &io::Error) -> &'static str {
    match e.kind() {
        io::ErrorKind::WriteZero => "write_zero",
        io::ErrorKind::InvalidData => "invalid_data",
        io::ErrorKind::BrokenPipe => "transport",
        _ => "other",
    }
}

fn trace_json(t: &[(usize, i64)]) -> Value {
    Value::Array(t.iter().map(|(a, b)| json!([a, b])).collect())
}

pub struct C13 {
    sess: Option<Session>,
    cases: u64,
}

impl C13 {
    fn write_like(&mut self, op: &Value, out: &mut Out, kind: &str) -> Value {
        let Some(sess) = self.sess.as_mut() else { return json!({"bad_op": true}) };
        let d = op["dir"].as_u64().unwrap_or(0) as usize & 1;
        {
            let mut net = sess.net.borrow_mut();
            let dn = &mut net.dirs[d];
            dn.wscript = parse_script(&op["tw"]);
            dn.wtrace.clear();
            dn.hdrs_op.clear();
            dn.fl = parse_fl(&op["fl"]);
            dn.fl_called = false;
        }
        let mut cx = Context::from_waker(Waker::noop());
        let acc0 = sess.accepted[d];
        let len = op["len"].as_u64().unwrap_or(0) as usize;
        let stream = &mut sess.ends[d];
        let res: Result<Poll<io::Result<usize>>, String> = match kind {
            "write" => {
                let buf: Vec<u8> = (0..len).map(|i| pt(d, acc0 + i)).collect();
                catch(|| Pin::new(stream).poll_write(&mut cx, &buf))
            }
            "flush" => catch(|| Pin::new(stream).poll_flush(&mut cx).map(|r| r.map(|()| 0))),
            _ => catch(|| Pin::new(stream).poll_shutdown(&mut cx).map(|r| r.map(|()| 0))),
        };
        let mut net = sess.net.borrow_mut();
        let dn = &mut net.dirs[d];
        let mut obs = match res {
            Err(site) => {
                out.oracle_fail(&site, &format!("poll_{kind} panicked"), op.clone());
                return json!({"panic": site});
            }
            Ok(Poll::Pending) => json!({"r": "pending"}),
            Ok(Poll::Ready(Err(e))) => json!({"r": "err", "kind": err_kind(&e)}),
            Ok(Poll::Ready(Ok(n))) => {
                if kind == "write" {
                    if (len > 0 && n == 0) || n > len {
                        out.oracle_fail("c13.write.count", "poll_write accepted 0 of a non-empty buffer, or more than offered",
                            json!({"op": op, "n": n}));
                    }
                    sess.accepted[d] += n;
                    json!({"r": "ok", "n": n})
                } else {
                    // everything accepted so far must be on the wire as whole frames
                    if dn.scan_idx != 0 || dn.hist_payload != sess.accepted[d] {
                        out.oracle_fail("c13.flush.incomplete", "flush returned Ok but accepted plaintext is not on the wire as complete frames",
                            json!({"op": op, "accepted": sess.accepted[d], "on_wire": dn.hist_payload, "partial_frame_bytes": dn.scan_idx}));
                    }
                    json!({"r": "ok"})
                }
            }
        };
        if dn.max_offered > MAX_FRAME_LEN {
            out.oracle_fail("c13.frame.oversize", "a transport write offered more than MAX_FRAME_LEN bytes", json!({"op": op, "offered": dn.max_offered}));
        }
        if dn.short_frame {
            dn.short_frame = false;
            out.oracle_fail("c13.frame.short", "a frame with an empty payload or shorter than the tag was written", op.clone());
        }
        for &h in &dn.hdrs_op {
            if h > MAX_PAYLOAD_LEN + TAG {
                out.oracle_fail("c13.frame.oversize", "length field exceeds the noise message limit", json!({"op": op, "len": h}));
            }
        }
        let o = obs.as_object_mut().unwrap();
        o.insert("tw".into(), trace_json(&dn.wtrace));
        o.insert("hdrs".into(), json!(dn.hdrs_op));
        o.insert("sent".into(), json!(dn.sent_total));
        if kind != "write" {
            o.insert("inner".into(), json!(dn.fl_called));
        }
        let class = format!("{kind}:{}", obs["r"].as_str().unwrap_or("?"));
        out.count(&class);
        obs.as_object_mut().unwrap().insert("class".into(), json!(class));
        obs
    }

    fn read(&mut self, op: &Value, out: &mut Out) -> Value {
        let Some(sess) = self.sess.as_mut() else { return json!({"bad_op": true}) };
        let d = op["dir"].as_u64().unwrap_or(0) as usize & 1;
        {
            let mut net = sess.net.borrow_mut();
            let dn = &mut net.dirs[d];
            dn.rscript = parse_script(&op["tr"]);
            dn.rtrace.clear();
        }
        let cap = op["cap"].as_u64().unwrap_or(0) as usize;
        // `pre`: the caller's ReadBuf already holds `pre` bytes of earlier data (what `read_exact` / `read_to_end` do: one
        // ReadBuf across several polls); the stream must append after them and leave them alone
        let pre = op["pre"].as_u64().unwrap_or(0) as usize;
        let marker: Vec<u8> = (0..pre).map(|i| 0xA5 ^ (i as u8)).collect();
        let mut store = vec![0u8; pre + cap];
        let mut rb = io::ReadBuf::new(&mut store);
        rb.put_slice(&marker);
        if pre > 0 {
            out.count("read:prefilled_buffer");
        }
        let mut cx = Context::from_waker(Waker::noop());
        let stream = &mut sess.ends[1 - d];
        let res = catch(|| Pin::new(stream).poll_read(&mut cx, &mut rb));
        let net = sess.net.borrow();
        let dn = &net.dirs[d];
        let mut obs = match res {
            Err(site) => {
                out.oracle_fail(&site, "poll_read panicked", op.clone());
                return json!({"panic": site});
            }
            Ok(Poll::Pending) => json!({"r": "pending"}),
            Ok(Poll::Ready(Err(e))) => json!({"r": "err", "kind": err_kind(&e)}),
            Ok(Poll::Ready(Ok(()))) => {
                if rb.filled().len() < pre || rb.filled()[..pre] != marker[..] {
                    out.oracle_fail("c13.read.caller_buffer_clobbered", "poll_read shrank or overwrote the part of the caller's buffer that was already filled (a read_exact / read_to_end caller loses or corrupts earlier plaintext)",
                        json!({"op": op, "filled_before": pre, "filled_after": rb.filled().len()}));
                }
                let got = rb.filled().get(pre..).map(|x| x.to_vec()).unwrap_or_default();
                if got.is_empty() {
                    json!({"r": "eof"})
                } else {
                    let off = sess.delivered[d];
                    let ok = got.iter().enumerate().all(|(i, &b)| b == pt(d, off + i));
                    if !ok {
                        out.oracle_fail("c13.read.altered", "poll_read returned bytes that are not the next bytes of the written plaintext (altered, duplicated or reordered)",
                            json!({"op": op, "delivered_before": off, "n": got.len()}));
                    }
                    if off + got.len() > sess.accepted[d] {
                        out.oracle_fail("c13.read.beyond_written", "poll_read returned more plaintext than was ever accepted by poll_write",
                            json!({"op": op, "delivered_before": off, "n": got.len(), "accepted": sess.accepted[d]}));
                    }
                    sess.delivered[d] += got.len();
                    json!({"r": "data", "off": if ok { off as i64 } else { -1 }, "n": got.len()})
                }
            }
        };
        obs.as_object_mut().unwrap().insert("tr".into(), trace_json(&dn.rtrace));
        let class = format!("read:{}", obs["r"].as_str().unwrap_or("?"));
        out.count(&class);
        obs.as_object_mut().unwrap().insert("class".into(), json!(class));
        obs
    }

    fn tamper(&mut self, op: &Value, out: &mut Out) -> Value {
        let Some(sess) = self.sess.as_mut() else { return json!({"bad_op": true}) };
        let d = op["dir"].as_u64().unwrap_or(0) as usize & 1;
        let mut net = sess.net.borrow_mut();
        let dn = &mut net.dirs[d];
        let l = dn.wire.len();
        let g = |k: &str| op[k].as_u64().unwrap_or(0) as usize;
        let kind = op["kind"].as_str().unwrap_or("");
        let no = json!({"applied": false, "inflight": l});
        let (old_wire, old_tags) = (dn.wire.clone(), dn.tags.clone());
        let obs = match kind {
            "flip" => {
                if l == 0 {
                    no
                } else {
                    let pos = g("at") % l;
                    let hit = match dn.tags[pos] {
                        Tag::Frame { idx, .. } if idx < 2 => "len",
                        Tag::Frame { .. } => "body",
                        Tag::Junk => "junk",
                    };
                    dn.wire[pos] ^= (g("x") as u8).max(1);
                    dn.tags[pos] = Tag::Junk;
                    json!({"applied": true, "inflight": l, "pos": pos, "hit": hit})
                }
            }
            "trunc" => {
                let pos = g("at") % (l + 1);
                dn.wire.truncate(pos);
                dn.tags.truncate(pos);
                dn.cut = true;
                json!({"applied": true, "inflight": l, "pos": pos})
            }
            "splice" => {
                let pos = g("at") % (l + 1);
                let del = g("del").min(l - pos);
                let ins: Vec<u8> = op["bytes"].as_array().map(|a| a.iter().map(|x| x.as_u64().unwrap_or(0) as u8).collect()).unwrap_or_default();
                dn.splice(pos, del, &ins);
                json!({"applied": true, "inflight": l, "pos": pos, "del": del})
            }
            "dropf" => {
                let fr = dn.complete_frames();
                if fr.is_empty() {
                    no
                } else {
                    let f = g("f") % fr.len();
                    let c = g("c").clamp(1, fr.len() - f);
                    let start = fr[f].0;
                    let end = fr[f + c - 1].0 + fr[f + c - 1].1;
                    dn.splice(start, end - start, &[]);
                    json!({"applied": true, "inflight": l, "pos": start, "del": end - start, "k": fr[f].2})
                }
            }
            "replayf" => {
                let mut b: Vec<usize> = (0..l).filter(|&p| matches!(dn.tags[p], Tag::Frame { idx: 0, .. })).collect();
                if dn.scan_idx == 0 && !dn.cut {
                    b.push(l);
                }
                if dn.hist.is_empty() || b.is_empty() {
                    no
                } else {
                    let k = g("k") % dn.hist.len();
                    let pos = b[g("g") % b.len()];
                    let f = dn.hist[k].clone();
                    let ft: Vec<Tag> = (0..f.len()).map(|idx| Tag::Frame { k, idx }).collect();
                    dn.splice_tagged(pos, &f, &ft);
                    json!({"applied": true, "inflight": l, "pos": pos, "k": k, "len": f.len()})
                }
            }
            "swapf" => {
                let fr = dn.complete_frames();
                if fr.len() < 2 {
                    no
                } else {
                    let f = g("f") % (fr.len() - 1);
                    let (a, b) = (fr[f], fr[f + 1]);
                    if a.0 + a.1 != b.0 {
                        no
                    } else {
                        let fa: Vec<u8> = dn.wire[a.0..a.0 + a.1].to_vec();
                        let fb: Vec<u8> = dn.wire[b.0..b.0 + b.1].to_vec();
                        let ta: Vec<Tag> = dn.tags[a.0..a.0 + a.1].to_vec();
                        let tb: Vec<Tag> = dn.tags[b.0..b.0 + b.1].to_vec();
                        let mut nb = fb;
                        nb.extend(fa);
                        let mut nt = tb;
                        nt.extend(ta);
                        dn.wire.splice(a.0..b.0 + b.1, nb);
                        dn.tags.splice(a.0..b.0 + b.1, nt);
                        json!({"applied": true, "inflight": l, "pos": a.0, "k": a.2})
                    }
                }
            }
            "dropr" => match (l > 0).then(|| dn.body_pos_from(g("at") % l.max(1))).flatten() {
                None => no,
                Some(pos) => {
                    let del = g("len").clamp(1, l - pos);
                    dn.splice(pos, del, &[]);
                    json!({"applied": true, "inflight": l, "pos": pos, "del": del})
                }
            },
            "dupr" => match (l > 0).then(|| dn.body_pos_from(g("at") % l.max(1))).flatten() {
                None => no,
                // a copy inserted in front of itself can leave the frame intact and displaced bytes behind it
                Some(pos) if g("from") % l == pos => no,
                Some(pos) => {
                    let a = g("from") % l;
                    let n = g("len").clamp(1, l - a);
                    let seg: Vec<u8> = dn.wire[a..a + n].to_vec();
                    let segt: Vec<Tag> = dn.tags[a..a + n].to_vec();
                    dn.splice_tagged(pos, &seg, &segt);
                    json!({"applied": true, "inflight": l, "pos": pos, "from": a, "len": n})
                }
            },
            _ => json!({"bad_op": true}),
        };
        let class = format!("tamper:{kind}:{}", obs["applied"].as_bool().unwrap_or(false));
        out.count(&class);
        let mut obs = obs;
        if let Some(o) = obs.as_object_mut() {
            o.insert("class".into(), json!(class));
        }
        if let Some(pos) = obs["pos"].as_u64() {
            if kind != "trunc" && dn.decoincide(pos as usize, &old_wire, &old_tags) {
                out.count("tamper:decoincided");
            }
        }
        if let Some(o) = obs.as_object_mut() {
            o.insert("after".into(), json!(dn.wire.len()));
        }
        obs
    }

    fn check(&mut self, op: &Value, out: &mut Out) -> Value {
        let Some(sess) = self.sess.as_mut() else { return json!({"bad_op": true}) };
        let d = op["dir"].as_u64().unwrap_or(0) as usize & 1;
        let net = sess.net.borrow();
        let dn = &net.dirs[d];
        if op["expect_all"].as_bool().unwrap_or(false) && sess.delivered[d] != sess.accepted[d] {
            out.oracle_fail("c13.delivery.incomplete", "untampered session, flushed and drained: delivered plaintext differs from accepted plaintext",
                json!({"dir": d, "accepted": sess.accepted[d], "delivered": sess.delivered[d]}));
        }
        out.count("check");
        json!({"accepted": sess.accepted[d], "delivered": sess.delivered[d], "sent": dn.sent_total, "pulled": dn.pulled_total,
               "inflight": dn.wire.len(), "frames": dn.hist.len()})
    }
}

// ---------------------------------------------------------------------------------------------------------------
// generator
// ---------------------------------------------------------------------------------------------------------------

struct Gen {
    rng: StdRng,
    ops: Vec<Value>,
    /// upper bound on the number of frames written per direction in the current case
    frames: [usize; 2],
    bytes: usize,
}

const BIG: u64 = 1_000_000;

impl Gen {
    fn init(&mut self) {
        self.ops.push(json!({"op": "init", "reset": true}));
        self.frames = [0, 0];
        self.bytes = 0;
    }
    fn size(&mut self) -> u64 {
        let r = self.rng.gen_range(0..100);
        if self.bytes > 150_000 {
            return self.rng.gen_range(1..=40);
        }
        let s = match r {
            0..=9 => *[1u64, 2].choose(&mut self.rng).unwrap(),
            10..=59 => self.rng.gen_range(1..=40),
            60..=84 => self.rng.gen_range(41..=2000),
            85..=89 => self.rng.gen_range(2001..=65518),
            90..=92 => 0,
            _ => *[65518u64, 65519, 65520, 65535, 65537, 70000].choose(&mut self.rng).unwrap(),
        };
        self.bytes += s as usize;
        s
    }
    /// a transport write script: accepts with sprinkled Pending, ending open (Pending) or generously
    fn wscript(&mut self, generous: bool) -> Vec<Value> {
        let mut v = vec![];
        let n = self.rng.gen_range(0..4);
        for _ in 0..n {
            let k = match self.rng.gen_range(0..10) {
                0..=2 => self.rng.gen_range(1..=3),
                3..=4 => *[17u64, 18, 19, 20].choose(&mut self.rng).unwrap(),
                5..=6 => self.rng.gen_range(4..=300),
                7 => *[65535u64, 65536, 65537].choose(&mut self.rng).unwrap(),
                _ => BIG,
            };
            v.push(json!(k));
            if self.rng.gen_range(0..8) == 0 {
                v.push(json!("P"));
                return v;
            }
        }
        if generous {
            for _ in 0..4 {
                v.push(json!(BIG));
            }
        }
        v
    }
    fn rscript(&mut self) -> Vec<Value> {
        let mut v = vec![];
        let n = self.rng.gen_range(0..5);
        for _ in 0..n {
            let k = match self.rng.gen_range(0..10) {
                0..=3 => self.rng.gen_range(1..=3),
                4..=5 => self.rng.gen_range(4..=40),
                6 => self.rng.gen_range(41..=3000),
                7 => *[65535u64, 65536, 65537].choose(&mut self.rng).unwrap(),
                _ => BIG,
            };
            v.push(json!(k));
            if self.rng.gen_range(0..8) == 0 {
                v.push(json!("P"));
                return v;
            }
        }
        v
    }
    fn cap(&mut self) -> u64 {
        match self.rng.gen_range(0..12) {
            0 => 0,
            1..=3 => self.rng.gen_range(1..=3),
            4..=6 => self.rng.gen_range(4..=100),
            7 => 65519,
            8 => 65518,
            _ => 100_000,
        }
    }
    fn write(&mut self, d: usize, len: u64, tw: Vec<Value>) {
        self.frames[d] += 1;
        self.ops.push(json!({"op": "write", "dir": d, "len": len, "tw": tw}));
    }
    fn flush(&mut self, d: usize, tw: Vec<Value>, fl: &str) {
        self.frames[d] += 1;
        self.ops.push(json!({"op": "flush", "dir": d, "tw": tw, "fl": fl}));
    }
    fn shutdown(&mut self, d: usize, tw: Vec<Value>, fl: &str) {
        self.frames[d] += 1;
        self.ops.push(json!({"op": "shutdown", "dir": d, "tw": tw, "fl": fl}));
    }
    fn read(&mut self, d: usize, cap: u64, tr: Vec<Value>) {
        // a third of the reads come from a caller that keeps one ReadBuf across polls (earlier bytes already in it)
        if self.rng.gen_range(0..3) == 0 {
            let pre = *[1u64, 7, 1000, 70_000].choose(&mut self.rng).unwrap();
            self.ops.push(json!({"op": "read", "dir": d, "cap": cap, "pre": pre, "tr": tr}));
        } else {
            self.ops.push(json!({"op": "read", "dir": d, "cap": cap, "tr": tr}));
        }
    }
    /// write `len` bytes completely (repeating poll_write with a generous transport)
    fn write_all(&mut self, d: usize, len: u64) {
        let mut left = len;
        // poll_write accepts at most what the payload buffer holds; the generator does not track the buffer, so it
        // offers the whole rest repeatedly; at most 1 + len / MAX_PAYLOAD_LEN + 1 calls are needed — but how much each
        // call accepted is only known at run time, hence "len" here is the size *offered* per call.
        while left > 0 {
            let chunk = left.min(MAX_PAYLOAD_LEN as u64);
            self.write(d, chunk, vec![json!(BIG), json!(BIG)]);
            left -= chunk;
        }
    }
    /// flush everything and read until nothing is left, then compare totals
    fn drain(&mut self, d: usize, expect_all: bool) {
        self.flush(d, vec![json!(BIG), json!(BIG), json!(BIG)], "ok");
        for _ in 0..self.frames[d] + 1 {
            self.read(d, 100_000, vec![json!(BIG), json!(BIG), json!(BIG)]);
        }
        self.ops.push(json!({"op": "check", "dir": d, "expect_all": expect_all}));
    }

    // ---- families ----

    /// receive-buffer alignment: several complete frames whose wire sizes (payload + 2 + 16) add up to exactly 2^16 or
    /// to the reader's frame buffer size ± 1 arrive in one piece, with the beginning of the next frame right behind
    /// them; the reader takes them out in small or large pieces
    fn fam_alignment(&mut self) {
        self.init();
        let d = self.rng.gen_range(0..2);
        let m = *[2u64, 4, 8, 16].choose(&mut self.rng).unwrap();
        let delta: i64 = *[0i64, 0, 1, -1, 2].choose(&mut self.rng).unwrap();
        for i in 0..m {
            let mut p = (65536 / m) as i64 - 18;
            if i == m - 1 {
                p += delta;
            }
            self.write(d, p as u64, vec![json!(BIG), json!(BIG)]);
            self.flush(d, vec![json!(BIG), json!(BIG), json!(BIG)], "ok");
        }
        let tail = self.rng.gen_range(1..=200u64);
        self.write(d, tail, vec![json!(BIG), json!(BIG)]);
        self.flush(d, vec![json!(BIG), json!(BIG), json!(BIG)], "ok");
        let small = self.rng.gen_bool(0.5);
        for _ in 0..m + 3 {
            let cap = if small { 65536 / m } else { 100_000 };
            self.ops.push(json!({"op": "read", "dir": d, "cap": cap, "tr": [BIG, BIG, BIG]}));
        }
        self.drain(d, true);
    }

    /// half-close: one side shuts its write direction down ("request sent") while the peer's data for it is buffered,
    /// in flight or still to be written; everything the peer writes must still arrive
    fn fam_half_close(&mut self) {
        self.init();
        let d = self.rng.gen_range(0..2); // the direction that is shut down; the other one keeps flowing
        let o = 1 - d;
        let before = *[0u64, 1, 5000, 70_000, 140_000].choose(&mut self.rng).unwrap();
        if self.rng.gen_bool(0.7) {
            let req = self.size();
            self.write(d, req, vec![json!(BIG), json!(BIG)]);
        }
        if before > 0 {
            self.write_all(o, before);
            self.flush(o, vec![json!(BIG), json!(BIG), json!(BIG)], "ok");
            // sometimes part of it has been read already (plaintext left in the payload buffer, ciphertext in the frame buffer)
            if self.rng.gen_bool(0.6) {
                let cap = *[1u64, 4, 4999, 65519].choose(&mut self.rng).unwrap();
                self.ops.push(json!({"op": "read", "dir": o, "cap": cap, "tr": [BIG, BIG, BIG]}));
            }
        }
        self.shutdown(d, vec![json!(BIG), json!(BIG), json!(BIG)], "ok");
        if self.rng.gen_bool(0.6) {
            let after = *[1u64, 300, 66_000].choose(&mut self.rng).unwrap();
            self.write_all(o, after);
        }
        self.drain(o, true);
        self.drain(d, true);
    }

    /// benign random traffic in both directions
    fn fam_random(&mut self) {
        self.init();
        let n = self.rng.gen_range(5..=14);
        for _ in 0..n {
            let d = self.rng.gen_range(0..2);
            match self.rng.gen_range(0..10) {
                0..=4 => {
                    let gen = self.rng.gen_bool(0.5);
                    let (len, tw) = (self.size(), self.wscript(gen));
                    self.write(d, len, tw)
                }
                5..=6 => {
                    let gen = self.rng.gen_bool(0.6);
                    let tw = self.wscript(gen);
                    let fl = *["ok", "ok", "ok", "P"].choose(&mut self.rng).unwrap();
                    self.flush(d, tw, fl)
                }
                _ => {
                    let (cap, tr) = (self.cap(), self.rscript());
                    self.read(d, cap, tr)
                }
            }
        }
        self.drain(0, true);
        self.drain(1, true);
    }

    /// frame reassembly: fragments cut around the length field and the frame boundaries
    fn fam_fragments(&mut self) {
        self.init();
        let d = self.rng.gen_range(0..2);
        let nframes = self.rng.gen_range(1..=3);
        let mut sizes = vec![];
        for _ in 0..nframes {
            let w = self.rng.gen_range(1..=60u64);
            sizes.push(w);
            self.write(d, w, vec![]);
            self.flush(d, vec![json!(BIG), json!(BIG)], "ok");
        }
        let f = 2 + sizes[0] + TAG as u64;
        let cuts: Vec<u64> = vec![1, 1, 2, 3, f - 3, f - 2, f - 1, f, f + 1, f + 2, f + 3, 2 * f, BIG];
        let nreads = self.rng.gen_range(3..=8);
        for _ in 0..nreads {
            let mut tr = vec![];
            for _ in 0..self.rng.gen_range(1..=3) {
                tr.push(json!(*cuts.choose(&mut self.rng).unwrap()));
            }
            if self.rng.gen_bool(0.5) {
                tr.push(json!("P"));
            }
            let w = sizes[0];
            let cap = *[1, 2, w.saturating_sub(1).max(1), w, w + 1, 100_000, 0].choose(&mut self.rng).unwrap();
            self.read(d, cap, tr);
        }
        self.drain(d, true);
    }

    /// the payload buffer fills up exactly while a maximal frame is still unsent: poll_write must push the old frame out
    /// completely (Pending / WriteZero / error / partial progress) before it seals the payload and accepts a byte
    fn fam_full_payload(&mut self) {
        self.init();
        let d = self.rng.gen_range(0..2);
        let m = MAX_PAYLOAD_LEN as u64;
        // payload full -> sealed into the maximal frame A (no transport call: nothing was pending) -> payload full again
        let first = *[m, m + 1, 70000].choose(&mut self.rng).unwrap();
        self.write(d, first, vec![]);
        self.write(d, 1, vec![json!("P")]);
        self.write(d, m, vec![]);
        match self.rng.gen_range(0..5) {
            0 => {
                self.write(d, 1, vec![json!("P")]); // A cannot go out: Pending, nothing accepted
                self.write(d, 1, vec![json!(1), json!(1), json!("P")]); // two bytes of A go out, still Pending
                self.write(d, 1, vec![json!(65534), json!("P")]); // one byte of A left
                self.write(d, 2, vec![json!(1)]); // A done, payload sealed into B, 2 bytes accepted
            }
            1 => {
                self.write(d, 1, vec![json!(0)]); // WriteZero
                self.write(d, 1, vec![json!(17), json!("E")]); // transport error after partial progress
                self.write(d, 1, vec![json!(65536), json!("P")]);
                self.write(d, 1, vec![json!(BIG)]);
            }
            2 => {
                self.flush(d, vec![json!(2), json!(65534), json!("P")], "ok"); // one byte of A left
                self.write(d, 1, vec![json!("P")]);
                self.flush(d, vec![json!(1), json!("P")], "ok"); // A done, B sealed and offered, Pending
                self.write(d, 5, vec![]); // room in the payload: no transport call
                self.flush(d, vec![json!(65537), json!("P")], "ok"); // B done, C sealed
            }
            3 => {
                self.write(d, 70000, vec![json!(BIG)]); // A out in one piece; accepts m
                self.write(d, 70000 - m, vec![json!(65536), json!(BIG)]); // B out in two pieces
                self.shutdown(d, vec![json!(1), json!(65536), json!("P")], "ok");
            }
            _ => {
                self.write(d, 1, vec![json!(65537)]); // exactly A
                self.write(d, m - 1, vec![]); // fills up again
                self.write(d, 1, vec![json!(65536), json!(1), json!("P")]); // B out, sealed C, accepted
                self.write(d, 1, vec![json!("E")]); // not full: no transport call
            }
        }
        // read with fragments around the maximal frame
        let tr: Vec<Value> = match self.rng.gen_range(0..4) {
            0 => vec![json!(1), json!(1), json!(65534), json!(1)],
            1 => vec![json!(65536), json!("P")],
            2 => vec![json!(BIG)],
            _ => vec![json!(65537), json!(2)],
        };
        let cap = *[1u64, 65518, 65519, 65520, 100_000].choose(&mut self.rng).unwrap();
        self.read(d, cap, tr);
        self.read(d, cap, vec![json!(BIG)]);
        self.drain(d, true);
    }

    /// a partially flushed frame must go out completely before the next payload is sealed
    fn fam_partial_flush(&mut self) {
        self.init();
        let d = self.rng.gen_range(0..2);
        let w = self.rng.gen_range(1..=50u64);
        let f = 2 + w + TAG as u64;
        self.write(d, w, vec![]);
        let k = *[1u64, 2, 3, f - 1, f / 2].choose(&mut self.rng).unwrap();
        self.flush(d, vec![json!(k), json!("P")], "ok");
        let w2 = self.rng.gen_range(1..=50u64);
        self.write(d, w2, vec![]);
        match self.rng.gen_range(0..4) {
            0 => self.flush(d, vec![json!("P")], "ok"),
            1 => self.flush(d, vec![json!(1), json!(1), json!("P")], "ok"),
            2 => self.flush(d, vec![json!(f - k), json!("P")], "ok"), // exactly the rest of the old frame
            _ => self.flush(d, vec![json!(f - k), json!(1), json!("P")], "ok"),
        }
        if self.rng.gen_bool(0.5) {
            let (cap, tr) = (self.cap(), self.rscript());
            self.read(d, cap, tr);
        }
        let w3 = self.rng.gen_range(1..=50u64);
        self.write(d, w3, vec![]);
        let fl = *["ok", "P", "E"].choose(&mut self.rng).unwrap();
        self.flush(d, vec![json!(BIG), json!(BIG), json!(BIG)], fl);
        if self.rng.gen_bool(0.3) {
            self.shutdown(d, vec![json!(BIG)], "ok");
        }
        self.drain(d, true);
    }

    /// transport errors, WriteZero, EOF in the middle of a frame: nothing is lost, the state stays usable
    fn fam_errors(&mut self) {
        self.init();
        let d = self.rng.gen_range(0..2);
        let w = self.rng.gen_range(1..=80u64);
        self.write(d, w, vec![]);
        let bad = [json!("E"), json!(0), json!("P")].choose(&mut self.rng).unwrap().clone();
        let k = self.rng.gen_range(1..=10u64);
        let tw = if self.rng.gen_bool(0.5) { vec![json!(k), bad.clone()] } else { vec![bad.clone()] };
        self.flush(d, tw, "ok");
        let fl = *["E", "P", "ok"].choose(&mut self.rng).unwrap();
        self.flush(d, vec![json!(BIG), json!(BIG)], fl);
        let k2 = self.rng.gen_range(1..=12u64);
        let rbad = [json!("E"), json!(0), json!("P")].choose(&mut self.rng).unwrap().clone();
        self.read(d, 100, vec![json!(k2), rbad.clone()]);
        self.read(d, 100, vec![rbad]);
        let w2 = self.size().min(3000);
        self.write(d, w2, vec![]);
        if self.rng.gen_bool(0.5) {
            let sd = *["ok", "E", "P"].choose(&mut self.rng).unwrap();
            self.shutdown(d, vec![json!(BIG), json!(BIG)], sd);
        }
        self.drain(d, true);
    }

    /// writes `nframes` small frames (optionally one large), lets the reader pull a prefix, tampers once, reads on
    fn fam_tamper(&mut self, tamper: Value, nframes: usize, pre_read: Option<Vec<Value>>, more_after: bool) {
        self.init();
        let d = tamper["dir"].as_u64().unwrap_or(0) as usize;
        for i in 0..nframes {
            let w = if i == 1 && self.rng.gen_range(0..12) == 0 { self.rng.gen_range(300..=3000u64) } else { self.rng.gen_range(1..=12u64) };
            self.write(d, w, vec![]);
            self.flush(d, vec![json!(BIG), json!(BIG)], "ok");
        }
        if self.rng.gen_bool(0.3) {
            // a frame partly on the wire at the time of tampering
            let w = self.rng.gen_range(1..=12u64);
            self.write(d, w, vec![]);
            let k = self.rng.gen_range(1..=(2 + w + 15));
            self.flush(d, vec![json!(k), json!("P")], "ok");
        }
        if let Some(tr) = pre_read {
            let cap = *[1u64, 3, 100].choose(&mut self.rng).unwrap();
            self.read(d, cap, tr);
        }
        self.ops.push(tamper);
        if more_after {
            let w = self.rng.gen_range(1..=12u64);
            self.write(d, w, vec![]);
            self.flush(d, vec![json!(BIG), json!(BIG), json!(BIG)], "ok");
        }
        for _ in 0..nframes + 3 {
            let tr = if self.rng.gen_bool(0.7) { vec![json!(BIG), json!(BIG), json!(BIG)] } else { self.rscript() };
            let cap = *[1u64, 5, 100_000, 100_000].choose(&mut self.rng).unwrap();
            self.read(d, cap, tr);
        }
        self.read(d, 100, vec![json!(BIG), json!(0)]);
        self.read(d, 100, vec![json!(0)]);
        self.ops.push(json!({"op": "check", "dir": d, "expect_all": false}));
    }

    fn random_tamper(&mut self) -> Value {
        let d = self.rng.gen_range(0..2);
        let pos: u64 = match self.rng.gen_range(0..8) {
            0 => 0,
            1 => 1,
            2 => 2,
            3 => 3,
            _ => self.rng.gen_range(0..200),
        };
        let hdrish: Vec<Vec<u64>> = vec![vec![17, 0], vec![16, 0], vec![0, 0], vec![255, 255], vec![1, 0, 9], vec![18, 0, 1, 2, 3], vec![3, 0, 1, 2, 3, 4, 5]];
        match self.rng.gen_range(0..10) {
            0 | 1 => json!({"op": "tamper", "dir": d, "kind": "flip", "at": pos, "x": self.rng.gen_range(1..=255)}),
            2 => json!({"op": "tamper", "dir": d, "kind": "trunc", "at": pos}),
            3 | 4 => {
                let bytes = hdrish.choose(&mut self.rng).unwrap().clone();
                let del = *[0u64, 0, 1, 2, bytes.len() as u64, 30].choose(&mut self.rng).unwrap();
                json!({"op": "tamper", "dir": d, "kind": "splice", "at": pos, "del": del, "bytes": bytes})
            }
            5 => json!({"op": "tamper", "dir": d, "kind": "dropf", "f": self.rng.gen_range(0..3), "c": self.rng.gen_range(1..3)}),
            6 => json!({"op": "tamper", "dir": d, "kind": "replayf", "k": self.rng.gen_range(0..4), "g": self.rng.gen_range(0..4)}),
            7 => json!({"op": "tamper", "dir": d, "kind": "swapf", "f": self.rng.gen_range(0..3)}),
            8 => json!({"op": "tamper", "dir": d, "kind": "dropr", "at": pos, "len": self.rng.gen_range(1..40)}),
            _ => json!({"op": "tamper", "dir": d, "kind": "dupr", "from": self.rng.gen_range(0..60), "len": self.rng.gen_range(1..40), "at": pos}),
        }
    }

    /// every byte position of a one- or two-frame stream: flip and truncate
    fn fam_every_position(&mut self, two: bool) {
        let w = 3u64;
        let f = 2 + w + TAG as u64;
        let total = if two { 2 * f } else { f };
        for at in 0..=total {
            for kind in ["flip", "trunc"] {
                if kind == "flip" && at == total {
                    continue;
                }
                self.init();
                self.write(0, w, vec![]);
                self.flush(0, vec![json!(BIG)], "ok");
                if two {
                    self.write(0, w, vec![]);
                    self.flush(0, vec![json!(BIG)], "ok");
                }
                self.ops.push(json!({"op": "tamper", "dir": 0, "kind": kind, "at": at, "x": 1 + (at % 255)}));
                for _ in 0..3 {
                    self.read(0, 100, vec![json!(BIG), json!(BIG)]);
                }
                self.read(0, 100, vec![json!(0)]);
                self.ops.push(json!({"op": "check", "dir": 0, "expect_all": false}));
            }
        }
    }
}

impl Prop for C13 {
    fn gen(&mut self, opts: &Opts) -> Vec<Value> {
        let mut g = Gen { rng: opts.rng(), ops: vec![], frames: [0, 0], bytes: 0 };
        g.fam_every_position(false);
        for _ in 0..6 {
            g.fam_alignment();
        }
        for _ in 0..10 {
            g.fam_half_close();
        }
        // the responder speaks first, right after its half of the handshake
        for sizes in [vec![5u64], vec![10, 100, 1000], vec![70_000], vec![10, 100, 1000, 5, 70_000, 1, 65_519, 300], vec![65_519, 65_519], vec![1; 40]] {
            g.ops.push(json!({"op": "early", "reset": true, "sizes": sizes}));
        }
        if opts.thorough {
            g.fam_every_position(true);
        }
        for i in 0..opts.n {
            match i % 20 {
                0..=5 => g.fam_random(),
                6..=8 => g.fam_fragments(),
                9 => g.fam_full_payload(),
                10..=11 => g.fam_partial_flush(),
                12 => g.fam_errors(),
                13 if i % 40 == 13 => g.fam_alignment(),
                14 if i % 40 == 14 => g.fam_half_close(),
                _ => {
                    let t = g.random_tamper();
                    let nframes = g.rng.gen_range(1..=3);
                    let pre = if g.rng.gen_bool(0.4) { Some(vec![json!(g.rng.gen_range(1..=25u64))]) } else { None };
                    let more = g.rng.gen_bool(0.3);
                    g.fam_tamper(t, nframes, pre, more)
                }
            }
        }
        // one long transfer in each direction
        g.init();
        g.write_all(0, 200_000);
        g.drain(0, true);
        g.init();
        g.write_all(1, 140_000);
        g.drain(1, true);
        g.ops
    }

    fn exec(&mut self, op: &Value, out: &mut Out) -> Value {
        match op["op"].as_str().unwrap_or("") {
            "init" => {
                self.cases += 1;
                self.sess = None;
                match catch(new_session) {
                    Ok(Ok((s, same))) => {
                        self.sess = Some(s);
                        if !same {
                            out.oracle_fail("c13.handshake.id", "client and server derive different session ids", op.clone());
                        }
                        out.count("init");
                        json!({"ok": true, "same_id": same})
                    }
                    Ok(Err(e)) => {
                        out.oracle_fail("c13.handshake", &e, op.clone());
                        json!({"ok": false, "_err": e})
                    }
                    Err(site) => {
                        out.oracle_fail(&site, "handshake panicked", op.clone());
                        json!({"panic": site})
                    }
                }
            }
            "write" => self.write_like(op, out, "write"),
            "flush" => self.write_like(op, out, "flush"),
            "shutdown" => self.write_like(op, out, "shutdown"),
            "read" => self.read(op, out),
            "early" => {
                let sizes: Vec<usize> = op["sizes"].as_array().map(|a| a.iter().map(|x| x.as_u64().unwrap_or(0) as usize).collect()).unwrap_or_default();
                self.sess = None;
                out.count("early_data_session");
                match catch(|| early_session(&sizes)) {
                    Ok(Ok((written, got, same, state))) => {
                        if got != written || !same || state.starts_with("err") {
                            out.oracle_fail("c13.early_data_lost", &format!("the responder wrote {written} bytes right after its handshake (all writes and flushes Ok); the initiator read {got} of them (content as written: {same}) and then saw {state}"), op.clone());
                        }
                        json!({"class": "early", "_written": written, "_read": got, "_state": state})
                    }
                    Ok(Err(e)) => {
                        out.oracle_fail("harness/early", &e, op.clone());
                        json!({"class": "early", "_err": e})
                    }
                    Err(site) => {
                        out.oracle_fail(&site, "panic in a session whose responder speaks first", op.clone());
                        json!({"panic": site})
                    }
                }
            }
            "tamper" => self.tamper(op, out),
            "check" => self.check(op, out),
            _ => json!({"bad_op": true}),
        }
    }

    fn extra_stats(&self) -> Value {
        json!({"cases": self.cases})
    }
}

fn main() {
    vharness::main_for(&mut C13 { sess: None, cases: 0 });
}
