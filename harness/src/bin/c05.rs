//! C05: view changes are justified, monotone and follow the specification (replica correspondence, handler product).
use vharness::replica::{Mode, ReplicaProp};

fn main() {
    vharness::main_for(&mut ReplicaProp::new(Mode::Handlers, "C05"));
}
