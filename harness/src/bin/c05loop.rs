//! C05, second correspondence run: the glue around the replica's handlers — the REAL `StateMachine::run` loop
//! (bft hook `verif::run_replica`) fed through the REAL input channel (`create_input_channel`), under a manual clock.
//!
//! Ops (one case = `init` … ):
//!   {"op":"init","reset":true,"weights":[..],"first":k,"wseed":s,"me":i,"max_payload":1000,"view_timeout":1000}
//!   {"op":"arrive","id":k,"from":i,"sig_ok":b,"msg":{"commit":AVote}|{"timeout":ATVote}|{"newview":AJust}|{"proposal":{..}}}
//!        a `Sender::send` into the input channel, with its own ack oneshot
//!   {"op":"advance","ms":d}      the manual clock moves
//!   {"op":"quiesce","env":{..}}  the replica task (spawned here if there is none) is polled until nothing moves any more
//!   {"op":"restart"}             the task is shut down, a fresh channel is made; the next quiesce starts a new task
//! Observations:
//!   arrive  -> {"closed":[ids whose ack channel closed],"pending":[unresolved ids]}
//!   advance -> {"now":t}
//!   quiesce -> {"trace":[persist / send / notify effects and {"ack":id}, in the order they happened],
//!               "queued":[block hand-overs],"closed":[..],"pending":[..]}
//!   restart -> {"closed":[..],"pending":[]}
//!
//! Order of acknowledgements relative to effects: every ack oneshot is polled once with a waker that — synchronously,
//! inside `req.ack.send(())` — first moves everything the replica has emitted so far into the log and then appends a
//! mark for its id. Persist / queue events are logged by the engine callbacks themselves (after the same drain).
//!
//! Scheduling-dependent corners that the generator stays out of (the model resolves them like a single-threaded
//! executor would, the real `select!` in `Ctx::wait` is unbiased):
//!   * a message pending in the channel while the view deadline has passed (`recv` may return either);
//!   * shutting the task down while anything is unresolved (`recv` on a cancelled context with a message pending; a
//!     handler waiting for the previous block is released by the cancellation and acknowledges).
//! So: the clock only moves right after a quiesce that left nothing in the channel, every `advance` is followed by a
//! `quiesce`, nothing arrives while a proposal waits for its previous block, and `restart` happens only with
//! everything resolved.
use std::{
    collections::BTreeMap,
    future::Future,
    pin::Pin,
    sync::{Arc, Mutex},
    task::{Context, Poll, Wake, Waker},
};

use rand::{rngs::StdRng, seq::SliceRandom, Rng};
use serde_json::{json, Value};
use vharness::{abs::*, certgen::*, replica::abs_just, sim::*, Opts, Out, Prop};
use zksync_concurrency::{ctx, scope, sync, time};
use zksync_consensus_bft as bft;
use zksync_consensus_engine::{BlockStoreState, EngineInterface, EngineManager, Transaction};
use zksync_consensus_network::io::{ConsensusInputMessage, ConsensusReq};
use zksync_consensus_roles::validator::{self, v2};

// ------------------------------------------------------------------------------------------------ ordered log

enum Item {
    Ev(Ev),
    /// the ack oneshot of request `id` was completed or closed
    Woken(u64),
}

#[derive(Default)]
struct Shared {
    log: Mutex<Vec<Item>>,
    outbound: Mutex<Option<ctx::channel::UnboundedReceiver<ConsensusInputMessage>>>,
    proposer: Mutex<Option<sync::watch::Receiver<Option<v2::ProposalJustification>>>>,
}

impl Shared {
    /// Moves what the replica emitted since the last call into the log. Outbound messages first: a proposer
    /// notification is always followed at once by `backup_state` (an engine callback, which calls this), so whatever sits
    /// in the outbound channel at that moment was sent before the notification.
    fn sync(&self) {
        let mut log = self.log.lock().unwrap();
        if let Some(r) = self.outbound.lock().unwrap().as_mut() {
            while let Some(m) = r.try_recv() {
                log.push(Item::Ev(Ev::Send(m.message)));
            }
        }
        if let Some(p) = self.proposer.lock().unwrap().as_mut() {
            if p.has_changed().unwrap_or(false) {
                if let Some(j) = p.borrow_and_update().clone() {
                    log.push(Item::Ev(Ev::Notify(j)));
                }
            }
        }
    }
    fn absorb(&self, inner: &SimEngine) {
        let evs: Vec<Ev> = std::mem::take(&mut *inner.0.log.lock().unwrap());
        self.log.lock().unwrap().extend(evs.into_iter().map(Item::Ev));
    }
}

/// The engine of sim.rs (in-memory store, immediate persistence, payload verdict by id) with its events merged into
/// one ordered log together with the outbound channel, the proposer watch and the ack marks.
#[derive(Debug, Clone)]
struct LoopEngine {
    inner: SimEngine,
    sh: Arc<Shared>,
}

impl std::fmt::Debug for Shared {
    fn fmt(&self, f: &mut std::fmt::Formatter<'_>) -> std::fmt::Result {
        f.write_str("Shared")
    }
}

#[async_trait::async_trait]
impl EngineInterface for LoopEngine {
    async fn genesis(&self, ctx: &ctx::Ctx) -> ctx::Result<validator::Genesis> {
        self.inner.genesis(ctx).await
    }
    async fn get_validator_schedule(
        &self,
        ctx: &ctx::Ctx,
        number: validator::BlockNumber,
    ) -> ctx::Result<(validator::Schedule, validator::BlockNumber)> {
        self.inner.get_validator_schedule(ctx, number).await
    }
    async fn get_pending_validator_schedule(
        &self,
        ctx: &ctx::Ctx,
        number: validator::BlockNumber,
    ) -> ctx::Result<Option<(validator::Schedule, validator::BlockNumber)>> {
        self.inner.get_pending_validator_schedule(ctx, number).await
    }
    fn persisted(&self) -> sync::watch::Receiver<BlockStoreState> {
        self.inner.persisted()
    }
    async fn get_block(&self, ctx: &ctx::Ctx, number: validator::BlockNumber) -> ctx::Result<validator::Block> {
        self.inner.get_block(ctx, number).await
    }
    async fn queue_next_block(&self, ctx: &ctx::Ctx, block: validator::Block) -> ctx::Result<()> {
        self.sh.sync();
        let r = self.inner.queue_next_block(ctx, block).await;
        self.sh.absorb(&self.inner);
        r
    }
    async fn verify_pregenesis_block(&self, ctx: &ctx::Ctx, block: &validator::PreGenesisBlock) -> ctx::Result<()> {
        self.inner.verify_pregenesis_block(ctx, block).await
    }
    async fn verify_payload(
        &self,
        ctx: &ctx::Ctx,
        number: validator::BlockNumber,
        payload: &validator::Payload,
    ) -> ctx::Result<()> {
        self.inner.verify_payload(ctx, number, payload).await
    }
    async fn propose_payload(&self, ctx: &ctx::Ctx, number: validator::BlockNumber) -> ctx::Result<validator::Payload> {
        self.inner.propose_payload(ctx, number).await
    }
    async fn get_state(&self, ctx: &ctx::Ctx) -> ctx::Result<validator::ReplicaState> {
        self.inner.get_state(ctx).await
    }
    async fn set_state(&self, ctx: &ctx::Ctx, state: &validator::ReplicaState) -> ctx::Result<()> {
        self.sh.sync();
        let r = self.inner.set_state(ctx, state).await;
        self.sh.absorb(&self.inner);
        r
    }
    async fn push_tx(&self, ctx: &ctx::Ctx, tx: Transaction) -> ctx::Result<bool> {
        self.inner.push_tx(ctx, tx).await
    }
}

struct AckWatch {
    id: u64,
    sh: Arc<Shared>,
}

impl Wake for AckWatch {
    fn wake(self: Arc<Self>) {
        self.wake_by_ref()
    }
    fn wake_by_ref(self: &Arc<Self>) {
        self.sh.sync();
        self.sh.log.lock().unwrap().push(Item::Woken(self.id));
    }
}

// ------------------------------------------------------------------------------------------------ one real replica task

type LoopResult = Result<ctx::Result<()>, String>;

/// more events than any single quiesce of the generated scenarios can legitimately produce
const SPIN_LIMIT: usize = 400;

struct Task {
    handle: tokio::task::JoinHandle<()>,
    stop: tokio::sync::oneshot::Sender<()>,
    result: Arc<Mutex<Option<LoopResult>>>,
}

struct Session {
    w: World,
    weights: Vec<u64>,
    me: usize,
    vt: u64,
    clock: ctx::ManualClock,
    root: ctx::Ctx,
    engine: LoopEngine,
    manager: Arc<EngineManager>,
    sender: sync::prunable_mpsc::Sender<ConsensusReq>,
    receiver: Option<sync::prunable_mpsc::Receiver<ConsensusReq>>,
    task: Option<Task>,
    /// ack receivers of the requests that are neither acknowledged nor closed yet
    acks: BTreeMap<u64, tokio::sync::oneshot::Receiver<()>>,
    is_proposal: BTreeMap<u64, bool>,
    now: u64,
    // ---- monitor state (implementation only)
    /// the task has been started (and not shut down since)
    started: bool,
    /// clock value when the view timer was last (re)armed, as far as an outside observer can tell: task start,
    /// proposer notification (`start_new_view`), own timeout vote (`start_timeout`)
    armed_at: u64,
    last_view: u64,
    /// last durable state written by the replica
    durable: v2::ChonkyV2State,
    /// own messages emitted by the last quiesce
    emitted: Vec<validator::Signed<validator::ConsensusMsg>>,
    ops: Vec<Value>,
    /// the replica task was found spinning: the rest of the case is skipped
    broken: bool,
}

fn sel() -> validator::LeaderSelection {
    validator::LeaderSelection { frequency: 1, mode: validator::LeaderSelectionMode::RoundRobin }
}

impl Session {
    async fn new(op: &Value) -> Self {
        let weights: Vec<u64> = serde_json::from_value(op["weights"].clone()).unwrap();
        let first = op["first"].as_u64().unwrap_or(0);
        let me = op["me"].as_u64().unwrap_or(0) as usize;
        let vt = op["view_timeout"].as_u64().unwrap_or(VIEW_TIMEOUT_MS as u64);
        let w = World::new(op["wseed"].as_u64().unwrap_or(0), &weights, &vec![true; weights.len()], sel(), first);
        let clock = ctx::ManualClock::new();
        let root = ctx::test_root(&clock);
        let engine = LoopEngine { inner: SimEngine::new(&w), sh: Arc::new(Shared::default()) };
        let (manager, runner) = EngineManager::new(&root, Box::new(engine.clone()), time::Duration::seconds(3600))
            .await
            .expect("EngineManager::new");
        let rctx = root.with_deadline(time::Deadline::Infinite);
        tokio::spawn(async move {
            let _ = runner.run(&rctx).await;
        });
        let (sender, receiver) = bft::create_input_channel();
        Self {
            w,
            weights,
            me,
            vt,
            clock,
            root,
            engine,
            manager,
            sender,
            receiver: Some(receiver),
            task: None,
            acks: BTreeMap::new(),
            is_proposal: BTreeMap::new(),
            now: 0,
            started: false,
            armed_at: 0,
            last_view: 0,
            durable: v2::ChonkyV2State::default(),
            emitted: vec![],
            ops: vec![],
            broken: false,
        }
    }

    /// `Config::run_v2` without the proposer: `StateMachine::start(..).run(ctx)` inside a scope that is cancelled from outside.
    fn spawn_task(&mut self) {
        let cfg = bft::Config::new(
            self.w.key(self.me).clone(),
            MAX_PAYLOAD,
            time::Duration::milliseconds(self.vt as i64),
            self.manager.clone(),
            self.w.epoch,
        )
        .expect("bft::Config::new");
        let (out_send, out_recv) = ctx::channel::unbounded();
        let (prop_send, prop_recv) = sync::watch::channel(None);
        *self.engine.sh.outbound.lock().unwrap() = Some(out_recv);
        *self.engine.sh.proposer.lock().unwrap() = Some(prop_recv);
        let inbound = self.receiver.take().expect("fresh channel");
        let (stop, stop_rx) = tokio::sync::oneshot::channel::<()>();
        let result: Arc<Mutex<Option<LoopResult>>> = Arc::new(Mutex::new(None));
        let res2 = result.clone();
        let tctx = self.root.with_deadline(time::Deadline::Infinite);
        let handle = tokio::spawn(async move {
            let _: Result<(), ctx::Canceled> = scope::run!(&tctx, |ctx, s| async move {
                s.spawn_bg::<()>(async move {
                    let _ = ctx.wait(stop_rx).await;
                    Err(ctx::Canceled)
                });
                let r = vharness::catch_async(bft::verif::run_replica(ctx, cfg, out_send, inbound, prop_send)).await;
                *res2.lock().unwrap() = Some(r);
                Ok(())
            })
            .await;
        });
        self.task = Some(Task { handle, stop, result });
    }

    fn progress(&self) -> (usize, usize, u64, bool) {
        (
            self.engine.sh.log.lock().unwrap().len(),
            self.engine.inner.0.log.lock().unwrap().len(),
            self.engine.inner.persisted_next(),
            self.task.as_ref().is_some_and(|t| t.handle.is_finished()),
        )
    }

    /// Lets every task run until nothing observable changes over several scheduler rounds. Returns false if the
    /// replica task keeps producing events without ever blocking (a loop that spins).
    async fn settle(&self) -> bool {
        let mut last = self.progress();
        let mut stable = 0;
        for _ in 0..600 {
            for _ in 0..8 {
                tokio::task::yield_now().await;
            }
            let p = self.progress();
            if p == last {
                stable += 1;
                if stable >= 4 {
                    return true;
                }
            } else {
                stable = 0;
                last = p;
            }
            if p.0 > SPIN_LIMIT {
                return false;
            }
        }
        false
    }

    fn env(&self) -> Value {
        json!({
            "queued_first": self.manager.queued().first.0,
            "persisted_next": self.engine.inner.persisted_next(),
            "store_next": self.manager.queued().next().0,
        })
    }

    fn unresolved(&self) -> Vec<u64> {
        self.acks.keys().copied().collect()
    }

    /// Takes the log. Returns the typed events and ack marks in order, plus the ids whose channel closed.
    fn collect(&mut self) -> (Vec<Item>, Vec<u64>) {
        self.engine.sh.sync();
        self.engine.sh.absorb(&self.engine.inner);
        let items: Vec<Item> = std::mem::take(&mut *self.engine.sh.log.lock().unwrap());
        let mut out = vec![];
        let mut closed = vec![];
        for it in items {
            match it {
                Item::Woken(id) => {
                    let Some(rx) = self.acks.get_mut(&id) else { continue };
                    match rx.try_recv() {
                        Ok(()) => {
                            self.acks.remove(&id);
                            out.push(Item::Woken(id));
                        }
                        Err(tokio::sync::oneshot::error::TryRecvError::Closed) => {
                            self.acks.remove(&id);
                            closed.push(id);
                        }
                        Err(tokio::sync::oneshot::error::TryRecvError::Empty) => {}
                    }
                }
                ev => out.push(ev),
            }
        }
        // a channel may also have been closed without a wake-up reaching us (never expected; checked anyway)
        let ids: Vec<u64> = self.acks.keys().copied().collect();
        for id in ids {
            match self.acks.get_mut(&id).unwrap().try_recv() {
                Ok(()) => {
                    self.acks.remove(&id);
                    out.push(Item::Woken(id));
                }
                Err(tokio::sync::oneshot::error::TryRecvError::Closed) => {
                    self.acks.remove(&id);
                    closed.push(id);
                }
                Err(_) => {}
            }
        }
        closed.sort();
        (out, closed)
    }

    fn realise(&mut self, op: &mut Value) -> validator::Signed<validator::ConsensusMsg> {
        let from = op["from"].as_u64().unwrap() as usize;
        let sig_ok = op["sig_ok"].as_bool().unwrap_or(true);
        let m = op["msg"].clone();
        let w = &mut self.w;
        let cm = if let Some(v) = m.get("commit") {
            let a: AVote = serde_json::from_value(v.clone()).unwrap();
            v2::ChonkyMsg::ReplicaCommit(w.vote(&a))
        } else if let Some(v) = m.get("timeout") {
            let a: ATVote = serde_json::from_value(v.clone()).unwrap();
            v2::ChonkyMsg::ReplicaTimeout(w.tvote(&a))
        } else if let Some(v) = m.get("newview") {
            let a: AJust = serde_json::from_value(v.clone()).unwrap();
            let (j, a2) = w.just(&a);
            op["msg"]["newview"] = serde_json::to_value(&a2).unwrap();
            v2::ChonkyMsg::ReplicaNewView(v2::ReplicaNewView { justification: j })
        } else {
            let p = &m["proposal"];
            let a: AJust = serde_json::from_value(p["just"].clone()).unwrap();
            let (j, a2) = w.just(&a);
            op["msg"]["proposal"]["just"] = serde_json::to_value(&a2).unwrap();
            let payload = p["payload"].as_u64().map(|id| w.payload(id));
            v2::ChonkyMsg::LeaderProposal(v2::LeaderProposal { proposal_payload: payload, justification: j })
        };
        w.signed(from, cm, !sig_ok)
    }
}

fn ids_json(ids: &[u64]) -> Value {
    json!(ids)
}

fn is_timeout_vote(m: &validator::Signed<validator::ConsensusMsg>) -> bool {
    let validator::ConsensusMsg::V2(cm) = &m.msg;
    matches!(cm, v2::ChonkyMsg::ReplicaTimeout(_))
}

pub struct LoopProp {
    rt: tokio::runtime::Runtime,
    s: Option<Session>,
}

impl LoopProp {
    fn new() -> Self {
        Self { rt: tokio::runtime::Builder::new_current_thread().enable_all().build().unwrap(), s: None }
    }

    fn fail(s: &Session, out: &mut Out, site: &str, what: &str, op: &Value) {
        out.oracle_fail_ops(site, what, op.clone(), &s.ops);
    }

    /// Executes one op on the real code; returns the op completed with what it ran in, and the observation.
    fn exec_full(&mut self, op: &Value, out: &mut Out) -> (Value, Value) {
        HEARTBEAT.fetch_add(1, std::sync::atomic::Ordering::Relaxed);
        let kind = op["op"].as_str().unwrap_or("").to_string();
        out.count(&format!("op={kind}"));
        if kind == "init" {
            // the previous case's tasks stay parked on the runtime (never polled again)
            let s = self.rt.block_on(Session::new(op));
            self.s = Some(s);
            self.s.as_mut().unwrap().ops.push(op.clone());
            return (op.clone(), json!({"class":"init"}));
        }
        let mut op = op.clone();
        let rt = &self.rt;
        let _guard = rt.enter();
        let s = self.s.as_mut().expect("init first");
        match kind.as_str() {
            "arrive" => {
                let id = op["id"].as_u64().unwrap();
                let signed = s.realise(&mut op);
                s.ops.push(op.clone());
                let validator::ConsensusMsg::V2(cm) = &signed.msg;
                s.is_proposal.insert(id, matches!(cm, v2::ChonkyMsg::LeaderProposal(_)));
                let (ack, mut rx) = tokio::sync::oneshot::channel::<()>();
                let waker = Waker::from(Arc::new(AckWatch { id, sh: s.engine.sh.clone() }));
                let mut cx = Context::from_waker(&waker);
                if let Poll::Ready(_) = Pin::new(&mut rx).poll(&mut cx) {
                    unreachable!("fresh oneshot");
                }
                s.acks.insert(id, rx);
                // the real `Sender::send`: signature filter, selection function, push
                s.sender.send(ConsensusReq { msg: signed, ack });
                let (items, closed) = s.collect();
                if items.iter().any(|i| matches!(i, Item::Ev(_) | Item::Woken(_))) {
                    Self::fail(s, out, "loop:effect_outside_poll", "an effect or an ack was observed although the replica task was not polled", &op);
                }
                out.count(if closed.is_empty() { "arrive=kept" } else if closed.contains(&id) { "arrive=dropped_new" } else { "arrive=evicted_old" });
                (op, json!({"closed": ids_json(&closed), "pending": ids_json(&s.unresolved())}))
            }
            "advance" => {
                s.ops.push(op.clone());
                let ms = op["ms"].as_u64().unwrap_or(0);
                s.clock.advance(time::Duration::milliseconds(ms as i64));
                s.now += ms;
                (op, json!({"now": s.now}))
            }
            "quiesce" => {
                op["env"] = s.env();
                s.ops.push(op.clone());
                let fresh = s.task.is_none();
                let view_at_start = s.durable.view_number.0;
                if fresh {
                    s.spawn_task();
                    s.started = true;
                    s.armed_at = s.now;
                }
                let pending_before = s.unresolved();
                // the view timer is due (as far as an observer can tell) when the task gets to run
                let tick_due = !fresh && s.now >= s.armed_at + s.vt;
                if !rt.block_on(s.settle()) {
                    Self::fail(s, out, "loop:spinning", "the replica task keeps running without ever blocking in recv", &op);
                    s.broken = true;
                    if let Some(t) = s.task.take() {
                        let _ = t.stop.send(());
                        std::mem::forget(t.handle);
                    }
                }
                let (items, closed) = s.collect();
                // ---------------------------------------------------------------- observation
                let mut trace = vec![];
                let mut queued = vec![];
                let mut acked = vec![];
                s.emitted.clear();
                let mut timeout_votes = 0;
                let mut first_ack_pos: Option<usize> = None;
                for it in &items {
                    match it {
                        Item::Woken(id) => {
                            if first_ack_pos.is_none() {
                                first_ack_pos = Some(trace.len());
                            }
                            acked.push(*id);
                            trace.push(json!({"ack": id}));
                        }
                        Item::Ev(e @ Ev::Queue(_)) => queued.push(sum_event(&mut s.w, e)),
                        Item::Ev(e) => {
                            match e {
                                Ev::Persist(st) => {
                                    // M: the view never decreases (also across restarts)
                                    if st.view_number.0 < s.last_view {
                                        Self::fail(s, out, "monotone:view", "the replica's durable view decreased", &op);
                                    }
                                    s.last_view = st.view_number.0;
                                    s.durable = st.clone();
                                }
                                Ev::Send(m) => {
                                    if is_timeout_vote(m) {
                                        timeout_votes += 1;
                                        s.armed_at = s.now;
                                    }
                                    s.emitted.push(m.clone());
                                }
                                Ev::Notify(_) => s.armed_at = s.now,
                                Ev::Queue(_) => {}
                            }
                            trace.push(sum_event(&mut s.w, e));
                        }
                    }
                }
                // ---------------------------------------------------------------- monitors on the implementation
                let ended = s.task.as_ref().is_some_and(|t| t.handle.is_finished());
                if ended {
                    let r = s.task.as_ref().unwrap().result.lock().unwrap().take();
                    Self::fail(s, out, "loop:ended", &format!("the replica task ended by itself: {r:?}"), &op);
                }
                // view-0 bootstrap: a task started in view 0 writes Timeout and sends its timeout vote before any ack
                let boot = fresh && view_at_start == 0;
                if boot {
                    let ok = trace.len() >= 2
                        && trace[0]["persist"]["phase"] == "timeout"
                        && trace[0]["persist"]["view"] == 0
                        && trace[1]["send"]["timeout"]["view"]["v"] == 0
                        && first_ack_pos.is_none_or(|p| p >= 2);
                    if !ok {
                        Self::fail(s, out, "loop:view0_bootstrap", "a replica started in view 0 did not time out before handling its first message", &op);
                    }
                }
                // timer: exactly one own timeout vote per bootstrap / per expiry, none otherwise
                let expected = boot as usize + tick_due as usize;
                if timeout_votes != expected {
                    Self::fail(
                        s,
                        out,
                        if timeout_votes < expected { "loop:timer_not_fired" } else { "loop:timer_spurious" },
                        &format!("{timeout_votes} own timeout vote(s) emitted, {expected} expected (view timeout {} ms, now {}, timer armed at {})", s.vt, s.now, s.armed_at),
                        &op,
                    );
                }
                // acks: in queue order, only for requests that were waiting
                if acked.windows(2).any(|p| p[0] >= p[1]) {
                    Self::fail(s, out, "loop:ack_order", "requests were acknowledged out of queue order", &op);
                }
                // the acknowledgement comes after the handler's effects: unless the timer fired afterwards, the last thing the
                // task did before blocking was to acknowledge the last request it took
                if !acked.is_empty() && !tick_due && trace.last().is_some_and(|x| x.get("ack").is_none()) {
                    Self::fail(s, out, "loop:ack_before_done", "effects of a handler were observed after the acknowledgement of its request", &op);
                }
                if acked.iter().any(|id| !pending_before.contains(id)) {
                    Self::fail(s, out, "loop:ack_unknown", "an acknowledgement for a request that was not waiting", &op);
                }
                // nothing may stay unresolved except one proposal (waiting for its previous block until the deadline)
                let left = s.unresolved();
                let legit = left.is_empty() || (left.len() == 1 && s.is_proposal.get(&left[0]) == Some(&true) && !tick_due);
                if !legit {
                    Self::fail(s, out, "loop:not_acked", "a request was taken from the channel (or left in it) without being acknowledged", &op);
                }
                if !closed.is_empty() {
                    Self::fail(s, out, "loop:closed_by_loop", "the loop dropped a request without acknowledging it", &op);
                }
                out.count(&format!("quiesce:acks={}", acked.len().min(5)));
                if boot { out.count("quiesce=boot"); }
                if tick_due { out.count("quiesce=tick"); }
                if !left.is_empty() { out.count("quiesce=waiting"); }
                if trace.is_empty() { out.count("quiesce=nothing"); }
                (op, json!({"trace": trace, "queued": queued, "closed": ids_json(&closed), "pending": ids_json(&left), "_acked": acked}))
            }
            "restart" => {
                s.ops.push(op.clone());
                if let Some(t) = s.task.take() {
                    let _ = t.stop.send(());
                    let _ = rt.block_on(s.settle());
                    if !t.handle.is_finished() {
                        Self::fail(s, out, "loop:shutdown_hangs", "the replica task did not end after its context was cancelled", &op);
                    }
                    let r = t.result.lock().unwrap().take();
                    match r {
                        Some(Ok(Ok(()))) => {}
                        other => {
                            if s.acks.is_empty() {
                                Self::fail(s, out, "loop:shutdown_result", &format!("idle replica task ended with {other:?}"), &op);
                            }
                        }
                    }
                }
                // fresh channel; the old one (and what it still holds) is dropped
                let (sender, receiver) = bft::create_input_channel();
                s.sender = sender;
                s.receiver = Some(receiver);
                *s.engine.sh.outbound.lock().unwrap() = None;
                *s.engine.sh.proposer.lock().unwrap() = None;
                s.started = false;
                let (items, closed) = s.collect();
                if items.iter().any(|i| matches!(i, Item::Ev(_) | Item::Woken(_))) {
                    Self::fail(s, out, "loop:effect_at_shutdown", "the idle replica task produced an effect or an ack while shutting down", &op);
                }
                // the durable state the next incarnation starts from
                let validator::ReplicaState::V2(d) = s.engine.inner.0.state.lock().unwrap().clone();
                s.durable = d;
                (op, json!({"closed": ids_json(&closed), "pending": ids_json(&s.unresolved())}))
            }
            _ => (op, json!({"bad_op": true})),
        }
    }
}

// ------------------------------------------------------------------------------------------------ generation

/// Adaptive director of one case: looks at what the real replica persisted / emitted to aim the next messages.
struct Dir<'a> {
    p: &'a mut LoopProp,
    out: &'a mut Out,
    rng: &'a mut StdRng,
    n: usize,
    weights: Vec<u64>,
    me: usize,
    first: u64,
    vt: u64,
    next_id: u64,
    fresh: u64,
    /// a proposal is waiting for its previous block
    waiting: bool,
    steps: usize,
}

impl Dir<'_> {
    fn s(&self) -> &Session {
        self.p.s.as_ref().unwrap()
    }
    fn run(&mut self, op: Value) -> Value {
        if self.s().broken {
            self.steps += 1000;
            return json!({"pending": []});
        }
        let (op, obs) = self.p.exec_full(&op, self.out);
        self.out.emit(op, obs.clone());
        self.steps += 1;
        obs
    }
    fn view(&self) -> u64 {
        self.s().durable.view_number.0
    }
    fn leader(&self, view: u64) -> usize {
        (view % self.n as u64) as usize
    }
    fn deadline(&self) -> u64 {
        self.s().armed_at + self.vt
    }
    fn can_arrive(&self) -> bool {
        !self.s().broken && !self.waiting && (!self.s().started || self.s().now < self.deadline())
    }
    fn arrive(&mut self, from: usize, sig_ok: bool, msg: Value) {
        if !self.can_arrive() {
            return;
        }
        let id = self.next_id;
        self.next_id += 1;
        self.run(json!({"op":"arrive","id":id,"from":from,"sig_ok":sig_ok,"msg":msg}));
    }
    fn quiesce(&mut self) -> Value {
        let obs = self.run(json!({"op":"quiesce"}));
        self.waiting = !obs["pending"].as_array().unwrap().is_empty();
        obs
    }
    /// the clock moves (only with an empty channel), then the task runs
    fn advance(&mut self, ms: u64) {
        if self.s().started && self.s().acks.len() > self.waiting as usize {
            self.quiesce();
        }
        self.run(json!({"op":"advance","ms":ms}));
        self.quiesce();
    }
    fn to_deadline(&mut self, extra: u64) {
        let d = self.deadline();
        let now = self.s().now;
        self.advance(d.saturating_sub(now) + extra);
    }
    fn restart(&mut self) {
        if !self.s().acks.is_empty() {
            self.quiesce();
        }
        if !self.s().acks.is_empty() {
            return;
        }
        self.run(json!({"op":"restart"}));
    }
    fn fresh_payload(&mut self) -> u64 {
        self.fresh += 1;
        if !payload_ok(self.fresh) {
            self.fresh += 1;
        }
        self.fresh
    }
    fn quorum_set(&mut self, must: Option<usize>) -> Vec<usize> {
        let mut order: Vec<usize> = (0..self.n).collect();
        order.shuffle(self.rng);
        if let Some(m) = must {
            order.retain(|x| *x != m);
            order.insert(0, m);
        }
        let q = quorum(&self.weights);
        let mut s = vec![];
        let mut w = 0;
        for i in order {
            if w >= q {
                break;
            }
            s.push(i);
            w += self.weights[i];
        }
        s
    }
    fn abs_cqc(&mut self, q: &v2::CommitQC) -> ACqc {
        let n = self.n;
        let s = self.p.s.as_mut().unwrap();
        match abs_just(&mut s.w, n, &v2::ProposalJustification::Commit(q.clone())) {
            AJust::Commit(c) => c,
            _ => unreachable!(),
        }
    }
    /// the replica's own messages of the last quiesce, as arrivals from itself
    fn loop_back(&mut self) {
        let msgs = self.s().emitted.clone();
        let me = self.me;
        let n = self.n;
        for m in msgs {
            let validator::ConsensusMsg::V2(cm) = &m.msg;
            let j = {
                let s = self.p.s.as_mut().unwrap();
                match cm {
                    v2::ChonkyMsg::ReplicaCommit(v) => json!({"commit": s.w.a_vote(v)}),
                    v2::ChonkyMsg::ReplicaTimeout(t) => {
                        let hv = t.high_vote.as_ref().map(|v| s.w.a_vote(v));
                        let hq = t.high_qc.as_ref().map(|q| match abs_just(&mut s.w, n, &v2::ProposalJustification::Commit(q.clone())) {
                            AJust::Commit(c) => c,
                            _ => unreachable!(),
                        });
                        json!({"timeout": ATVote { view: s.w.a_view(&t.view), hv, hq }})
                    }
                    v2::ChonkyMsg::ReplicaNewView(nv) => json!({"newview": abs_just(&mut s.w, n, &nv.justification)}),
                    v2::ChonkyMsg::LeaderProposal(_) => continue,
                }
            };
            self.arrive(me, true, j);
        }
    }
    /// the timeout vote a peer in the replica's situation would cast for `view`
    fn peer_timeout(&mut self, view: u64) -> ATVote {
        let d = self.s().durable.clone();
        let hv = d.high_vote.as_ref().map(|v| self.p.s.as_mut().unwrap().w.a_vote(v));
        let hq = d.high_commit_qc.as_ref().map(|q| self.abs_cqc(q));
        ATVote { view: aview(view), hv, hq }
    }
    /// timeout votes of other validators for the current view, up to (and a little beyond) a quorum together with ours
    fn timeout_quorum(&mut self, upto_quorum: bool) {
        let view = self.view();
        let t = self.peer_timeout(view);
        let mut set = self.quorum_set(Some(self.me));
        if !upto_quorum {
            set.pop();
        } else if self.rng.gen_bool(0.4) {
            // one more voter than needed: its vote is stale when it is handled
            if let Some(x) = (0..self.n).find(|i| !set.contains(i)) {
                set.push(x);
            }
        }
        for i in set {
            if i != self.me {
                self.arrive(i, true, json!({"timeout": t}));
            }
        }
    }
    /// the justification the replica itself holds for its current view (what an honest leader would use)
    fn held_just(&mut self) -> Option<AJust> {
        let d = self.s().durable.clone();
        let n = self.n;
        let s = self.p.s.as_mut().unwrap();
        let cv = d.high_commit_qc.as_ref().map(|q| q.view().number.0);
        let tv = d.high_timeout_qc.as_ref().map(|q| q.view.number.0);
        match (cv, tv) {
            (None, None) => None,
            (c, t) if c >= t => Some(abs_just(&mut s.w, n, &v2::ProposalJustification::Commit(d.high_commit_qc.clone().unwrap()))),
            _ => Some(abs_just(&mut s.w, n, &v2::ProposalJustification::Timeout(d.high_timeout_qc.clone().unwrap()))),
        }
    }
    /// the honest leader's proposal for the current view; returns false if there is none to make
    fn leader_proposal(&mut self) -> bool {
        let Some(just) = self.held_just() else { return false };
        let view = match &just {
            AJust::Commit(q) => q.vote.view.v + 1,
            AJust::Timeout(q) => q.view.v + 1,
        };
        if view != self.view() {
            return false;
        }
        let (num, hash) = spec_implied(&self.weights, self.first, &just);
        // the previous block must be in the store (otherwise the handler waits: that is the `wait_prev` family)
        if hash.is_none() && num > 0 && num - 1 >= self.s().engine.inner.persisted_next() && num != self.first {
            return false;
        }
        let payload = if hash.is_some() { Value::Null } else { json!(self.fresh_payload()) };
        let from = self.leader(view);
        self.arrive(from, true, json!({"proposal": {"payload": payload, "just": just}}));
        true
    }
    /// commit votes of the other validators for the replica's own high vote
    fn commit_quorum(&mut self, upto_quorum: bool) {
        let Some(hv) = self.s().durable.high_vote.clone() else { return };
        let v = self.p.s.as_mut().unwrap().w.a_vote(&hv);
        let mut set = self.quorum_set(Some(self.me));
        if !upto_quorum {
            set.pop();
        }
        for i in set {
            if i != self.me {
                self.arrive(i, true, json!({"commit": v}));
            }
        }
    }
    /// messages that must bounce: bad signature (dropped by the channel), outsider, stale view, wrong leader, duplicate
    fn noise(&mut self, k: usize) {
        for _ in 0..k {
            let view = self.view();
            let n = self.n;
            match self.rng.gen_range(0..7) {
                0 => {
                    let from = self.rng.gen_range(0..n);
                    self.arrive(from, false, json!({"commit": avote(view + 1, self.first, 2)}));
                }
                1 => {
                    let from = n + self.rng.gen_range(0..2);
                    let t = ATVote { view: aview(view), hv: None, hq: None };
                    self.arrive(from, true, json!({"timeout": t}));
                }
                2 => {
                    let from = self.rng.gen_range(0..n);
                    let t = ATVote { view: aview(view.saturating_sub(1)), hv: None, hq: None };
                    self.arrive(from, true, json!({"timeout": t}));
                }
                3 => {
                    let from = self.rng.gen_range(0..n);
                    self.arrive(from, true, json!({"commit": avote(view.saturating_sub(1), self.first, 1)}));
                }
                4 => {
                    // a proposal from somebody who is not the leader of its view
                    if let Some(just) = self.held_just() {
                        let wrong = (self.leader(view) + 1) % n;
                        if n > 1 {
                            let p = self.fresh_payload();
                            self.arrive(wrong, true, json!({"proposal": {"payload": p, "just": just}}));
                        }
                    }
                }
                5 => {
                    // wrong genesis
                    let from = self.rng.gen_range(0..n);
                    let mut v = avote(view + 2, self.first, 1);
                    v.view.g = 1;
                    self.arrive(from, true, json!({"commit": v}));
                }
                _ => {
                    // new-view for the current view from a non-leader: old
                    if let Some(just) = self.held_just() {
                        let from = (self.leader(view) + 1) % n;
                        self.arrive(from, true, json!({"newview": just}));
                    }
                }
            }
        }
    }
    /// votes for future views from a few senders, several per sender and kind: the channel keeps the freshest of each
    fn flood(&mut self, k: usize) {
        let view = self.view();
        let n = self.n;
        for _ in 0..k {
            let from = self.rng.gen_range(0..n.min(3));
            let v = view + self.rng.gen_range(1..30);
            let ok = self.rng.gen_bool(0.9);
            if self.rng.gen_bool(0.5) {
                let (bn, h) = (self.first + self.rng.gen_range(0..3), self.rng.gen_range(1..4));
                self.arrive(from, ok, json!({"commit": avote(v, bn, h)}));
            } else {
                self.arrive(from, ok, json!({"timeout": ATVote { view: aview(v), hv: None, hq: None }}));
            }
        }
    }
    /// accepted messages that do not change the view: below-quorum votes for the current view
    fn harmless(&mut self, k: usize) {
        let view = self.view();
        let n = self.n;
        for _ in 0..k {
            let from = self.rng.gen_range(0..n);
            if from == self.me {
                continue;
            }
            // a vote for a far view from one validator can never complete a certificate by itself unless n = 1 weight
            let v = view + 50 + self.rng.gen_range(0..1000);
            if self.rng.gen_bool(0.5) {
                self.arrive(from, true, json!({"commit": avote(v, self.first, 1)}));
            } else {
                self.arrive(from, true, json!({"timeout": ATVote { view: aview(v), hv: None, hq: None }}));
            }
        }
    }
    /// one honest round: timeouts → new view → proposal → vote → commits → next view (as far as it gets)
    fn honest_round(&mut self) {
        let phase = self.s().durable.phase;
        match phase {
            v2::Phase::Timeout => {
                self.loop_back();
                self.timeout_quorum(true);
                self.quiesce();
                self.loop_back();
            }
            v2::Phase::Prepare => {
                if self.leader_proposal() {
                    self.quiesce();
                    self.loop_back();
                } else {
                    self.to_deadline(0);
                }
            }
            v2::Phase::Commit => {
                self.loop_back();
                self.commit_quorum(true);
                self.quiesce();
                self.loop_back();
            }
        }
    }
    /// a proposal whose previous block the store does not have: the handler waits until the view deadline
    fn wait_prev(&mut self) {
        if self.s().started && !self.s().acks.is_empty() {
            self.quiesce();
        }
        if self.waiting || !self.s().acks.is_empty() || !self.can_arrive() {
            return;
        }
        let view = self.view();
        let far = self.s().engine.inner.persisted_next().max(self.first) + 4;
        let set = self.quorum_set(None);
        let q = acqc(self.n, avote(view, far, 2), &set);
        let from = self.leader(view + 1);
        let p = self.fresh_payload();
        self.arrive(from, true, json!({"proposal": {"payload": p, "just": AJust::Commit(q)}}));
        self.quiesce();
        if self.waiting && self.rng.gen_bool(0.5) {
            // still waiting before the deadline
            let d = self.deadline();
            let now = self.s().now;
            if d > now + 1 {
                let part = self.rng.gen_range(1..d - now);
                self.advance(part);
            }
        }
        let extra = self.rng.gen_range(0..3);
        self.to_deadline(extra);
    }
}

impl LoopProp {
    fn scenario(&mut self, opts: &Opts, out: &mut Out) {
        let mut rng = opts.rng();
        let budget = out.n_ops + opts.n.max(60);
        let mut case = 0u64;
        while out.n_ops < budget {
            let weights = if case % 3 == 0 { vec![1; rng.gen_range(4..=6)] } else {
                let mut w = random_weights(&mut rng);
                while w.len() < 2 { w = random_weights(&mut rng); }
                w
            };
            let n = weights.len();
            let me = rng.gen_range(0..n);
            let first = if rng.gen_bool(0.7) { 0 } else { rng.gen_range(1..4) };
            let vt = *[1000u64, 1000, 250, 4000].choose(&mut rng).unwrap();
            let init = json!({"op":"init","reset":true,"weights":weights,"first":first,"wseed":rng.gen_range(0..100000u64),"me":me,
                              "max_payload":MAX_PAYLOAD,"view_timeout":vt});
            let (op, obs) = self.exec_full(&init, out);
            out.emit(op, obs);
            let family = case % 6;
            out.count(&format!("family={family}"));
            let mut d = Dir { p: &mut *self, out: &mut *out, rng: &mut rng, n, weights: weights.clone(), me, first, vt, next_id: 1, fresh: 100, waiting: false, steps: 0 };
            let cap = 70;
            match family {
                // messages are already in the channel when the task starts: the bootstrap comes first
                0 => {
                    d.timeout_quorum(true);
                    d.noise(2);
                    d.quiesce();
                    while d.steps < cap { d.honest_round(); if d.rng.gen_bool(0.3) { d.noise(1); } }
                }
                // timers: partial advances, exact expiry, repeated expiry, resets by view changes
                1 => {
                    d.quiesce();
                    while d.steps < cap {
                        match d.rng.gen_range(0..8) {
                            0 => { let part = d.rng.gen_range(1..d.vt); d.advance(part); }
                            1 => d.to_deadline(0),
                            2 => { let dl = d.deadline(); let now = d.s().now; if dl > now + 1 { d.advance(dl - now - 1); } d.advance(1); }
                            3 => { let k = d.rng.gen_range(2..4) * d.vt + d.rng.gen_range(0..d.vt); d.advance(k); }
                            4 => { d.harmless(3); d.quiesce(); let part = d.vt / 3 + 1; d.advance(part); }
                            5 => d.honest_round(),
                            6 => { d.loop_back(); d.quiesce(); }
                            _ => { d.noise(2); d.quiesce(); let part = d.vt / 2; d.advance(part); }
                        }
                    }
                }
                // floods: the channel keeps one message per sender and kind; the timer still fires
                2 => {
                    if d.rng.gen_bool(0.5) { d.flood(8); }
                    d.quiesce();
                    while d.steps < cap {
                        let k = d.rng.gen_range(3..12);
                        d.flood(k);
                        if d.rng.gen_bool(0.5) { d.harmless(2); }
                        d.quiesce();
                        let part = d.vt / 4 + 1;
                        d.advance(part);
                        if d.rng.gen_bool(0.2) { d.honest_round(); }
                    }
                }
                // restarts: at view 0 the bootstrap repeats, above it does not; the deadline counts from the start
                3 => {
                    d.quiesce();
                    if d.rng.gen_bool(0.5) { d.restart(); d.flood(2); d.quiesce(); }
                    while d.steps < cap {
                        d.honest_round();
                        if d.rng.gen_bool(0.35) {
                            d.restart();
                            match d.rng.gen_range(0..3) {
                                0 => { d.quiesce(); let k = d.vt - 1; d.advance(k); d.advance(1); }
                                1 => { d.noise(2); d.quiesce(); }
                                _ => { d.quiesce(); }
                            }
                        }
                    }
                }
                // a proposal waits for its previous block: nothing is acknowledged until the deadline, then ack + timeout
                4 => {
                    d.quiesce();
                    while d.steps < cap {
                        d.honest_round();
                        if d.rng.gen_bool(0.4) { d.wait_prev(); }
                    }
                }
                // mixture
                _ => {
                    if d.rng.gen_bool(0.5) { d.noise(3); }
                    d.quiesce();
                    while d.steps < cap {
                        match d.rng.gen_range(0..10) {
                            0..=3 => d.honest_round(),
                            4 => { d.noise(3); d.quiesce(); }
                            5 => { d.flood(5); d.quiesce(); }
                            6 => { let part = d.rng.gen_range(1..2 * d.vt); d.advance(part); }
                            7 => d.wait_prev(),
                            8 => d.restart(),
                            _ => { d.timeout_quorum(false); d.commit_quorum(false); d.quiesce(); }
                        }
                    }
                }
            }
            // end of case: everything must be resolved once the deadline has passed
            d.to_deadline(0);
            case += 1;
        }
    }
}

impl Prop for LoopProp {
    fn gen(&mut self, _opts: &Opts) -> Vec<Value> {
        vec![]
    }
    fn exec(&mut self, op: &Value, out: &mut Out) -> Value {
        self.exec_full(op, out).1
    }
    fn adaptive(&mut self, opts: &Opts, out: &mut Out) -> bool {
        self.scenario(opts, out);
        true
    }
}

/// A replica task that never yields (e.g. a loop that ignores its cancelled context) would hang `block_on` for ever:
/// the watchdog turns that into a harness failure.
static HEARTBEAT: std::sync::atomic::AtomicU64 = std::sync::atomic::AtomicU64::new(0);

fn main() {
    std::thread::spawn(|| {
        let mut last = u64::MAX;
        let mut idle = 0;
        loop {
            std::thread::sleep(std::time::Duration::from_secs(5));
            let h = HEARTBEAT.load(std::sync::atomic::Ordering::Relaxed);
            if h == last {
                idle += 1;
                if idle >= 12 {
                    eprintln!("harness error: op {h} did not complete within 60 s: the replica task does not yield (VIOLATION of the loop's liveness)");
                    std::process::exit(3);
                }
            } else {
                idle = 0;
                last = h;
            }
        }
    });
    vharness::main_for(&mut LoopProp::new());
}
