//! C06: progress — adversarial prefix, then a fair synchronous suffix must make every correct replica commit.
fn main() {
    vharness::main_for(&mut vharness::netsim::NetSim::new(true));
}
