//! C16 (a): the replica's pending-input queue — `zksync_concurrency::sync::prunable_mpsc` as instantiated by
//! `zksync_consensus_bft::create_input_channel()` (signature filter + (key, label, view) selection function),
//! driven with really signed (and deliberately mis-signed) consensus messages.
//!
//! Operations (first op of a case carries `"reset": true`; ids are unique inside a case):
//!   {"op":"send","m":{"id","sender","kind","view","variant","sig","sig_ok"}}
//!   {"op":"recv"}   {"op":"drain"[,"sorted":true]}
//!   {"op":"conc","threads":[[m..],..]}        concurrent sender threads (disjoint (sender,kind) per thread)
//!   {"op":"conc_recv","threads":[[m..],..]}   the same with the consumer running concurrently
//!   {"op":"case","steps":[op..]}              a whole case as one op (replay of monitor failures)
//! A message is identified through its `ack` channel: dropped by the queue = ack sender dropped.
use std::{
    collections::{BTreeMap, HashMap},
    future::Future,
    sync::{Arc, Barrier},
    task::{Context, Poll, Waker},
};

use rand::{rngs::StdRng, seq::SliceRandom, Rng, SeedableRng};
use serde_json::{json, Value};
use tokio::sync::oneshot::{self, error::TryRecvError};
use vharness::{catch, Opts, Out, Prop};
use zksync_concurrency::{ctx, sync::prunable_mpsc};
use zksync_consensus_bft::FromNetworkMessage;
use zksync_consensus_roles::validator::{
    self,
    v2::{
        BlockHeader, ChonkyMsg, LeaderProposal, ProposalJustification, ReplicaCommit, ReplicaNewView,
        ReplicaTimeout, TimeoutQC, View,
    },
    BlockNumber, ConsensusMsg, Payload, ViewNumber,
};

const N_KEYS: usize = 6; // 5 committee members + 1 key outside the committee (index 5)
const KIND_LABELS: [&str; 4] = ["LeaderProposalV2", "ReplicaCommitV2", "ReplicaTimeoutV2", "ReplicaNewViewV2"];

type Signed = validator::Signed<ConsensusMsg>;

/// Description of one message, as it appears in an op line.
#[derive(Clone, Debug, PartialEq, Eq, Hash)]
struct Desc {
    sender: usize,
    kind: usize,
    view: u64,
    variant: u8,
    /// "ok" | "otherkey" (signed by another key) | "othermsg" (signature of a different message)
    sig: String,
    /// which epoch / chain the message's view names: 0 = this chain's epoch, 1 = a later epoch, 2 = an earlier epoch,
    /// 3 / 4 = another genesis hash (greater / smaller as bytes). The queue keys on (sender, kind) and orders by the view
    /// NUMBER only; the signature filter does not look at the epoch either.
    world: u8,
}

fn poll_once<F: Future>(f: F) -> Option<F::Output> {
    let mut f = std::pin::pin!(f);
    let mut cx = Context::from_waker(Waker::noop());
    match f.as_mut().poll(&mut cx) {
        Poll::Ready(v) => Some(v),
        Poll::Pending => None,
    }
}

/// Reference semantics of the property, independent of the Lean model: per (sender, kind) slot keep the first
/// arrival of maximal view since the slot was emptied; deliver in arrival order.
#[derive(Default)]
struct RefQueue {
    slots: BTreeMap<(usize, usize), (u64, u64, u64)>, // (view, id, arrival)
    arrival: u64,
    keys_seen: std::collections::BTreeSet<usize>,
}

impl RefQueue {
    fn send(&mut self, id: u64, d: &Desc) {
        if d.sig != "ok" {
            return;
        }
        self.keys_seen.insert(d.sender);
        self.arrival += 1;
        let a = self.arrival;
        match self.slots.get(&(d.sender, d.kind)) {
            Some((v, _, _)) if *v >= d.view => {}
            _ => {
                self.slots.insert((d.sender, d.kind), (d.view, id, a));
            }
        }
    }
    fn recv(&mut self) -> Option<u64> {
        let k = *self.slots.iter().min_by_key(|(_, v)| v.2)?.0;
        self.slots.remove(&k).map(|v| v.1)
    }
    fn pending(&self) -> Vec<u64> {
        let mut v: Vec<u64> = self.slots.values().map(|x| x.1).collect();
        v.sort();
        v
    }
}

pub struct C16 {
    ctx: &'static ctx::Ctx,
    keys: Vec<validator::SecretKey>,
    key_idx: HashMap<validator::PublicKey, usize>,
    genesis: validator::GenesisHash,
    epoch: validator::EpochNumber,
    pool: HashMap<Desc, Signed>,
    // per case
    sender: Option<Arc<prunable_mpsc::Sender<FromNetworkMessage>>>,
    receiver: Option<prunable_mpsc::Receiver<FromNetworkMessage>>,
    live: BTreeMap<u64, (oneshot::Receiver<()>, Desc)>,
    reference: RefQueue,
    case_ops: Vec<Value>,
    n_signed: usize,
    /// genesis hashes of other chains: one that sorts below this chain's hash and one that sorts above it
    other_genesis: (validator::GenesisHash, validator::GenesisHash),
}

impl C16 {
    fn new() -> Self {
        // keys do not depend on the run's seed: observations only contain indices
        let mut rng = StdRng::seed_from_u64(0xC16);
        let setup = validator::testonly::Setup::new(&mut rng, N_KEYS - 1);
        let mut keys = setup.validator_keys.clone();
        keys.push(rng.gen());
        let key_idx = keys.iter().enumerate().map(|(i, k)| (k.public(), i)).collect();
        let mine = setup.genesis_hash();
        let (mut below, mut above) = (None, None);
        while below.is_none() || above.is_none() {
            let h = validator::testonly::Setup::new(&mut rng, 1).genesis_hash();
            if h < mine { below = Some(h); } else if h > mine { above = Some(h); }
        }
        Self {
            other_genesis: (below.unwrap(), above.unwrap()),
            ctx: Box::leak(Box::new(ctx::test_root(&ctx::RealClock))),
            keys,
            key_idx,
            genesis: setup.genesis_hash(),
            epoch: setup.epoch,
            pool: HashMap::new(),
            sender: None,
            receiver: None,
            live: BTreeMap::new(),
            reference: RefQueue::default(),
            case_ops: vec![],
            n_signed: 0,
        }
    }

    fn reset(&mut self) {
        let (s, r) = zksync_consensus_bft::create_input_channel();
        self.sender = Some(Arc::new(s));
        self.receiver = Some(r);
        self.live.clear();
        self.reference = RefQueue::default();
        self.case_ops.clear();
    }

    fn view(&self, n: u64) -> View {
        View { genesis: self.genesis, epoch: self.epoch, number: ViewNumber(n) }
    }

    fn view_w(&self, n: u64, world: u8) -> View {
        let mut v = self.view(n);
        match world {
            1 => v.epoch = validator::EpochNumber(self.epoch.0 + 2),
            2 => v.epoch = validator::EpochNumber(self.epoch.0.saturating_sub(1)),
            3 => v.genesis = self.other_genesis.1,
            4 => v.genesis = self.other_genesis.0,
            _ => {}
        }
        v
    }

    fn body(&self, d: &Desc) -> ConsensusMsg {
        let v = d.variant;
        let m = match d.kind {
            0 => ChonkyMsg::LeaderProposal(LeaderProposal {
                proposal_payload: Some(Payload(vec![v])),
                // view() of a proposal / new-view is the justification's view + 1
                justification: ProposalJustification::Timeout(TimeoutQC::new(self.view_w(d.view - 1, d.world))),
            }),
            1 => ChonkyMsg::ReplicaCommit(ReplicaCommit {
                view: self.view_w(d.view, d.world),
                proposal: BlockHeader { number: BlockNumber(v as u64), payload: Payload(vec![v]).hash() },
            }),
            2 => ChonkyMsg::ReplicaTimeout(ReplicaTimeout {
                view: self.view_w(d.view, d.world),
                high_vote: (v % 2 == 1).then(|| ReplicaCommit {
                    view: self.view_w(d.view.saturating_sub(1), d.world),
                    proposal: BlockHeader { number: BlockNumber(v as u64), payload: Payload(vec![v]).hash() },
                }),
                high_qc: None,
            }),
            _ => ChonkyMsg::ReplicaNewView(ReplicaNewView {
                justification: ProposalJustification::Timeout(TimeoutQC::new(self.view_w(d.view - 1, d.world))),
            }),
        };
        ConsensusMsg::V2(m)
    }

    /// The signed message for a description (signed once, then cloned from the pool).
    fn signed(&mut self, d: &Desc) -> Signed {
        if let Some(s) = self.pool.get(d) {
            return s.clone();
        }
        let body = self.body(d);
        let s = match d.sig.as_str() {
            "ok" => self.keys[d.sender].sign_msg(body),
            "otherkey" => {
                // signature made with another key; `key` still names the sender
                let other = (d.sender + 1) % N_KEYS;
                let mut s = self.keys[other].sign_msg(body);
                s.key = self.keys[d.sender].public();
                s
            }
            _ => {
                // the sender's genuine signature, but over a different message (another view)
                let mut d2 = d.clone();
                d2.view = if d.view > 1 { d.view - 1 } else { d.view + 1 };
                let other_body = self.body(&d2);
                let mut s = self.keys[d.sender].sign_msg(other_body);
                s.msg = body;
                s
            }
        };
        self.n_signed += 1;
        self.pool.insert(d.clone(), s.clone());
        s
    }

    fn parse_msg(j: &Value) -> (u64, Desc) {
        (
            j["id"].as_u64().expect("id"),
            Desc {
                sender: j["sender"].as_u64().expect("sender") as usize,
                kind: j["kind"].as_u64().expect("kind") as usize,
                view: j["view"].as_u64().expect("view"),
                variant: j["variant"].as_u64().unwrap_or(0) as u8,
                sig: j["sig"].as_str().unwrap_or("ok").to_string(),
                world: j["w"].as_u64().unwrap_or(0) as u8,
            },
        )
    }

    fn make_req(&mut self, id: u64, d: &Desc) -> FromNetworkMessage {
        let (ack, rx) = oneshot::channel();
        self.live.insert(id, (rx, d.clone()));
        FromNetworkMessage { msg: self.signed(d), ack }
    }

    /// Drops from `live` every message whose request object no longer exists; returns the pending ids.
    fn scan(&mut self) -> Vec<u64> {
        let closed: Vec<u64> = self
            .live
            .iter_mut()
            .filter_map(|(id, (rx, _))| matches!(rx.try_recv(), Err(TryRecvError::Closed)).then_some(*id))
            .collect();
        for id in closed {
            self.live.remove(&id);
        }
        self.live.keys().cloned().collect()
    }

    /// Identifies a delivered request (acks it) and removes it from `live`.
    fn identify(&mut self, req: FromNetworkMessage) -> (Option<u64>, Value) {
        let sender = self.key_idx.get(&req.msg.key).cloned().unwrap_or(999);
        let kind = KIND_LABELS.iter().position(|l| *l == req.msg.msg.label()).unwrap_or(999);
        let view = req.msg.msg.view_number().0;
        let sig_valid = req.msg.verify().is_ok();
        let _ = req.ack.send(());
        let id = self
            .live
            .iter_mut()
            .find_map(|(id, (rx, _))| matches!(rx.try_recv(), Ok(())).then_some(*id));
        if let Some(id) = id {
            self.live.remove(&id);
        }
        (id, json!({"sender": sender, "kind": kind, "view": view, "_sig_valid": sig_valid}))
    }

    fn fail(&self, out: &mut Out, site: &str, what: String) {
        out.oracle_fail(site, &what, json!({"op": "case", "steps": self.case_ops}));
    }

    /// Monitors evaluated after every sequential step.
    fn check_state(&mut self, out: &mut Out, pending: &[u64]) {
        let want = self.reference.pending();
        if pending != want.as_slice() {
            self.fail(out, "C16a/pending-set", format!("pending ids {pending:?}, reference queue semantics give {want:?}"));
        }
        // bounded: at most one per (sender, kind); at most 4 per signing key seen
        let mut slots = std::collections::BTreeSet::new();
        for (_, (_, d)) in self.live.iter() {
            if !slots.insert((d.sender, d.kind)) {
                self.fail(out, "C16a/one-per-sender-kind", format!("two pending messages of sender {} kind {}", d.sender, d.kind));
            }
            if d.sig != "ok" {
                self.fail(out, "C16a/unsigned-pending", format!("a message with an invalid signature is pending: {d:?}"));
            }
        }
        if pending.len() > 4 * self.reference.keys_seen.len() {
            self.fail(out, "C16a/bound", format!("{} pending > 4 x {} signing keys", pending.len(), self.reference.keys_seen.len()));
        }
    }

    fn do_send(&mut self, j: &Value, out: &mut Out) -> Value {
        let (id, d) = Self::parse_msg(&j["m"]);
        let req = self.make_req(id, &d);
        let sender = self.sender.clone().expect("reset");
        if let Err(site) = catch(move || sender.send(req)) {
            self.fail(out, &site, "Sender::send panicked".into());
            return json!({"panic": site});
        }
        self.reference.send(id, &d);
        let pending = self.scan();
        self.check_state(out, &pending);
        out.count(&format!("send:{}", if d.sig == "ok" { "signed" } else { "badsig" }));
        if d.sig == "ok" {
            out.count(if pending.contains(&id) { "send:kept" } else { "send:dropped-new" });
        }
        json!({"pending": pending, "len": pending.len()})
    }

    fn recv_once(&mut self) -> Result<Option<FromNetworkMessage>, String> {
        let ctx = self.ctx;
        let r = self.receiver.as_mut().expect("reset");
        match catch(move || poll_once(r.recv(ctx))) {
            Ok(None) => Ok(None),
            Ok(Some(Ok(req))) => Ok(Some(req)),
            Ok(Some(Err(_))) => Err("canceled".into()),
            Err(site) => Err(site),
        }
    }

    fn do_recv(&mut self, out: &mut Out) -> Value {
        match self.recv_once() {
            Err(site) => {
                self.fail(out, &site, "Receiver::recv panicked / was canceled".into());
                json!({"panic": site})
            }
            Ok(None) => {
                if let Some(id) = self.reference.recv() {
                    self.fail(out, "C16a/recv-blocked", format!("recv blocks although message {id} should be pending"));
                }
                out.count("recv:blocked");
                json!({"blocked": true})
            }
            Ok(Some(req)) => {
                let (id, mut obs) = self.identify(req);
                let want = self.reference.recv();
                if id != want {
                    self.fail(out, "C16a/delivery-order", format!("recv returned message {id:?}, reference queue semantics give {want:?}"));
                }
                if obs["_sig_valid"] != json!(true) {
                    self.fail(out, "C16a/unsigned-delivered", format!("recv returned a message with an invalid signature: {id:?}"));
                }
                let pending = self.scan();
                self.check_state(out, &pending);
                out.count("recv:got");
                obs["recv"] = json!(id);
                obs["len"] = json!(pending.len());
                obs
            }
        }
    }

    fn do_drain(&mut self, sorted: bool, out: &mut Out) -> Value {
        let mut ids: Vec<u64> = vec![];
        let want_set = self.reference.pending();
        loop {
            match self.recv_once() {
                Err(site) => {
                    self.fail(out, &site, "Receiver::recv panicked / was canceled".into());
                    return json!({"panic": site});
                }
                Ok(None) => break,
                Ok(Some(req)) => {
                    let (id, obs) = self.identify(req);
                    let want = self.reference.recv();
                    // after concurrent sends the order among different slots is not determined
                    if id != want && !sorted {
                        self.fail(out, "C16a/delivery-order", format!("recv returned message {id:?}, reference queue semantics give {want:?}"));
                    }
                    if obs["_sig_valid"] != json!(true) {
                        self.fail(out, "C16a/unsigned-delivered", format!("recv returned a message with an invalid signature: {id:?}"));
                    }
                    match id {
                        Some(id) => ids.push(id),
                        None => self.fail(out, "C16a/unknown-delivered", "recv returned a message that was never sent (or twice)".into()),
                    }
                }
            }
            if ids.len() > 10_000 {
                break;
            }
        }
        if sorted {
            ids.sort();
            if ids != want_set {
                self.fail(out, "C16a/pending-set", format!("drained {ids:?}, reference queue semantics give {want_set:?}"));
            }
        }
        let pending = self.scan();
        self.check_state(out, &pending);
        if !pending.is_empty() {
            self.fail(out, "C16a/drain", format!("queue reports empty but {pending:?} were neither delivered nor dropped"));
        }
        out.count("drain");
        json!({"drained": ids})
    }

    /// Concurrent sender threads; with `consume` the consumer runs concurrently and then drains the queue.
    fn do_conc(&mut self, j: &Value, consume: bool, out: &mut Out) -> Value {
        let threads: Vec<Vec<(u64, Desc)>> = j["threads"]
            .as_array()
            .expect("threads")
            .iter()
            .map(|t| t.as_array().expect("thread").iter().map(Self::parse_msg).collect())
            .collect();
        // what was pending before this op (it competes with the new arrivals)
        let before: Vec<(u64, Desc)> = self.live.iter().map(|(id, (_, d))| (*id, d.clone())).collect();
        let mut reqs: Vec<Vec<FromNetworkMessage>> = vec![];
        for t in &threads {
            let mut v = vec![];
            for (id, d) in t {
                v.push(self.make_req(*id, d));
            }
            reqs.push(v);
        }
        let sender = self.sender.clone().expect("reset");
        let barrier = Arc::new(Barrier::new(reqs.len() + consume as usize));
        let ctx = self.ctx;
        let mut receiver = self.receiver.take().expect("reset");
        let (stop_tx, stop_rx) = oneshot::channel::<()>();
        let mut panics: Vec<String> = vec![];
        let mut delivered: Vec<FromNetworkMessage> = vec![];
        std::thread::scope(|s| {
            let consumer = consume.then(|| {
                let barrier = barrier.clone();
                let receiver = &mut receiver;
                s.spawn(move || {
                    let rt = tokio::runtime::Builder::new_current_thread().enable_all().build().unwrap();
                    let mut got = vec![];
                    barrier.wait();
                    let r = catch(|| {
                        rt.block_on(async {
                            let mut stop_rx = stop_rx;
                            loop {
                                tokio::select! {
                                    biased;
                                    r = receiver.recv(ctx) => match r {
                                        Ok(req) => got.push(req),
                                        Err(_) => break,
                                    },
                                    _ = &mut stop_rx => break,
                                }
                            }
                        })
                    });
                    (got, r.err())
                })
            });
            let handles: Vec<_> = reqs
                .into_iter()
                .map(|v| {
                    let sender = sender.clone();
                    let barrier = barrier.clone();
                    s.spawn(move || {
                        barrier.wait();
                        let mut err = None;
                        for req in v {
                            let sender = sender.clone();
                            if let Err(site) = catch(move || sender.send(req)) {
                                err = Some(site);
                            }
                            std::thread::yield_now();
                        }
                        err
                    })
                })
                .collect();
            for h in handles {
                if let Some(site) = h.join().expect("sender thread") {
                    panics.push(site);
                }
            }
            let _ = stop_tx.send(());
            if let Some(c) = consumer {
                let (got, err) = c.join().expect("consumer thread");
                delivered = got;
                if let Some(site) = err {
                    panics.push(site);
                }
            }
        });
        self.receiver = Some(receiver);
        if let Some(site) = panics.first() {
            self.fail(out, site, "send / recv panicked in a concurrent run".into());
            return json!({"panic": site});
        }
        // reference: every (sender, kind) slot is fed by one thread only, so the slots evolve independently
        let all: Vec<(u64, Desc)> = threads.iter().flatten().cloned().collect();
        if !consume {
            for (id, d) in &all {
                self.reference.send(*id, d);
            }
            let pending = self.scan();
            self.check_state(out, &pending);
            out.count("conc");
            return json!({"pending": pending, "len": pending.len()});
        }
        // the consumer ran concurrently: collect what it got, then what is left, in delivery order
        let mut got: Vec<(u64, Desc)> = vec![];
        let mut bad = false;
        let descs: HashMap<u64, Desc> = before.iter().chain(all.iter()).cloned().collect();
        for req in delivered {
            let (id, obs) = self.identify(req);
            bad |= obs["_sig_valid"] != json!(true);
            match id {
                Some(id) => got.push((id, descs[&id].clone())),
                None => self.fail(out, "C16a/conc-unknown", "recv returned a message that was never sent (or twice)".into()),
            }
        }
        loop {
            match self.recv_once() {
                Err(site) => {
                    self.fail(out, &site, "Receiver::recv panicked / was canceled".into());
                    return json!({"panic": site});
                }
                Ok(None) => break,
                Ok(Some(req)) => {
                    let (id, obs) = self.identify(req);
                    bad |= obs["_sig_valid"] != json!(true);
                    match id {
                        Some(id) => got.push((id, descs[&id].clone())),
                        None => self.fail(out, "C16a/conc-unknown", "recv returned a message that was never sent (or twice)".into()),
                    }
                }
            }
        }
        if bad || got.iter().any(|(_, d)| d.sig != "ok") {
            self.fail(out, "C16a/unsigned-delivered", "a message with an invalid signature was delivered".into());
        }
        let pending = self.scan();
        if !pending.is_empty() {
            self.fail(out, "C16a/drain", format!("queue reports empty but {pending:?} were neither delivered nor dropped"));
        }
        // per slot: delivery order = arrival order (ids grow along each thread; older pending ids are smaller)
        let mut per_slot: BTreeMap<(usize, usize), Vec<(u64, u64)>> = BTreeMap::new();
        for (id, d) in &got {
            per_slot.entry((d.sender, d.kind)).or_default().push((*id, d.view));
        }
        for (slot, v) in &per_slot {
            if v.windows(2).any(|w| w[0].0 >= w[1].0) {
                self.fail(out, "C16a/conc-order", format!("slot {slot:?}: delivered out of arrival order: {v:?}"));
            }
        }
        // freshest survives: every validly signed message is delivered or outlived by one of its slot with view >= its own
        for (id, d) in before.iter().chain(all.iter()) {
            if d.sig != "ok" {
                continue;
            }
            let ok = per_slot
                .get(&(d.sender, d.kind))
                .map(|v| v.iter().any(|(i, view)| i == id || *view >= d.view))
                .unwrap_or(false);
            if !ok {
                self.fail(out, "C16a/freshest-lost", format!("message {id} {d:?}: nothing of its slot with view >= its own was delivered"));
            }
        }
        if std::env::var("VERIF_C16_DEBUG").is_ok() {
            let twice = per_slot.values().filter(|v| v.len() > 1).count();
            eprintln!("conc_recv: sent={} delivered={} slots={} slots-delivered-more-than-once={}", all.len(), got.len(), per_slot.len(), twice);
        }
        self.reference = RefQueue { arrival: self.reference.arrival, keys_seen: std::mem::take(&mut self.reference.keys_seen), ..Default::default() };
        let max_delivered: Vec<Value> = per_slot
            .iter()
            .map(|((s, k), v)| json!([s, k, v.iter().map(|x| x.1).max().unwrap()]))
            .collect();
        out.count("conc_recv");
        json!({"pending": pending, "max_delivered": max_delivered})
    }

    fn step(&mut self, op: &Value, out: &mut Out) -> Value {
        if op["reset"].as_bool().unwrap_or(false) || self.sender.is_none() {
            self.reset();
        }
        self.case_ops.push(op.clone());
        match op["op"].as_str().unwrap_or("") {
            "send" => self.do_send(op, out),
            "recv" => self.do_recv(out),
            "drain" => self.do_drain(op["sorted"].as_bool().unwrap_or(false), out),
            "conc" => self.do_conc(op, false, out),
            "conc_recv" => self.do_conc(op, true, out),
            _ => json!({"bad_op": true}),
        }
    }
}

// ------------------------------------------------------------------------------------------------ generator

struct Gen {
    rng: StdRng,
    ops: Vec<Value>,
    next_id: u64,
    first: bool,
}

const BIG_VIEWS: [u64; 9] = [
    1,
    (1 << 32) - 1,
    1 << 32,
    (1 << 32) + 1,
    (1 << 63) - 1,
    1 << 63,
    (1 << 63) + 1,
    u64::MAX - 1,
    u64::MAX,
];

impl Gen {
    fn push(&mut self, mut op: Value) {
        if self.first {
            op["reset"] = json!(true);
            self.first = false;
        }
        self.ops.push(op);
    }
    fn start_case(&mut self) {
        self.first = true;
        self.next_id = 0;
    }
    fn msg(&mut self, sender: usize, kind: usize, view: u64, sig: &str) -> Value {
        // a proposal / new-view has view = justification view + 1 >= 1
        let view = if (kind == 0 || kind == 3) && view == 0 { 1 } else { view };
        let id = self.next_id;
        self.next_id += 1;
        let variant = self.rng.gen_range(0..4u8);
        json!({"id": id, "sender": sender, "kind": kind, "view": view, "variant": variant, "sig": sig, "sig_ok": sig == "ok"})
    }
    fn send(&mut self, sender: usize, kind: usize, view: u64, sig: &str) {
        let m = self.msg(sender, kind, view, sig);
        self.push(json!({"op": "send", "m": m}));
    }
    /// a message whose view names another epoch / another chain (`w`, see `Desc::world`)
    fn send_w(&mut self, sender: usize, kind: usize, view: u64, w: u8) {
        let mut m = self.msg(sender, kind, view, "ok");
        m["w"] = json!(w);
        self.push(json!({"op": "send", "m": m}));
    }
    /// the freshest-by-view-NUMBER rule must not depend on the epoch or the genesis hash a view names: replayed or
    /// early messages of another epoch / fork, validly signed by the same key, compete in the same slot
    fn worlds(&mut self) {
        let s = self.rng.gen_range(0..N_KEYS);
        let o = (s + 1) % N_KEYS;
        let k = self.rng.gen_range(0..4);
        let hi = self.rng.gen_range(10..30u64);
        let lo = self.rng.gen_range(1..hi - 2);
        for (w_first, w_second) in [(0u8, 1u8), (0, 2), (1, 0), (2, 0), (0, 3), (0, 4), (3, 4), (1, 2)] {
            // pending highest view, then a lower view of another world: the pending one must stay
            self.send_w(s, k, hi, w_first);
            self.send_w(s, k, lo, w_second);
            self.send_w(o, k, lo, w_second);
            self.drain();
            // pending lower view, then a higher view of another world: the higher one must replace it
            self.send_w(s, k, lo, w_first);
            self.send_w(s, k, hi, w_second);
            self.drain();
            // equal numbers in different worlds: the pending one stays
            self.send_w(s, k, hi, w_first);
            self.send_w(s, k, hi, w_second);
            self.drain();
        }
    }
    fn recv(&mut self) {
        self.push(json!({"op": "recv"}));
    }
    fn drain(&mut self) {
        self.push(json!({"op": "drain"}));
    }
    /// after concurrent sends only the pending *set* is determined: the drained ids are compared sorted
    fn drain_sorted(&mut self) {
        self.push(json!({"op": "drain", "sorted": true}));
    }
    fn badsig(&mut self) -> &'static str {
        if self.rng.gen_bool(0.5) { "otherkey" } else { "othermsg" }
    }

    /// mostly valid traffic: few senders, few views (so that slots collide), some receives, some bad signatures
    fn random(&mut self) {
        let n_senders = self.rng.gen_range(1..=4);
        let mut senders: Vec<usize> = (0..N_KEYS).collect();
        senders.shuffle(&mut self.rng);
        senders.truncate(n_senders);
        let vmax = self.rng.gen_range(2..=8u64);
        let base = if self.rng.gen_bool(0.2) { *BIG_VIEWS.choose(&mut self.rng).unwrap() - 1 } else { self.rng.gen_range(0..50) };
        let n = self.rng.gen_range(8..=40);
        let p_recv = self.rng.gen_range(5..=40);
        for _ in 0..n {
            let x = self.rng.gen_range(0..100);
            if x < p_recv {
                self.recv();
            } else if x < p_recv + 3 {
                self.drain();
            } else {
                let s = *senders.choose(&mut self.rng).unwrap();
                let k = self.rng.gen_range(0..4);
                let v = base.saturating_add(self.rng.gen_range(0..vmax));
                let sig = if self.rng.gen_range(0..100) < 12 { self.badsig() } else { "ok" };
                if sig == "ok" && self.rng.gen_range(0..100) < 15 {
                    let w = self.rng.gen_range(1..=4u8);
                    self.send_w(s, k, v, w);
                } else {
                    self.send(s, k, v, sig);
                }
            }
        }
        self.drain();
    }

    /// equal views: the pending one stays, the newcomer is dropped; after the slot is emptied the same view enters again
    fn tie(&mut self) {
        let (s, o) = (self.rng.gen_range(0..N_KEYS), self.rng.gen_range(0..N_KEYS));
        let k = self.rng.gen_range(0..4);
        let v = self.rng.gen_range(1..20);
        self.send(s, k, v, "ok");
        if o != s {
            self.send(o, k, v, "ok");
        }
        for _ in 0..self.rng.gen_range(1..4) {
            self.send(s, k, v, "ok");
        }
        self.recv();
        self.send(s, k, v, "ok");
        self.send(s, k, v, "ok");
        self.drain();
        self.recv();
    }

    /// one (faulty) sender floods votes for ever higher future views; an honest message waits in front
    fn flood_up(&mut self) {
        let (s, o) = (self.rng.gen_range(0..N_KEYS), self.rng.gen_range(0..N_KEYS));
        let kinds: Vec<usize> = if self.rng.gen_bool(0.5) { vec![1] } else { vec![1, 2] };
        self.send(o, 1, 3, "ok");
        let mut v = self.rng.gen_range(1..100u64);
        for i in 0..self.rng.gen_range(5..30) {
            for k in kinds.clone() {
                self.send(s, k, v, "ok");
            }
            v += if self.rng.gen_bool(0.7) { 1 } else { self.rng.gen_range(1..1_000_000) };
            if i % 7 == 6 && self.rng.gen_bool(0.5) {
                self.recv();
            }
        }
        self.drain();
    }

    /// decreasing views: everything after the first is dropped
    fn flood_down(&mut self) {
        let s = self.rng.gen_range(0..N_KEYS);
        let k = self.rng.gen_range(0..4);
        let mut v = self.rng.gen_range(30..60u64);
        for _ in 0..self.rng.gen_range(3..12) {
            self.send(s, k, v, "ok");
            v -= self.rng.gen_range(0..3);
        }
        self.recv();
        self.send(s, k, 1, "ok"); // far below what was delivered: accepted, the slot is empty
        self.drain();
    }

    /// the four kinds of one sender at one view do not compete; a higher view evicts only its own kind
    fn kinds(&mut self) {
        let s = self.rng.gen_range(0..N_KEYS);
        let v = self.rng.gen_range(2..20u64);
        let mut ks = vec![0, 1, 2, 3];
        ks.shuffle(&mut self.rng);
        for k in &ks {
            self.send(s, *k, v, "ok");
        }
        let up = ks[self.rng.gen_range(0..4)];
        let down = ks[self.rng.gen_range(0..4)];
        self.send(s, up, v + 1, "ok");
        self.send(s, down, v - 1, "ok");
        // another sender with the same kind and a higher view does not evict either
        let o = (s + 1 + self.rng.gen_range(0..N_KEYS - 1)) % N_KEYS;
        self.send(o, up, v + 5, "ok");
        if self.rng.gen_bool(0.5) {
            self.recv();
        }
        self.drain();
    }

    /// badly signed messages neither enter nor evict, whatever their view; a non-member key is a sender like any other
    fn badsig_case(&mut self) {
        let s = self.rng.gen_range(0..N_KEYS);
        let k = self.rng.gen_range(0..4);
        let v = self.rng.gen_range(2..20u64);
        self.send(s, k, v, "ok");
        self.send(s, k, v + 5, "otherkey");
        self.send(s, k, v + 6, "othermsg");
        let k2 = (k + 1) % 4;
        let b = self.badsig();
        self.send(s, k2, v, b); // empty slot
        self.send(s, k, v + 1, "ok");
        self.send(N_KEYS - 1, k, v, "ok"); // key outside the committee
        let b = self.badsig();
        self.send(N_KEYS - 1, k, v + 9, b);
        if self.rng.gen_bool(0.5) {
            self.recv();
            let b = self.badsig();
            self.send(s, k, v + 20, b);
        }
        self.drain();
    }

    /// an evicting message takes its own place at the back
    fn order(&mut self) {
        let mut ss: Vec<usize> = (0..N_KEYS).collect();
        ss.shuffle(&mut self.rng);
        let k = self.rng.gen_range(0..4);
        let n = self.rng.gen_range(2..=5);
        for s in &ss[..n] {
            self.send(*s, k, 4, "ok");
        }
        let i = self.rng.gen_range(0..n);
        self.send(ss[i], k, 5, "ok");
        if self.rng.gen_bool(0.3) {
            self.send(ss[0], k, 6, "ok");
        }
        self.drain();
    }

    /// views are compared as full unsigned 64-bit numbers
    fn big_views(&mut self) {
        let s = self.rng.gen_range(0..N_KEYS);
        let k = self.rng.gen_range(0..4);
        let mut vs: Vec<u64> = BIG_VIEWS.to_vec();
        vs.push(0);
        vs.shuffle(&mut self.rng);
        for v in &vs[..self.rng.gen_range(3..=10)] {
            self.send(s, k, *v, "ok");
        }
        self.drain();
    }

    fn empty(&mut self) {
        self.recv();
        let s = self.rng.gen_range(0..N_KEYS);
        let b = self.badsig();
        self.send(s, 1, 3, b);
        self.recv();
        self.send(s, 1, 3, "ok");
        self.recv();
        self.recv();
        self.drain();
    }

    /// concurrent senders (each slot fed by one thread), optionally with the consumer running
    fn conc(&mut self, consume: bool, len: usize) {
        // something already pending
        for _ in 0..self.rng.gen_range(0..4) {
            let (s, k, v) = (self.rng.gen_range(0..N_KEYS), self.rng.gen_range(0..4), self.rng.gen_range(1..10));
            self.send(s, k, v, "ok");
        }
        let n_threads = self.rng.gen_range(2..=4);
        // slot -> thread
        let mut slots: Vec<(usize, usize)> = (0..N_KEYS).flat_map(|s| (0..4).map(move |k| (s, k))).collect();
        slots.shuffle(&mut self.rng);
        slots.truncate(self.rng.gen_range(n_threads..=12));
        let mut threads = vec![];
        for t in 0..n_threads {
            let mine: Vec<(usize, usize)> = slots.iter().enumerate().filter(|(i, _)| i % n_threads == t).map(|(_, s)| *s).collect();
            let mut v = vec![];
            for _ in 0..self.rng.gen_range(1..=len) {
                let (s, k) = *mine.choose(&mut self.rng).unwrap();
                let view = self.rng.gen_range(1..12);
                let sig = if self.rng.gen_range(0..100) < 8 { self.badsig() } else { "ok" };
                v.push(self.msg(s, k, view, sig));
            }
            threads.push(Value::Array(v));
        }
        self.push(json!({"op": if consume { "conc_recv" } else { "conc" }, "threads": threads}));
        if self.rng.gen_bool(0.5) {
            let (s, k, v) = (self.rng.gen_range(0..N_KEYS), self.rng.gen_range(0..4), self.rng.gen_range(1..14));
            self.send(s, k, v, "ok");
        }
        self.drain_sorted();
    }
}

impl Prop for C16 {
    fn gen(&mut self, opts: &Opts) -> Vec<Value> {
        let mut g = Gen { rng: opts.rng(), ops: vec![], next_id: 0, first: true };
        for i in 0..opts.n {
            g.start_case();
            // the first ten cases run every family once; afterwards weighted
            let f = if i < 12 { i } else if i % 16 == 13 { 11 } else {
                match g.rng.gen_range(0..100) {
                    0..=39 => 0,
                    40..=47 => 1,
                    48..=55 => 2,
                    56..=60 => 3,
                    61..=68 => 4,
                    69..=77 => 5,
                    78..=83 => 6,
                    84..=88 => 7,
                    89..=90 => 8,
                    91..=95 => 9,
                    _ => 10,
                }
            };
            let len = if opts.thorough { 40 } else { 12 };
            match f {
                0 => g.random(),
                1 => g.tie(),
                2 => g.flood_up(),
                3 => g.flood_down(),
                4 => g.kinds(),
                5 => g.badsig_case(),
                6 => g.order(),
                7 => g.big_views(),
                8 => g.empty(),
                9 => g.conc(false, len),
                11 => g.worlds(),
                _ => g.conc(true, len),
            }
        }
        g.ops
    }

    fn exec(&mut self, op: &Value, out: &mut Out) -> Value {
        if op["op"] == "case" {
            // a whole case as one op (replay of a monitor failure)
            self.sender = None;
            let steps = op["steps"].as_array().cloned().unwrap_or_default();
            let obs: Vec<Value> = steps.iter().map(|s| self.step(s, out)).collect();
            self.sender = None;
            return json!({"obs": obs});
        }
        if op["reset"].as_bool().unwrap_or(false) {
            out.count("cases");
        }
        self.step(op, out)
    }

    fn extra_stats(&self) -> Value {
        json!({"distinct_signed_messages": self.n_signed})
    }
}

fn main() {
    vharness::main_for(&mut C16::new());
}
