//! C19, second family: the REAL per-connection `get_block` task of `gossip::Network::run_stream` (`gossip/runner.rs`),
//! i.e. the consumer of `fetch::Queue::accept_block`.
//!
//! A real node runs in-process (`zksync_consensus_network::testonly::Instance`: TCP listener, gossip network, the
//! real `run_block_fetcher`, a real `EngineManager` over the in-memory engine with its persistence task). The harness
//! is a set of RAW gossip peers (`verif::fetch::raw_connect`: real preface + handshake with a valid node key, then a
//! bare mux) which announce block ranges (`push_block_store_state`) and answer the node's `get_block` calls however
//! the script says: the valid block, `None`, a block with another number, a block with the right number that does not
//! verify (payload not matching the certificate / certificate signed by too few validators / certificate of another
//! genesis), not at all until the rpc timeout, or by disconnecting.
//!
//! One operation line = environment actions (`do`), then the harness polls the node's real state (the fetch queue's
//! map, `queued()`, `persisted()`, the requests that reached the raw peers, the connections closed by the node) until
//! the SETTLED predicate holds or a deadline passes (never a fixed sleep as a verdict):
//!
//!   persisted = queued, every connection that must go down is down, no delivered valid block is left unqueued at the
//!   store's frontier, map ∪ {blocks held by a live peer} = the fetcher's window [queued, persisted + k) with map and
//!   held disjoint, and no live peer announces the lowest block of the map.
//!
//! Missing the deadline is a monitor failure (S): `request-lost`, `lost-wakeup`, `no-teardown-after-fault`, … with
//! the case's operation lines as the replay. Further monitors at every request that reaches a peer: the peer has
//! announced the block; nobody else holds it (unless that holder is on its way down); not asked twice.
//!
//! Actions: ["conn",p] ["ann",p,lo,hi] ["ans",p,n,kind] ["drop",p] ["timeout"]; block numbers are relative to the
//! genesis' first block. The requests observed during the step are written into the operation line (`trace`, sorted)
//! for the Lean model (`Driver/C19n.lean`), which accepts the step iff the composed model has an interleaving with
//! exactly these hand-overs ending in a quiescent state, and prints the snapshot to compare (K).
use std::{
    collections::{BTreeMap, BTreeSet},
    sync::{Arc, Mutex},
    time::{Duration, Instant},
};

use rand::{rngs::StdRng, seq::SliceRandom, Rng, SeedableRng};
use serde_json::{json, Value};
use vharness::{Opts, Out};
use zksync_concurrency::{ctx, limiter, scope, time};
use zksync_consensus_engine::{testonly::in_memory, BlockStoreState, EngineManager, Last};
use zksync_consensus_network::{
    testonly as nettest,
    verif::fetch::{node_current_blocks, node_gossip_inbound, raw_connect, GetBlockCall, RawPeer},
    Config, Network,
};
use zksync_consensus_roles::{
    node,
    validator::{self, testonly::Setup, testonly::SetupSpec, v2, Block, BlockNumber},
};

type Cancel = tokio::sync::oneshot::Sender<()>;

/// Blocks every case can use.
const NB: usize = 8;
/// Deadline of one settle (a lost request costs this much once per failing case).
const SETTLE: Duration = Duration::from_millis(6000);
/// After this many failing cases no further case is generated (a mutated tree must not run into the check's timeout).
const MAX_FAILED_CASES: usize = 3;

struct World {
    setup: Setup,
    first: u64,
    bad_payload: Vec<Block>,
    few_sig: Vec<Block>,
    wrong_gen: Vec<Block>,
}

fn world() -> World {
    let rng = &mut StdRng::seed_from_u64(0xC19);
    let mut setup = Setup::new_without_pregenesis(rng, 4);
    setup.push_blocks_v2(rng, NB);
    // same block numbers, another genesis (fork number and committee differ)
    let mut spec = SetupSpec::new_without_pregenesis(rng, 4);
    spec.first_block = setup.first_block();
    spec.first_pregenesis_block = spec.first_block;
    spec.fork_number = validator::ForkNumber(setup.genesis.fork_number.0 + 1);
    let mut other = Setup::from_spec(rng, spec);
    other.push_blocks_v2(rng, NB);
    let mut bad_payload = vec![];
    let mut few_sig = vec![];
    for b in &setup.blocks {
        let Block::FinalV2(fb) = b else { panic!("v2 block expected") };
        let mut x = fb.clone();
        x.payload = validator::Payload(rng.gen::<[u8; 32]>().to_vec());
        assert_eq!(Block::from(x.clone()).number(), b.number());
        bad_payload.push(x.into());
        let mut qc = v2::CommitQC::new(fb.justification.message.clone(), setup.validators_schedule());
        qc.add(
            &setup.validator_keys[0].sign_msg(qc.message.clone()),
            setup.genesis_hash(),
            setup.epoch,
            setup.validators_schedule(),
        )
        .unwrap();
        few_sig.push(v2::FinalBlock { payload: fb.payload.clone(), justification: qc }.into());
    }
    let wrong_gen = other.blocks.clone();
    for (a, b) in setup.blocks.iter().zip(&wrong_gen) {
        assert_eq!(a.number(), b.number());
    }
    let first = setup.first_block().0;
    World { setup, first, bad_payload, few_sig, wrong_gen }
}

enum Ev {
    Ask { p: u64, n: u64, call: GetBlockCall },
    Down { p: u64 },
}

struct Peer {
    conn: Arc<RawPeer>,
    stop: Option<Cancel>,
    /// the harness's view: connected and not known to be going down
    alive: bool,
    /// a fault was answered / a timeout is awaited: the node has to close this connection
    expect_down: bool,
    ann: Option<(u64, u64)>,
}

struct Case {
    manager: Arc<EngineManager>,
    _inst: nettest::Instance,
    net: Arc<Network>,
    cfg: Config,
    stop: Option<Cancel>,
    handles: Vec<tokio::task::JoinHandle<()>>,
    peers: BTreeMap<u64, Peer>,
    log: Arc<Mutex<Vec<Ev>>>,
    /// requests that reached a raw peer and are not answered
    outstanding: BTreeMap<(u64, u64), GetBlockCall>,
    /// answered with the valid block, block not queued yet (the node's task is inside `queue_block`)
    parked: BTreeSet<(u64, u64)>,
    k: u64,
    nblocks: u64,
    timeout_ms: Option<u64>,
    /// (old holder, new holder, block): a request reached `new` while `old` still held it
    suspects: Vec<(u64, u64, u64)>,
    ops: Vec<Value>,
    failed: bool,
    key_rng: StdRng,
}

struct View {
    qn: u64,
    pn: u64,
    map: Vec<u64>,
    held: BTreeSet<u64>,
}

impl Case {
    fn rel(&self, w: &World, n: BlockNumber) -> u64 {
        n.0.saturating_sub(w.first)
    }

    fn view(&self, w: &World) -> View {
        let qn = self.rel(w, self.manager.queued().next());
        let pn = self.rel(w, self.manager.persisted().next());
        let map = node_current_blocks(&self.net).into_iter().map(|n| n.saturating_sub(w.first)).collect();
        let held = self
            .outstanding
            .keys()
            .chain(self.parked.iter())
            .filter(|(p, _)| self.peers[p].alive)
            .map(|(_, n)| *n)
            .collect();
        View { qn, pn, map, held }
    }

    fn announces(&self, p: u64, n: u64) -> bool {
        self.peers[&p].ann.is_some_and(|(lo, hi)| lo <= n && n <= hi)
    }

    /// Why the node has not settled (empty: settled).
    fn unsettled_all(&self, w: &World) -> Vec<(&'static str, String)> {
        let v = self.view(w);
        let mut why = vec![];
        if let Some((p, _)) = self.peers.iter().find(|(_, x)| x.alive && x.expect_down) {
            why.push(("no-teardown-after-fault", format!("the node keeps the connection of peer {p} although its get_block call failed (empty / wrong / invalid block, or rpc timeout)")));
        }
        if let Some((p, n)) = self.parked.iter().find(|(p, n)| self.peers[p].alive && *n <= v.qn) {
            why.push(("valid-block-not-queued", format!("peer {p} delivered the valid block {n} and all its predecessors are queued, but the block does not get queued")));
        }
        if v.pn != v.qn {
            why.push(("not-persisted", format!("queued up to {} but persisted up to {}", v.qn, v.pn)));
        }
        let window: BTreeSet<u64> = (v.qn..v.pn + self.k).collect();
        let map: BTreeSet<u64> = v.map.iter().copied().collect();
        if let Some(n) = window.iter().find(|n| !map.contains(n) && !v.held.contains(n)) {
            why.push(("request-lost", format!("block {n} is not queued in the store and the fetcher has not given it up, but it is neither on offer in the fetch queue nor requested from any live peer that has not answered yet")));
        }
        if let Some(n) = map.iter().find(|n| v.held.contains(n)) {
            why.push(("in-map-and-held", format!("block {n} is on offer in the fetch queue and requested from a live peer at the same time")));
        }
        if let Some(n) = map.iter().chain(v.held.iter()).find(|n| !window.contains(n)) {
            why.push(("stale-request", format!("block {n} is requested although it is outside the fetcher's window {}..{}", v.qn, v.pn + self.k)));
        }
        if let Some(min) = v.map.first() {
            if let Some((p, _)) = self.peers.iter().find(|(p, x)| x.alive && !x.expect_down && self.announces(**p, *min)) {
                why.push(("lost-wakeup", format!("block {min} is the lowest block on offer and live peer {p} has announced it, but it is not requested from it")));
            }
        }
        why
    }

    /// The reason reported when the deadline passes: one that contradicts the property, if there is one.
    fn unsettled(&self, w: &World) -> Option<(&'static str, String)> {
        let why = self.unsettled_all(w);
        why.iter().find(|(s, _)| property_level(s)).cloned().or(why.into_iter().next())
    }

    /// Processes what the raw peers saw. Returns the requests that arrived (peer, block).
    fn drain(&mut self, w: &World, out: &mut Out, asks: &mut Vec<(u64, u64)>, late: &mut Vec<u64>) {
        let evs: Vec<Ev> = std::mem::take(&mut *self.log.lock().unwrap());
        for e in evs {
            match e {
                Ev::Ask { p, n, call } => {
                    let n = n.saturating_sub(w.first);
                    if !self.peers[&p].alive {
                        // sent on a connection that is going down: reaches nobody
                        out.count("ask_on_dead_connection");
                        continue;
                    }
                    out.count("ev:ask");
                    asks.push((p, n));
                    let input = json!({"p": p, "n": n});
                    if !self.announces(p, n) {
                        out.oracle_fail_ops("ask-not-announced", "a block was requested from a peer that has not announced it", input.clone(), &self.ops);
                    }
                    if self.outstanding.contains_key(&(p, n)) || self.parked.contains(&(p, n)) {
                        out.oracle_fail_ops("double-ask", "a block was requested twice from the same connection", input.clone(), &self.ops);
                    }
                    let others: Vec<u64> = self
                        .outstanding
                        .keys()
                        .chain(self.parked.iter())
                        .filter(|(q, m)| *m == n && *q != p && self.peers[q].alive)
                        .map(|(q, _)| *q)
                        .collect();
                    for q in others {
                        self.suspects.push((q, p, n));
                    }
                    self.outstanding.insert((p, n), call);
                }
                Ev::Down { p } => {
                    let holds = self.outstanding.keys().chain(self.parked.iter()).any(|(q, _)| *q == p);
                    let peer = self.peers.get_mut(&p).unwrap();
                    if !peer.alive {
                        continue;
                    }
                    out.count("ev:down");
                    if !peer.expect_down {
                        if self.timeout_ms.is_some() && holds {
                            // the rpc timeout of a call the script meant to answer later: an environment event
                            out.count("spurious_timeout");
                            late.push(p);
                        } else {
                            // not what C19 forbids; the model's `live` list will disagree
                            out.count("unexpected_teardown");
                        }
                    }
                    peer.alive = false;
                    peer.expect_down = false;
                    self.outstanding.retain(|(q, _), _| *q != p);
                    self.parked.retain(|(q, _)| *q != p);
                }
            }
        }
        let qn = self.rel(w, self.manager.queued().next());
        self.parked.retain(|(_, n)| *n >= qn);
    }

    async fn settle(&mut self, w: &World, out: &mut Out, dur: Duration, asks: &mut Vec<(u64, u64)>, late: &mut Vec<u64>) -> Result<(), (&'static str, String)> {
        let deadline = Instant::now() + dur;
        loop {
            self.drain(w, out, asks, late);
            match self.unsettled(w) {
                None => {
                    // confirm: let every ready task run, look again
                    for _ in 0..8 {
                        tokio::task::yield_now().await;
                    }
                    tokio::time::sleep(Duration::from_millis(2)).await;
                    let before = asks.len();
                    self.drain(w, out, asks, late);
                    if asks.len() == before && self.unsettled(w).is_none() {
                        break;
                    }
                }
                Some(why) => {
                    if Instant::now() > deadline {
                        return Err(why);
                    }
                    tokio::time::sleep(Duration::from_millis(1)).await;
                }
            }
        }
        for (q, p, n) in std::mem::take(&mut self.suspects) {
            if self.peers[&q].alive {
                out.oracle_fail_ops("double-handover", "a block was requested from a second peer while the first one still holds the request",
                    json!({"first": q, "second": p, "n": n}), &self.ops);
            }
        }
        Ok(())
    }

    fn valid(&self, acts: &[Value]) -> bool {
        let mut conns: BTreeSet<u64> = self.peers.keys().copied().collect();
        let mut alive: BTreeSet<u64> = self.peers.iter().filter(|(_, x)| x.alive).map(|(p, _)| *p).collect();
        let mut out: BTreeSet<(u64, u64)> = self.outstanding.keys().copied().collect();
        for a in acts {
            let Some(arr) = a.as_array() else { return false };
            let kind = arr.first().and_then(|x| x.as_str()).unwrap_or("");
            let arg = |i: usize| arr.get(i).and_then(|x| x.as_u64());
            match (kind, arr.len()) {
                ("conn", 2) => {
                    let Some(p) = arg(1) else { return false };
                    if !conns.insert(p) {
                        return false;
                    }
                    alive.insert(p);
                }
                ("ann", 4) => {
                    let (Some(p), Some(lo), Some(hi)) = (arg(1), arg(2), arg(3)) else { return false };
                    if !alive.contains(&p) || lo > hi || hi >= NB as u64 {
                        return false;
                    }
                }
                ("ans", 4) => {
                    let (Some(p), Some(n), Some(k)) = (arg(1), arg(2), arr[3].as_str()) else { return false };
                    if !alive.contains(&p) || !out.remove(&(p, n)) {
                        return false;
                    }
                    match k {
                        "ok" | "none" | "badpayload" | "fewsig" | "wronggen" => {}
                        "wrong+" if n + 1 < NB as u64 => {}
                        "wrong-" if n > 0 => {}
                        _ => return false,
                    }
                    if k != "ok" {
                        alive.remove(&p);
                        out.retain(|(q, _)| *q != p);
                    }
                }
                ("drop", 2) => {
                    let Some(p) = arg(1) else { return false };
                    if !alive.remove(&p) {
                        return false;
                    }
                    out.retain(|(q, _)| *q != p);
                }
                ("timeout", 1) => {
                    if self.timeout_ms.is_none() {
                        return false;
                    }
                }
                _ => return false,
            }
        }
        true
    }

    async fn connect(&mut self, root: &Arc<ctx::Ctx>, w: &World, p: u64) -> anyhow::Result<()> {
        let key: node::SecretKey = self.key_rng.gen();
        let deadline = Instant::now() + Duration::from_secs(10);
        let (conn, runner) = loop {
            match raw_connect(root, &self.cfg, w.setup.genesis_hash(), key.clone()).await {
                Ok(x) => break x,
                Err(e) => {
                    if Instant::now() > deadline {
                        return Err(e.context("raw_connect"));
                    }
                    tokio::time::sleep(Duration::from_millis(5)).await;
                }
            }
        };
        let conn = Arc::new(conn);
        let (stop, stop_rx) = tokio::sync::oneshot::channel::<()>();
        let (root2, log, conn2) = (root.clone(), self.log.clone(), conn.clone());
        self.handles.push(tokio::spawn(async move {
            let _: Result<(), ctx::Canceled> = scope::run!(&*root2, |ctx, s| async {
                s.spawn_bg::<()>(async {
                    let _ = ctx.wait(stop_rx).await;
                    Err(ctx::Canceled)
                });
                s.spawn_bg::<()>(async {
                    // returns when the node closes the connection (or the scope is cancelled)
                    let _ = runner.run(ctx).await;
                    log.lock().unwrap().push(Ev::Down { p });
                    Err(ctx::Canceled)
                });
                while let Ok(call) = conn2.next_get_block(ctx).await {
                    let n = call.number.0;
                    log.lock().unwrap().push(Ev::Ask { p, n, call });
                }
                Ok(())
            })
            .await;
        }));
        self.peers.insert(p, Peer { conn, stop: Some(stop), alive: true, expect_down: false, ann: None });
        // the node has registered the connection
        let pk = key.public();
        while !node_gossip_inbound(&self.net).contains(&pk) {
            if Instant::now() > deadline {
                anyhow::bail!("the node did not register the inbound connection");
            }
            tokio::time::sleep(Duration::from_millis(1)).await;
        }
        Ok(())
    }

    async fn apply(&mut self, root: &Arc<ctx::Ctx>, w: &World, a: &Value, out: &mut Out) -> anyhow::Result<()> {
        let arr = a.as_array().unwrap();
        let kind = arr[0].as_str().unwrap();
        let arg = |i: usize| arr[i].as_u64().unwrap();
        let cx = &root.with_timeout(time::Duration::seconds(10));
        match kind {
            "conn" => {
                out.count("act:conn");
                self.connect(root, w, arg(1)).await?;
            }
            "ann" => {
                out.count("act:ann");
                let (p, lo, hi) = (arg(1), arg(2), arg(3));
                let state = BlockStoreState {
                    first: BlockNumber(w.first + lo),
                    last: Some(Last::from(&w.setup.blocks[hi as usize])),
                };
                let conn = self.peers[&p].conn.clone();
                conn.announce(cx, state).await?;
                self.peers.get_mut(&p).unwrap().ann = Some((lo, hi));
            }
            "ans" => {
                let (p, n, k) = (arg(1), arg(2), arr[3].as_str().unwrap());
                out.count(&format!("act:ans:{k}"));
                let call = self.outstanding.remove(&(p, n)).unwrap();
                let i = n as usize;
                let block = match k {
                    "ok" => Some(w.setup.blocks[i].clone()),
                    "none" => None,
                    "badpayload" => Some(w.bad_payload[i].clone()),
                    "fewsig" => Some(w.few_sig[i].clone()),
                    "wronggen" => Some(w.wrong_gen[i].clone()),
                    "wrong+" => Some(w.setup.blocks[i + 1].clone()),
                    "wrong-" => Some(w.setup.blocks[i - 1].clone()),
                    _ => unreachable!(),
                };
                call.respond(cx, block).await?;
                if k == "ok" {
                    self.parked.insert((p, n));
                    if self.outstanding.keys().chain(self.parked.iter()).any(|(q, m)| *q != p && *m < n && self.peers[q].alive) {
                        out.count("delivered_out_of_order");
                    }
                } else {
                    self.peers.get_mut(&p).unwrap().expect_down = true;
                }
            }
            "drop" => {
                out.count("act:drop");
                let p = arg(1);
                if self.parked.iter().any(|(q, _)| *q == p) {
                    out.count("drop_while_parked_in_queue_block");
                }
                if self.outstanding.keys().any(|(q, _)| *q == p) {
                    out.count("drop_before_answering");
                }
                let peer = self.peers.get_mut(&p).unwrap();
                if let Some(c) = peer.stop.take() {
                    let _ = c.send(());
                }
                peer.alive = false;
                self.outstanding.retain(|(q, _), _| *q != p);
                self.parked.retain(|(q, _)| *q != p);
            }
            "timeout" => {
                out.count("act:timeout");
                let holders: BTreeSet<u64> = self
                    .outstanding
                    .keys()
                    .chain(self.parked.iter())
                    .filter(|(p, _)| self.peers[p].alive)
                    .map(|(p, _)| *p)
                    .collect();
                if self.parked.iter().any(|(p, _)| self.peers[p].alive) {
                    out.count("timeout_while_parked_in_queue_block");
                }
                for p in holders {
                    self.peers.get_mut(&p).unwrap().expect_down = true;
                }
            }
            _ => unreachable!(),
        }
        Ok(())
    }

    fn snapshot(&self, w: &World, asks: &[(u64, u64)]) -> Value {
        let v = self.view(w);
        let mut ev: Vec<(u64, u64)> = asks.to_vec();
        ev.sort();
        let held: BTreeSet<(u64, u64)> = self
            .outstanding
            .keys()
            .chain(self.parked.iter())
            .filter(|(p, _)| self.peers[p].alive)
            .copied()
            .collect();
        let parked: Vec<&(u64, u64)> = self.parked.iter().filter(|(p, _)| self.peers[p].alive).collect();
        let live: Vec<u64> = self.peers.iter().filter(|(_, x)| x.alive).map(|(p, _)| *p).collect();
        json!({"ev": ev, "blocks": v.map, "held": held, "parked": parked, "queued": v.qn, "live": live})
    }

    async fn teardown(mut self) {
        for (_, p) in self.peers.iter_mut() {
            if let Some(c) = p.stop.take() {
                let _ = c.send(());
            }
        }
        self.outstanding.clear();
        if let Some(c) = self.stop.take() {
            let _ = c.send(());
        }
        for h in std::mem::take(&mut self.handles) {
            let _ = h.await;
        }
    }
}

/// Which ways of not settling contradict the property itself (the others only contradict the model: the connection
/// of a misbehaving peer is kept, a delivered block is not queued, the engine does not persist).
fn property_level(site: &str) -> bool {
    matches!(site, "request-lost" | "lost-wakeup" | "in-map-and-held" | "stale-request")
}

struct Harness {
    rt: tokio::runtime::Runtime,
    root: Arc<ctx::Ctx>,
    w: World,
    case: Option<Case>,
    n_case: u64,
    failed_cases: usize,
}

impl Harness {
    fn new() -> Self {
        let rt = tokio::runtime::Builder::new_current_thread().enable_all().build().unwrap();
        let root = Arc::new(ctx::test_root(&ctx::RealClock));
        Harness { rt, root, w: world(), case: None, n_case: 0, failed_cases: 0 }
    }

    async fn init(root: &Arc<ctx::Ctx>, w: &World, op: &Value, n_case: u64) -> anyhow::Result<Case> {
        let k = op["k"].as_u64().unwrap_or(2).clamp(1, 4);
        let nblocks = op["blocks"].as_u64().unwrap_or(4).clamp(1, NB as u64);
        let timeout_ms = op["timeout_ms"].as_u64();
        let rng = &mut StdRng::seed_from_u64(0x19_0000 + n_case);
        let mut cfg = nettest::new_configs_for_validators(rng, w.setup.validator_keys.iter().take(1), 0)[0].clone();
        cfg.rpc.push_block_store_state_rate = limiter::Rate::INF;
        cfg.rpc.get_block_rate = limiter::Rate::INF;
        cfg.rpc.get_block_timeout = timeout_ms.map(|t| time::Duration::milliseconds(t as i64));
        cfg.validator_key = None;
        cfg.max_block_queue_size = k as usize;
        let engine = in_memory::Engine::new_random(&w.setup, w.setup.first_block());
        let (manager, erunner) = EngineManager::new(root, Box::new(engine), time::Duration::seconds(3600)).await?;
        let (inst, nrunner) = nettest::Instance::new(cfg.clone(), manager.clone());
        let net = inst.net.clone();
        let (stop, stop_rx) = tokio::sync::oneshot::channel::<()>();
        let root2 = root.clone();
        let handle = tokio::spawn(async move {
            let _: Result<(), ctx::Canceled> = scope::run!(&*root2, |ctx, s| async {
                s.spawn_bg(async {
                    let _ = erunner.run(ctx).await;
                    Ok(())
                });
                s.spawn_bg(async {
                    let _ = nrunner.run(ctx).await;
                    Ok(())
                });
                let _ = ctx.wait(stop_rx).await;
                Err(ctx::Canceled)
            })
            .await;
        });
        Ok(Case {
            manager,
            _inst: inst,
            net,
            cfg,
            stop: Some(stop),
            handles: vec![handle],
            peers: BTreeMap::new(),
            log: Arc::new(Mutex::new(vec![])),
            outstanding: BTreeMap::new(),
            parked: BTreeSet::new(),
            k,
            nblocks,
            timeout_ms,
            suspects: vec![],
            ops: vec![],
            failed: false,
            key_rng: StdRng::seed_from_u64(0x19_5555 + n_case),
        })
    }

    /// Executes one op; returns the op as written to `ops.jsonl` (with the observed requests) and the observation.
    fn exec(&mut self, op: &Value, out: &mut Out) -> (Value, Value) {
        let mut op = op.clone();
        let kind = op["op"].as_str().unwrap_or("").to_string();
        let Harness { rt, root, w, case, n_case, failed_cases } = self;
        match kind.as_str() {
            "ninit" => {
                if let Some(c) = case.take() {
                    rt.block_on(c.teardown());
                }
                *n_case += 1;
                out.count("case");
                if let Some(f) = op["family"].as_str() {
                    out.count(&format!("family:{f}"));
                }
                let r: anyhow::Result<(Case, Value)> = rt.block_on(async {
                    let mut c = Self::init(root, w, &op, *n_case).await?;
                    c.ops.push(op.clone());
                    let (mut asks, mut late) = (vec![], vec![]);
                    let obs = match c.settle(w, out, SETTLE, &mut asks, &mut late).await {
                        Ok(()) => {
                            let mut o = c.snapshot(w, &asks);
                            o["init"] = json!(true);
                            o["class"] = json!("init");
                            o
                        }
                        Err((site, what)) => {
                            if property_level(site) {
                                out.oracle_fail_ops(site, &what, json!({"at": "init"}), &c.ops);
                            } else {
                                out.count(&format!("unsettled:{site}"));
                            }
                            c.failed = true;
                            json!({"init": true, "settle_failed": site, "_what": what, "class": "failed"})
                        }
                    };
                    Ok((c, obs))
                });
                match r {
                    Ok((c, obs)) => {
                        if c.failed {
                            *failed_cases += 1;
                        }
                        *case = Some(c);
                        (op, obs)
                    }
                    Err(e) => {
                        eprintln!("harness error in ninit: {e:#}");
                        (op, json!({"harness_error": format!("{e:#}"), "class": "error"}))
                    }
                }
            }
            "nstep" => {
                let Some(c) = case.as_mut() else { return (op, json!({"bad": true, "class": "bad"})) };
                let acts: Vec<Value> = op["do"].as_array().cloned().unwrap_or_default();
                op.as_object_mut().unwrap().remove("trace");
                op.as_object_mut().unwrap().remove("late");
                if c.failed || !c.valid(&acts) {
                    out.count("bad_step");
                    c.ops.push(op.clone());
                    return (op, json!({"bad": true, "class": "bad"}));
                }
                c.ops.push(op.clone());
                let r: anyhow::Result<(Value, Vec<(u64, u64)>, Vec<u64>)> = rt.block_on(async {
                    for a in &acts {
                        c.apply(root, w, a, out).await?;
                    }
                    let dur = if acts.iter().any(|a| a[0] == "timeout") {
                        SETTLE + Duration::from_millis(c.timeout_ms.unwrap_or(0))
                    } else {
                        SETTLE
                    };
                    let (mut asks, mut late) = (vec![], vec![]);
                    let obs = match c.settle(w, out, dur, &mut asks, &mut late).await {
                        Ok(()) => {
                            let mut o = c.snapshot(w, &asks);
                            o["step"] = json!(true);
                            o["class"] = json!(if asks.is_empty() { "quiet" } else { "asks" });
                            o
                        }
                        Err((site, what)) => {
                            let v = c.view(w);
                            if property_level(site) {
                                out.oracle_fail_ops(site, &what,
                                    json!({"step": op, "queued": v.qn, "persisted": v.pn, "blocks_on_offer": v.map, "held": v.held}), &c.ops);
                            } else {
                                // not what C19 forbids (the request is still held by a live connection): left to the
                                // comparison with the model, which does not produce `settle_failed`
                                out.count(&format!("unsettled:{site}"));
                            }
                            c.failed = true;
                            json!({"step": true, "settle_failed": site, "_what": what, "class": "failed"})
                        }
                    };
                    asks.sort();
                    Ok((obs, asks, late))
                });
                match r {
                    Ok((obs, asks, late)) => {
                        op["trace"] = json!(asks);
                        if !late.is_empty() {
                            op["late"] = json!(late);
                        }
                        *c.ops.last_mut().unwrap() = op.clone();
                        if c.failed {
                            *failed_cases += 1;
                        }
                        (op, obs)
                    }
                    Err(e) => {
                        eprintln!("harness error in nstep: {e:#}");
                        c.failed = true;
                        (op, json!({"harness_error": format!("{e:#}"), "class": "error"}))
                    }
                }
            }
            _ => (op, json!({"bad": true, "class": "bad"})),
        }
    }
}

// ---------------------------------------------------------------------------------------------------------------
// generator (adaptive: it looks at which requests reached which peer)

fn ninit(family: &str, k: u64, blocks: u64, timeout_ms: Option<u64>) -> Value {
    let mut v = json!({"op": "ninit", "reset": true, "family": family, "k": k, "blocks": blocks});
    if let Some(t) = timeout_ms {
        v["timeout_ms"] = json!(t);
    }
    v
}

fn st(a: Value) -> Value {
    json!({"op": "nstep", "do": [a]})
}

const FAULTS: [&str; 6] = ["none", "wrong+", "wrong-", "badpayload", "fewsig", "wronggen"];

/// Directed scenarios: `Vec` of steps; an `ans` whose request did not reach that peer is refused by both sides.
fn directed(kind: usize, var: u64) -> (Value, Vec<Value>) {
    let t = 1200u64;
    match kind {
        // one per faulty answer (the peer announces 0..1, k = 2, is asked for 0 and 1; the answer to `which` is faulty):
        // the connection goes down, both requests come back and go to the second peer
        0..=5 => {
            let f = FAULTS[kind];
            let which = if f == "wrong-" { 1 } else { var % 2 };
            (ninit(&format!("fault:{f}"), 2, 3, None), vec![
                st(json!(["conn", 0])), st(json!(["ann", 0, 0, 1])),
                st(json!(["conn", 1])), st(json!(["ann", 1, 0, 2])),
                st(json!(["ans", 0, which, f])),
            ])
        }
        // invalid block with the right number while another peer waits with the next block parked in queue_block
        6..=8 => {
            let f = ["badpayload", "fewsig", "wronggen"][kind - 6];
            (ninit(&format!("fault-before-parked:{f}"), 2, 3, None), vec![
                st(json!(["conn", 0])), st(json!(["ann", 0, 0, 0])),
                st(json!(["conn", 1])), st(json!(["ann", 1, 0, 1])),
                st(json!(["ans", 1, 1, "ok"])),
                st(json!(["ans", 0, 0, f])),
                st(json!(["ans", 1, 0, "ok"])),
            ])
        }
        // disconnect before answering
        9 => (ninit("drop-before-answer", 2, 3, None), vec![
            st(json!(["conn", 0])), st(json!(["ann", 0, 0, 1])),
            st(json!(["drop", 0])),
            st(json!(["conn", 1])), st(json!(["ann", 1, 0, 2])),
        ]),
        // out of order + disconnect while parked in queue_block (the seeded scenario with honest data only)
        10 => (ninit("drop-while-parked", 2, 2 + var % 2, None), vec![
            st(json!(["conn", 0])), st(json!(["ann", 0, 0, 0])),
            st(json!(["conn", 1])), st(json!(["ann", 1, 0, 1])),
            st(json!(["ans", 1, 1, "ok"])),
            st(json!(["drop", 1])),
            st(json!(["conn", 2])), st(json!(["ann", 2, 0, 1])),
            st(json!(["ans", 2, 1, "ok"])),
            st(json!(["ans", 0, 0, "ok"])),
        ]),
        // no answer until the rpc timeout
        11 => (ninit("timeout-in-rpc", 2, 3, Some(t)), vec![
            st(json!(["conn", 0])), st(json!(["ann", 0, 0, 0])),
            st(json!(["timeout"])),
            st(json!(["conn", 1])), st(json!(["ann", 1, 0, 2])),
        ]),
        // the rpc timeout fires while the task is parked in queue_block (and the predecessor's holder times out too)
        // (peer 1 announces block 1 only: after peer 0 timed out it is not asked for block 0, so its connection goes
        // down only if the timeout really covers `queue_block`)
        12 => (ninit("timeout-while-parked", 2, 3, Some(t)), vec![
            st(json!(["conn", 0])), st(json!(["ann", 0, 0, 0])),
            st(json!(["conn", 1])), st(json!(["ann", 1, 1, 1])),
            st(json!(["ans", 1, 1, "ok"])),
            st(json!(["timeout"])),
            st(json!(["conn", 2])), st(json!(["ann", 2, 0, 2])),
        ]),
        // three peers announce the same block; the holder fails; exactly one of the other two gets the request
        13 => (ninit("race-after-failure", 1, 2, None), vec![
            st(json!(["conn", 0])), st(json!(["ann", 0, 0, 0])),
            st(json!(["conn", 1])), st(json!(["ann", 1, 0, 0])),
            st(json!(["conn", 2])), st(json!(["ann", 2, 0, 0])),
            st(json!(["ans", 0, 0, FAULTS[(var % 6) as usize].replace("wrong-", "none")])),
        ]),
        // announcements that do not cover the lowest missing block: nothing may be requested; then they do
        14 => (ninit("only-announced", 3, 4, None), vec![
            st(json!(["conn", 0])), st(json!(["ann", 0, 1, 3])),
            st(json!(["conn", 1])), st(json!(["ann", 1, 2, 2])),
            st(json!(["ann", 1, 0, 0])),
            st(json!(["ans", 1, 0, "ok"])),
        ]),
        // in-order and out-of-order valid deliveries over three peers with partial ranges
        _ => (ninit("valid-out-of-order", 3, 5, None), vec![
            st(json!(["conn", 0])), st(json!(["ann", 0, 0, 0])),
            st(json!(["conn", 1])), st(json!(["ann", 1, 0, 1])),
            st(json!(["conn", 2])), st(json!(["ann", 2, 0, 4])),
            st(json!(["ans", 2, 2, "ok"])),
            st(json!(["ans", 1, 1, "ok"])),
            st(json!(["ans", 0, 0, "ok"])),
        ]),
    }
}
const N_DIRECTED: usize = 16;

fn random_step(c: &Case, rng: &mut StdRng, max_peers: u64, next_id: &mut u64) -> Value {
    let live: Vec<u64> = c.peers.iter().filter(|(_, x)| x.alive).map(|(p, _)| *p).collect();
    let outst: Vec<(u64, u64)> = c.outstanding.keys().copied().filter(|(p, _)| c.peers[p].alive).collect();
    let hi_max = c.nblocks - 1;
    for _ in 0..30 {
        let r = rng.gen_range(0..100);
        if r < 18 {
            if (live.len() as u64) < max_peers && *next_id < 7 {
                let p = *next_id;
                *next_id += 1;
                return json!(["conn", p]);
            }
        } else if r < 45 {
            if let Some(p) = live.choose(rng) {
                let (lo, hi) = match rng.gen_range(0..4) {
                    0 => (0, hi_max),
                    1 => {
                        let lo = rng.gen_range(0..=hi_max);
                        (lo, rng.gen_range(lo..=hi_max))
                    }
                    _ => {
                        let hi = rng.gen_range(0..=hi_max);
                        (rng.gen_range(0..=hi.min(1)), hi)
                    }
                };
                return json!(["ann", p, lo, hi]);
            }
        } else if r < 90 {
            if let Some((p, n)) = outst.choose(rng) {
                let k = match rng.gen_range(0..100) {
                    0..=54 => "ok",
                    55..=63 => "none",
                    64..=70 => "wrong+",
                    71..=76 => "wrong-",
                    77..=85 => "badpayload",
                    86..=92 => "fewsig",
                    _ => "wronggen",
                };
                let k = if (k == "wrong-" && *n == 0) || (k == "wrong+" && *n + 1 >= NB as u64) { "none" } else { k };
                return json!(["ans", p, n, k]);
            }
        } else if let Some(p) = live.choose(rng) {
            return json!(["drop", p]);
        }
    }
    let p = *next_id;
    *next_id += 1;
    json!(["conn", p])
}

fn run(opts: &Opts) -> anyhow::Result<()> {
    let mut out = Out::new(opts)?;
    let mut h = Harness::new();
    let emit = |h: &mut Harness, out: &mut Out, op: &Value| {
        let (op2, obs) = h.exec(op, out);
        out.emit(op2, obs);
    };
    // every case ends with an honest peer: all blocks of the case must get persisted
    let finish = |h: &mut Harness, out: &mut Out, hp: u64| {
        if h.case.as_ref().is_none_or(|c| c.failed) {
            return;
        }
        let nb = h.case.as_ref().unwrap().nblocks;
        emit(h, out, &st(json!(["conn", hp])));
        emit(h, out, &st(json!(["ann", hp, 0, nb - 1])));
        for _ in 0..(2 * NB + 4) {
            let c = h.case.as_ref().unwrap();
            if c.failed {
                return;
            }
            let v = c.view(&h.w);
            if v.qn >= nb {
                break;
            }
            // the lowest request that reached a live peer and is not answered yet
            let Some((p, n)) = c.outstanding.keys().copied().filter(|(p, n)| c.peers[p].alive && *n < nb).min_by_key(|(_, n)| *n) else {
                break;
            };
            emit(h, out, &st(json!(["ans", p, n, "ok"])));
        }
        let c = h.case.as_mut().unwrap();
        if c.failed {
            return;
        }
        let v = c.view(&h.w);
        if v.pn < nb {
            out.oracle_fail_ops("not-all-persisted", "an honest peer that has announced all blocks is connected and has answered every request it got, but not all blocks got stored",
                json!({"persisted": v.pn, "blocks": nb}), &c.ops);
            c.failed = true;
            h.failed_cases += 1;
        } else {
            out.count("case:all_persisted");
        }
    };
    if let Some(path) = &opts.replay {
        let v: Value = serde_json::from_slice(&std::fs::read(path)?)?;
        for op in v["ops"].as_array().cloned().unwrap_or_default() {
            emit(&mut h, &mut out, &op);
        }
    } else {
        let mut rng = opts.rng();
        let reps = if opts.thorough { 6 } else { 1 };
        'gen: {
            for rep in 0..reps {
                for k in 0..N_DIRECTED {
                    if h.failed_cases >= MAX_FAILED_CASES {
                        break 'gen;
                    }
                    let (init, steps) = directed(k, rng.gen_range(0..12) + rep);
                    emit(&mut h, &mut out, &init);
                    for s in steps {
                        emit(&mut h, &mut out, &s);
                    }
                    finish(&mut h, &mut out, 9);
                }
            }
            for _ in 0..opts.n {
                if h.failed_cases >= MAX_FAILED_CASES {
                    break 'gen;
                }
                let k = rng.gen_range(1..=3u64);
                let blocks = rng.gen_range(3..=6u64);
                let max_peers = rng.gen_range(2..=4u64);
                emit(&mut h, &mut out, &ninit("random", k, blocks, None));
                let mut next_id = 0u64;
                emit(&mut h, &mut out, &st(json!(["conn", 0])));
                next_id += 1;
                for _ in 0..rng.gen_range(6..=16) {
                    let c = h.case.as_ref().unwrap();
                    if c.failed {
                        break;
                    }
                    let a = random_step(c, &mut rng, max_peers, &mut next_id);
                    emit(&mut h, &mut out, &st(a));
                }
                finish(&mut h, &mut out, 9);
            }
        }
    }
    if let Some(c) = h.case.take() {
        h.rt.block_on(c.teardown());
    }
    out.finish(json!({"failed_cases": h.failed_cases}))
}

fn main() {
    let args: Vec<String> = std::env::args().collect();
    let opts = Opts::parse(&args[1..]);
    std::panic::set_hook(Box::new(|info| {
        let site = vharness::panic_site(info);
        eprintln!("harness panic: {site}");
        vharness::LAST_PANIC.with(|p| *p.borrow_mut() = Some(site));
    }));
    if let Err(e) = run(&opts) {
        eprintln!("harness error: {e:#}");
        std::process::exit(3);
    }
    std::process::exit(0);
}
