//! C11: leader election (`validator::Schedule::{new, view_leader}`) — total, deterministic, eligible-only.
//!
//! Every op line is self-contained (it carries the whole schedule), so any single line is a replay:
//!   {"op":"new",    "vals":[[id,weight,leader]..], "mode":"rr"|"w", "freq":n}
//!   {"op":"leader", ..schedule.., "view":v, "hs":[[turn,"<decimal keccak256(turn.to_be_bytes())>"]..]}
//!   {"op":"scan",   ..schedule.., "start":v, "count":c, "hs":[..]}      views start..start+c-1 (clipped at u64::MAX)
//! `id` is the rank of the validator's BLS public key in the `Ord` order of a fixed pool of keys, so `<` on ids is
//! the order the `BTreeMap` inside `Schedule::new` uses. `hs` is the real Keccak-256 (computed here, independently
//! of `view_leader`, through `zksync_consensus_crypto::keccak256`) of every turn the view(s) can map to: it is the
//! hash function `H` of the Lean model on the points it queries.
//!
//! Observations (each also carries "class": new | leader_rr | leader_weighted | scan_rr | scan_weighted | rejected):
//!               new → {"ok":true,"vec":[ids],"leaders":[positions],"total":n} | {"ok":false}
//!               leader → {"ok":true,"leader":id} | {"ok":false} | {"panic":site}
//!               scan → {"ok":true,"leaders":[ids]} | {"ok":false} | {"panic":site}
//!
//! Monitors on the implementation alone (S): no panic; the leader is a validator of the schedule marked eligible;
//! it equals an independent specification (eligible validators in key order; `turn mod #eligible`, resp. the weight
//! interval containing `keccak(turn) mod Σ eligible weights`); the schedule value and the leader are the same for
//! other listings of the same validators; `Schedule::new` accepts exactly the valid lists, stores them sorted;
//! round-robin scans are constant on blocks of `frequency` views, have period `#eligible·frequency` and visit every
//! eligible validator; frequency 0 never rotates; weighted scans hit each validator exactly as often as the real
//! hash residues fall into its weight interval.
use std::collections::{BTreeMap, BTreeSet};

use num_bigint::BigUint;
use rand::{rngs::StdRng, seq::SliceRandom, Rng, SeedableRng};
use serde_json::{json, Value};
use vharness::{catch, Opts, Out, Prop};
use zksync_consensus_crypto::keccak256::Keccak256;
use zksync_consensus_roles::validator::{
    self, LeaderSelection, LeaderSelectionMode, Schedule, ValidatorInfo, ViewNumber,
};

const NKEYS: usize = 16;

/// Keccak-256 of the 8 big-endian bytes of `turn`, as an integer.
fn keccak(turn: u64) -> BigUint {
    BigUint::from_bytes_be(Keccak256::new(&turn.to_be_bytes()).as_bytes())
}

/// `view / frequency`, 0 for frequency 0 ("never rotates") — the harness' own arithmetic, not the code's.
fn turn_of(view: u64, freq: u64) -> u64 {
    if freq == 0 {
        0
    } else {
        view / freq
    }
}

#[derive(Clone, Debug)]
struct Sched {
    vals: Vec<(usize, u64, bool)>,
    weighted: bool,
    freq: u64,
}

impl Sched {
    fn json(&self) -> Value {
        json!({
            "vals": self.vals.iter().map(|v| json!([v.0, v.1, v.2])).collect::<Vec<_>>(),
            "mode": if self.weighted { "w" } else { "rr" },
            "freq": self.freq,
        })
    }
    fn parse(op: &Value) -> Self {
        let vals = op["vals"]
            .as_array()
            .expect("vals")
            .iter()
            .map(|v| (v[0].as_u64().expect("id") as usize, v[1].as_u64().expect("weight"), v[2].as_bool().expect("leader")))
            .collect();
        Sched { vals, weighted: op["mode"].as_str().expect("mode") == "w", freq: op["freq"].as_u64().expect("freq") }
    }
    /// what `Schedule::new` is specified to accept
    fn valid(&self) -> bool {
        let ids: BTreeSet<usize> = self.vals.iter().map(|v| v.0).collect();
        let sum: u128 = self.vals.iter().map(|v| v.1 as u128).sum();
        ids.len() == self.vals.len()
            && self.vals.iter().all(|v| v.1 > 0)
            && sum <= u64::MAX as u128
            && !self.vals.is_empty()
            && self.vals.iter().any(|v| v.2)
    }
    /// eligible validators in key order: (id, weight)
    fn eligible(&self) -> Vec<(usize, u64)> {
        let mut e: Vec<(usize, u64)> = self.vals.iter().filter(|v| v.2).map(|v| (v.0, v.1)).collect();
        e.sort();
        e
    }
    /// independent specification of the leader of `view` (for a valid schedule)
    fn spec_leader(&self, view: u64) -> Option<usize> {
        let e = self.eligible();
        if e.is_empty() {
            return None;
        }
        let t = turn_of(view, self.freq);
        if !self.weighted {
            return Some(e[(t as u128 % e.len() as u128) as usize].0);
        }
        let w: u128 = e.iter().map(|x| x.1 as u128).sum();
        let r = keccak(t) % BigUint::from(w);
        let r: u128 = r.to_u64_digits().iter().rev().fold(0u128, |a, d| (a << 64) | *d as u128);
        let mut acc = 0u128;
        for (id, wt) in e {
            acc += wt as u128;
            if r < acc {
                return Some(id);
            }
        }
        None
    }
    /// other listings of the same validators (deterministic functions of the op)
    fn listings(&self) -> Vec<Vec<(usize, u64, bool)>> {
        let mut out = vec![];
        let mut r = self.vals.clone();
        r.reverse();
        out.push(r);
        if self.vals.len() > 1 {
            let mut r = self.vals.clone();
            r.rotate_left(1);
            out.push(r);
        }
        let mut r = self.vals.clone();
        r.sort_by(|a, b| b.0.cmp(&a.0).then(a.1.cmp(&b.1)));
        out.push(r);
        out
    }
}

fn hs_json(turns: impl IntoIterator<Item = u64>) -> Value {
    let set: BTreeSet<u64> = turns.into_iter().collect();
    Value::Array(set.into_iter().map(|t| json!([t, keccak(t).to_str_radix(10)])).collect())
}

fn leader_op(s: &Sched, view: u64) -> Value {
    let mut op = s.json();
    op["op"] = json!("leader");
    op["view"] = json!(view);
    // the turn under the documented semantics, plus the two values a different reading of `frequency` would give
    op["hs"] = hs_json([turn_of(view, s.freq), 0, view]);
    op
}

fn scan_views(start: u64, count: u64) -> impl Iterator<Item = u64> {
    (0..count).filter_map(move |i| start.checked_add(i))
}

fn scan_op(s: &Sched, start: u64, count: u64) -> Value {
    let mut op = s.json();
    op["op"] = json!("scan");
    op["start"] = json!(start);
    op["count"] = json!(count);
    op["hs"] = hs_json(scan_views(start, count).map(|v| turn_of(v, s.freq)).chain([0]));
    op
}

fn new_op(s: &Sched) -> Value {
    let mut op = s.json();
    op["op"] = json!("new");
    op
}

// ------------------------------------------------------------------------------------------ generator

fn rand_weight(rng: &mut StdRng) -> u64 {
    match rng.gen_range(0..100) {
        0..=54 => rng.gen_range(1..=10),
        55..=74 => rng.gen_range(1..=1000),
        75..=89 => {
            let bits = rng.gen_range(1..=48);
            (rng.gen::<u64>() >> (64 - bits)).max(1)
        }
        _ => {
            let bits = rng.gen_range(49..=60);
            (rng.gen::<u64>() >> (64 - bits)).max(1)
        }
    }
}

fn rand_freq(rng: &mut StdRng) -> u64 {
    match rng.gen_range(0..100) {
        0..=14 => 0,
        15..=39 => 1,
        40..=69 => rng.gen_range(2..=5),
        70..=84 => rng.gen_range(6..=1000),
        85..=94 => {
            let bits = rng.gen_range(11..=64);
            (rng.gen::<u64>() >> (64 - bits)).max(1)
        }
        _ => u64::MAX,
    }
}

fn rand_view(rng: &mut StdRng, freq: u64) -> u64 {
    match rng.gen_range(0..100) {
        0..=29 => rng.gen_range(0..200),
        30..=44 => {
            // around a block boundary
            let k = rng.gen_range(0..50u64);
            k.saturating_mul(freq.max(1)).saturating_add(rng.gen_range(0..3)).saturating_sub(1)
        }
        45..=59 => {
            let bits = rng.gen_range(1..=64);
            rng.gen::<u64>() >> (64 - bits)
        }
        60..=69 => u64::MAX - rng.gen_range(0..4),
        70..=79 => (1u64 << rng.gen_range(1..64)).wrapping_add(rng.gen_range(0..3)).wrapping_sub(1),
        _ => rng.gen(),
    }
}

/// a valid schedule: 1..=maxn validators, distinct ids in random listing order, at least one eligible
fn rand_sched(rng: &mut StdRng, maxn: usize) -> Sched {
    let n = rng.gen_range(1..=maxn.min(NKEYS));
    let mut ids: Vec<usize> = (0..NKEYS).collect();
    ids.shuffle(rng);
    ids.truncate(n);
    let p_leader = [0.3, 0.7, 1.0][rng.gen_range(0..3)];
    let mut vals: Vec<(usize, u64, bool)> = ids.iter().map(|&i| (i, rand_weight(rng), rng.gen_bool(p_leader))).collect();
    if !vals.iter().any(|v| v.2) {
        let k = rng.gen_range(0..n);
        vals[k].2 = true;
    }
    Sched { vals, weighted: rng.gen_bool(0.5), freq: rand_freq(rng) }
}

/// a schedule that `Schedule::new` must reject (sometimes for several reasons at once)
fn rand_invalid(rng: &mut StdRng) -> Sched {
    let mut s = rand_sched(rng, 6);
    let k = rng.gen_range(0..s.vals.len());
    match rng.gen_range(0..6) {
        0 => {
            // duplicate key (same or different weight / flag)
            let mut d = s.vals[k];
            if rng.gen_bool(0.5) {
                d.1 = rand_weight(rng);
                d.2 = !d.2;
            }
            let at = rng.gen_range(0..=s.vals.len());
            s.vals.insert(at, d);
        }
        1 => s.vals[k].1 = 0,
        2 => {
            // total weight 2^64 or more
            let rest: u128 = s.vals.iter().enumerate().filter(|(i, _)| *i != k).map(|(_, v)| v.1 as u128).sum();
            let need = (1u128 << 64) - rest + rng.gen_range(0..3) as u128;
            if need <= u64::MAX as u128 {
                s.vals[k].1 = need as u64;
            } else {
                s.vals[k].1 = u64::MAX;
                s.vals.push(((s.vals[k].0 + 1) % NKEYS, 1, true));
                // the pushed id may collide: still invalid
            }
        }
        3 => s.vals.clear(),
        4 => s.vals.iter_mut().for_each(|v| v.2 = false),
        _ => {
            s.vals[k].1 = 0;
            let d = s.vals[0];
            s.vals.push(d);
        }
    }
    s
}

/// splits of `w` into `parts` positive weights
fn split(rng: &mut StdRng, w: u64, parts: usize) -> Vec<u64> {
    let parts = parts.min(w as usize).max(1);
    let mut cuts: BTreeSet<u64> = BTreeSet::new();
    while cuts.len() < parts - 1 {
        cuts.insert(rng.gen_range(1..w));
    }
    let mut out = vec![];
    let mut prev = 0;
    for c in cuts {
        out.push(c - prev);
        prev = c;
    }
    out.push(w - prev);
    out
}

fn sched_from_weights(rng: &mut StdRng, ws: &[u64], weighted: bool, freq: u64, extra_non_eligible: usize) -> Sched {
    let mut ids: Vec<usize> = (0..NKEYS).collect();
    ids.shuffle(rng);
    let mut vals: Vec<(usize, u64, bool)> = ws.iter().enumerate().map(|(i, &w)| (ids[i], w, true)).collect();
    for j in 0..extra_non_eligible {
        vals.push((ids[ws.len() + j], rng.gen_range(1..=7), false));
    }
    vals.shuffle(rng);
    Sched { vals, weighted, freq }
}

fn directed(rng: &mut StdRng, thorough: bool) -> Vec<Value> {
    let mut ops = vec![];
    // (1) hash residue 0 (F2): small leader weights, every view whose turn hashes to a multiple of W
    for w in 1u64..=8 {
        for parts in 1..=3usize {
            if parts as u64 > w {
                continue;
            }
            for freq in [1u64, 3] {
                let ws = split(rng, w, parts);
                let s = sched_from_weights(rng, &ws, true, freq, (w % 2) as usize);
                let hits: Vec<u64> = (0..400u64)
                    .filter(|v| keccak(turn_of(*v, freq)) % BigUint::from(w) == BigUint::from(0u8))
                    .take(3)
                    .collect();
                for v in hits {
                    ops.push(leader_op(&s, v));
                }
                ops.push(scan_op(&s, 0, 48));
            }
        }
    }
    // (2) frequency 0 (F1): never rotates, both modes, views across the whole range
    for weighted in [false, true] {
        for n in [1usize, 2, 5] {
            let ws: Vec<u64> = (0..n).map(|_| rand_weight(rng)).collect();
            let s = sched_from_weights(rng, &ws, weighted, 0, 1);
            for v in [0, 1, 2, 7, 1 << 32, (1 << 63) + 1, u64::MAX - 1, u64::MAX] {
                ops.push(leader_op(&s, v));
            }
            ops.push(scan_op(&s, 0, 24));
            ops.push(scan_op(&s, u64::MAX - 9, 24));
        }
    }
    // (3) weighted walk boundaries: the real residue e sits exactly on / just below a prefix sum
    for t in 0u64..(if thorough { 400 } else { 60 }) {
        let w: u64 = match t % 4 {
            0 => rng.gen_range(2..=20),
            1 => rng.gen_range(2..=100_000),
            2 => (rng.gen::<u64>() >> rng.gen_range(0..40)).max(2),
            _ => u64::MAX - rng.gen_range(0..3),
        };
        let e = {
            let r = keccak(t) % BigUint::from(w);
            r.to_u64_digits().first().copied().unwrap_or(0)
        };
        let mut cands: Vec<Vec<u64>> = vec![];
        if e >= 1 {
            cands.push(vec![e, w - e]); // e == first prefix sum: must go to the second
            if e >= 2 && w - e >= 2 {
                let a = rng.gen_range(1..e);
                let b = rng.gen_range(1..w - e);
                cands.push(vec![a, e - a, b, w - e - b]);
            }
        }
        if e + 1 < w {
            cands.push(vec![e + 1, w - e - 1]); // e == first prefix sum - 1: must stay on the first
        }
        for ws in cands {
            let s = sched_from_weights(rng, &ws, true, 1, (t % 3) as usize % 2);
            // the extra non-eligible validators must not push the total over 2^64
            let s = if s.valid() { s } else { sched_from_weights(rng, &ws, true, 1, 0) };
            ops.push(leader_op(&s, t));
        }
    }
    // (4) weights at the top of the u64 range: prefix sums up to 2^64 - 1, non-eligible heavy validators
    let big: Vec<Vec<(u64, bool)>> = vec![
        vec![(u64::MAX, true)],
        vec![(1 << 63, true), ((1 << 63) - 1, true)],
        vec![(1 << 62, true), (1 << 62, true), (1 << 62, true), ((1 << 62) - 1, true)],
        vec![(1 << 63, false), (5, true), (1 << 62, true)],
        vec![(u64::MAX - 3, false), (1, true), (2, true)],
        vec![(u64::MAX - 1, true), (1, true)],
        vec![(1, true), (u64::MAX - 1, true)],
    ];
    for b in &big {
        for weighted in [false, true] {
            for freq in [0u64, 1, 2, u64::MAX] {
                let mut ids: Vec<usize> = (0..NKEYS).collect();
                ids.shuffle(rng);
                let vals: Vec<(usize, u64, bool)> = b.iter().enumerate().map(|(i, x)| (ids[i], x.0, x.1)).collect();
                let s = Sched { vals, weighted, freq };
                ops.push(new_op(&s));
                for _ in 0..4 {
                    let v = rand_view(rng, freq);
                    ops.push(leader_op(&s, v));
                }
                ops.push(leader_op(&s, u64::MAX));
            }
        }
    }
    // (5) round-robin: whole periods, block boundaries, the top of the view range
    for n in [1usize, 2, 3, 5, 8] {
        for freq in [1u64, 2, 3, 7] {
            let ws: Vec<u64> = (0..n).map(|_| rand_weight(rng)).collect();
            let s = sched_from_weights(rng, &ws, false, freq, n % 3);
            let period = n as u64 * freq;
            ops.push(scan_op(&s, 0, 2 * period + 3));
            ops.push(scan_op(&s, rng.gen_range(0..1_000_000), 2 * period + 3));
            ops.push(scan_op(&s, u64::MAX - period - 1, 2 * period + 3));
            ops.push(leader_op(&s, u64::MAX));
            ops.push(leader_op(&s, u64::MAX - freq));
        }
    }
    // (6) the same validators listed in every rotation of the list (K compares each listing separately)
    for _ in 0..6 {
        let s = rand_sched(rng, 5);
        let v = rand_view(rng, s.freq);
        for r in 0..s.vals.len() {
            let mut s2 = s.clone();
            s2.vals.rotate_left(r);
            ops.push(new_op(&s2));
            ops.push(leader_op(&s2, v));
        }
    }
    // (7) constructor boundaries: total weight exactly 2^64 - 1 (accepted) and 2^64 (rejected); single validator
    for (a, b) in [(u64::MAX - 1, 1u64), (u64::MAX, 1), (1 << 63, 1 << 63), ((1 << 63) - 1, 1 << 63)] {
        for flags in [(true, true), (true, false), (false, true)] {
            let s = Sched { vals: vec![(3, a, flags.0), (1, b, flags.1)], weighted: true, freq: 1 };
            ops.push(new_op(&s));
            ops.push(leader_op(&s, 5));
        }
    }
    // (8) weighted share over many consecutive turns (exact residue counts)
    let long = if thorough { 10_000 } else { 400 };
    for k in 0..(if thorough { 3 } else { 2 }) {
        let ws: Vec<u64> = vec![1, 2, 3, 4 + k];
        let s = sched_from_weights(rng, &ws, true, 1 + k, 1);
        ops.push(scan_op(&s, 0, long * (1 + k)));
    }
    ops
}

pub struct C11 {
    keys: Vec<validator::PublicKey>,
}

impl C11 {
    fn new() -> Self {
        // a fixed pool of genuine BLS public keys; ids are ranks in the keys' own `Ord`
        let mut rng = StdRng::seed_from_u64(0xC11);
        let mut keys: Vec<validator::PublicKey> = (0..NKEYS).map(|_| rng.gen::<validator::SecretKey>().public()).collect();
        keys.sort();
        keys.dedup();
        assert_eq!(keys.len(), NKEYS);
        Self { keys }
    }

    fn build(&self, vals: &[(usize, u64, bool)], s: &Sched) -> Result<anyhow::Result<Schedule>, String> {
        let infos: Vec<ValidatorInfo> = vals
            .iter()
            .map(|v| ValidatorInfo { key: self.keys[v.0 % NKEYS].clone(), weight: v.1, leader: v.2 })
            .collect();
        let sel = LeaderSelection {
            frequency: s.freq,
            mode: if s.weighted { LeaderSelectionMode::Weighted } else { LeaderSelectionMode::RoundRobin },
        };
        catch(move || Schedule::new(infos, sel))
    }

    /// The same list through the wire format: a `ValidatorSchedule` message listing the validators in the given order
    /// (a hand-written genesis, another encoder, a peer), decoded by the real `ProtoFmt::read`.
    fn build_wire(&self, vals: &[(usize, u64, bool)], s: &Sched) -> Result<anyhow::Result<Schedule>, String> {
        use zksync_consensus_roles::proto::validator as vproto;
        use zksync_protobuf::ProtoFmt as _;
        let sel = LeaderSelection {
            frequency: s.freq,
            mode: if s.weighted { LeaderSelectionMode::Weighted } else { LeaderSelectionMode::RoundRobin },
        };
        let msg = vproto::ValidatorSchedule {
            validators: vals
                .iter()
                .map(|v| ValidatorInfo { key: self.keys[v.0 % NKEYS].clone(), weight: v.1, leader: v.2 }.build())
                .collect(),
            leader_selection: Some(sel.build()),
        };
        let bytes = prost::Message::encode_to_vec(&msg);
        catch(move || zksync_protobuf::decode::<Schedule>(&bytes))
    }

    fn id_of(&self, k: &validator::PublicKey) -> Option<usize> {
        self.keys.binary_search(k).ok()
    }

    /// monitors of the constructor; returns the schedule if it was accepted
    fn check_new(&self, s: &Sched, op: &Value, out: &mut Out) -> Result<Option<Schedule>, Value> {
        let r = match self.build(&s.vals, s) {
            Ok(r) => r,
            Err(site) => {
                out.oracle_fail(&site, "Schedule::new panicked", op.clone());
                return Err(json!({"panic": site}));
            }
        };
        let valid = s.valid();
        // the decode path must give the same verdict and the same schedule as the constructor, for this listing
        match self.build_wire(&s.vals, s) {
            Ok(w) => {
                if w.is_ok() != r.is_ok() {
                    out.oracle_fail("new/wire-verdict", &format!("Schedule::new accepts = {}, decoding the same listing accepts = {}", r.is_ok(), w.is_ok()), op.clone());
                } else if let (Ok(a), Ok(b)) = (&r, &w) {
                    let ids = |x: &Schedule| -> Vec<Option<usize>> { x.iter().map(|v| self.id_of(&v.key)).collect() };
                    if a != b || ids(a) != ids(b) || a.leaders() != b.leaders() || a.total_weight() != b.total_weight() {
                        out.oracle_fail("new/wire-differs", "the schedule decoded from a listing differs from the one constructed from the same listing (order of validators, leaders or total weight)", op.clone());
                    }
                }
            }
            Err(site) => out.oracle_fail(&site, "decoding a ValidatorSchedule panicked", op.clone()),
        }
        match &r {
            Ok(sch) => {
                if !valid {
                    out.oracle_fail("new/accepts-invalid", "Schedule::new accepted a list it must reject", op.clone());
                }
                let ids: Vec<Option<usize>> = sch.iter().map(|v| self.id_of(&v.key)).collect();
                let sorted = ids.windows(2).all(|w| w[0] < w[1]) && ids.iter().all(|i| i.is_some());
                let mut want: Vec<(usize, u64, bool)> = s.vals.clone();
                want.sort();
                let got: Vec<(usize, u64, bool)> =
                    sch.iter().map(|v| (self.id_of(&v.key).unwrap_or(usize::MAX), v.weight, v.leader)).collect();
                if !sorted || got != want {
                    out.oracle_fail("new/not-sorted", "stored validators are not the input sorted by key", op.clone());
                }
                let sum: u128 = s.vals.iter().map(|v| v.1 as u128).sum();
                if sch.total_weight() as u128 != sum || sch.len() != s.vals.len() {
                    out.oracle_fail("new/total-weight", "total_weight is not the sum of the weights", op.clone());
                }
                let pos: Vec<usize> = got.iter().enumerate().filter(|(_, v)| v.2).map(|(i, _)| i).collect();
                if sch.leaders() != pos.as_slice() || pos.is_empty() {
                    out.oracle_fail("new/leaders", "leaders() is not the list of eligible positions", op.clone());
                }
            }
            Err(_) => {
                if valid {
                    out.oracle_fail("new/rejects-valid", "Schedule::new rejected a valid list", op.clone());
                }
            }
        }
        // other listings of the same validators: same acceptance, equal schedule value
        for l in s.listings() {
            match self.build(&l, s) {
                Err(site) => out.oracle_fail(&site, "Schedule::new panicked on a permuted listing", op.clone()),
                Ok(r2) => match (&r, &r2) {
                    (Ok(a), Ok(b)) => {
                        if a != b {
                            out.oracle_fail("new/order-dependent", "a permuted listing gives a different Schedule", op.clone());
                        }
                    }
                    (Err(_), Err(_)) => {}
                    _ => out.oracle_fail("new/order-dependent", "acceptance depends on the listing order", op.clone()),
                },
            }
        }
        Ok(r.ok())
    }

    /// `view_leader` plus the per-view monitors; Err = panic observation
    fn leader(&self, sch: &Schedule, s: &Sched, view: u64, op: &Value, out: &mut Out) -> Result<usize, Value> {
        let key = match catch(|| sch.view_leader(ViewNumber(view))) {
            Ok(k) => k,
            Err(site) => {
                out.oracle_fail(&site, &format!("view_leader panicked at view {view}"), op.clone());
                return Err(json!({"panic": site}));
            }
        };
        let id = match self.id_of(&key) {
            Some(i) => i,
            None => {
                out.oracle_fail("leader/unknown-key", "view_leader returned a key outside the pool", op.clone());
                return Ok(usize::MAX);
            }
        };
        match sch.index(&key).and_then(|i| sch.get(i)) {
            Some(v) if v.leader && v.key == key => {}
            _ => out.oracle_fail(
                "leader/not-eligible",
                &format!("leader {id} of view {view} is not an eligible validator of the schedule"),
                op.clone(),
            ),
        }
        if s.spec_leader(view) != Some(id) {
            out.oracle_fail(
                "leader/spec",
                &format!("leader {id} of view {view} differs from the specification {:?}", s.spec_leader(view)),
                op.clone(),
            );
        }
        Ok(id)
    }
}

impl Prop for C11 {
    fn gen(&mut self, opts: &Opts) -> Vec<Value> {
        let mut rng = opts.rng();
        let mut ops = directed(&mut rng, opts.thorough);
        for _ in 0..opts.n {
            match rng.gen_range(0..100) {
                0..=49 => {
                    let s = rand_sched(&mut rng, 10);
                    let v = rand_view(&mut rng, s.freq);
                    ops.push(leader_op(&s, v));
                }
                50..=64 => {
                    let s = rand_sched(&mut rng, 8);
                    let start = rand_view(&mut rng, s.freq);
                    let e = s.eligible().len() as u64;
                    let count = if s.freq <= 6 { (2 * e * s.freq.max(1) + 2).min(120) } else { rng.gen_range(2..40) };
                    ops.push(scan_op(&s, start, count));
                }
                65..=84 => ops.push(new_op(&rand_sched(&mut rng, 12))),
                85..=94 => ops.push(new_op(&rand_invalid(&mut rng))),
                _ => {
                    let s = rand_invalid(&mut rng);
                    let v = rand_view(&mut rng, s.freq);
                    ops.push(leader_op(&s, v));
                }
            }
        }
        ops
    }

    fn exec(&mut self, op: &Value, out: &mut Out) -> Value {
        let kind = op["op"].as_str().expect("op").to_string();
        let s = Sched::parse(op);
        out.count(&format!("op={kind}"));
        out.count(&format!("mode={}", if s.weighted { "weighted" } else { "round_robin" }));
        out.count(&format!(
            "freq={}",
            match s.freq {
                0 => "0",
                1 => "1",
                2..=1000 => "2..1000",
                u64::MAX => "max",
                _ => "large",
            }
        ));
        out.count(&format!("n_validators={}", s.vals.len().min(12)));
        let sch = match self.check_new(&s, op, out) {
            Err(panic_obs) => return panic_obs,
            Ok(None) => {
                out.count("schedule=rejected");
                return json!({"ok": false, "class": "rejected"});
            }
            Ok(Some(sch)) => sch,
        };
        out.count("schedule=accepted");
        match kind.as_str() {
            "new" => {
                let vec: Vec<usize> = sch.iter().map(|v| self.id_of(&v.key).unwrap_or(usize::MAX)).collect();
                json!({"ok": true, "class": "new", "vec": vec, "leaders": sch.leaders(), "total": sch.total_weight()})
            }
            "leader" => {
                let view = op["view"].as_u64().expect("view");
                let id = match self.leader(&sch, &s, view, op, out) {
                    Ok(id) => id,
                    Err(p) => return p,
                };
                // determinism across listings: every other listing of the same validators elects the same leader
                for l in s.listings() {
                    for (how, built) in [("constructed", self.build(&l, &s)), ("decoded", self.build_wire(&l, &s))] {
                        if let Ok(Ok(sch2)) = built {
                            match catch(|| sch2.view_leader(ViewNumber(view))) {
                                Ok(k) if self.id_of(&k) == Some(id) => {}
                                Ok(_) => out.oracle_fail("leader/order-dependent", &format!("a permuted listing ({how}) elects a different leader"), op.clone()),
                                Err(site) => out.oracle_fail(&site, "view_leader panicked on a permuted listing", op.clone()),
                            }
                        }
                    }
                }
                if s.weighted {
                    let e = s.eligible();
                    let w: u128 = e.iter().map(|x| x.1 as u128).sum();
                    let r = keccak(turn_of(view, s.freq)) % BigUint::from(w);
                    if r == BigUint::from(0u8) {
                        out.count("weighted_residue=0");
                    } else {
                        out.count("weighted_residue=nonzero");
                    }
                }
                json!({"ok": true, "class": if s.weighted { "leader_weighted" } else { "leader_rr" }, "leader": id})
            }
            "scan" => {
                let start = op["start"].as_u64().expect("start");
                let count = op["count"].as_u64().expect("count");
                let views: Vec<u64> = scan_views(start, count).collect();
                let mut leaders = vec![];
                for &v in &views {
                    match self.leader(&sch, &s, v, op, out) {
                        Ok(id) => leaders.push(id),
                        Err(p) => return p,
                    }
                }
                let elig = s.eligible();
                // constant on blocks of `frequency` views; frequency 0 never rotates
                for i in 1..views.len() {
                    if turn_of(views[i], s.freq) == turn_of(views[i - 1], s.freq) && leaders[i] != leaders[i - 1] {
                        out.oracle_fail("scan/rotates-inside-block", "the leader changed inside a block of `frequency` views", op.clone());
                        break;
                    }
                }
                if s.freq == 0 && leaders.iter().any(|l| *l != leaders[0]) {
                    out.oracle_fail("scan/freq0-rotates", "frequency 0 must never rotate", op.clone());
                }
                if !s.weighted && s.freq > 0 {
                    if let Some(period) = (elig.len() as u64).checked_mul(s.freq) {
                        let p = period as usize;
                        if (period as u128) < views.len() as u128 {
                            if (0..views.len() - p).any(|i| leaders[i] != leaders[i + p]) {
                                out.oracle_fail("scan/rr-period", "round-robin is not periodic with period #eligible*frequency", op.clone());
                            }
                            let seen: BTreeSet<usize> = leaders[..p].iter().copied().collect();
                            let want: BTreeSet<usize> = elig.iter().map(|x| x.0).collect();
                            if seen != want {
                                out.oracle_fail("scan/rr-visits-all", "one round-robin period does not visit exactly the eligible validators", op.clone());
                            }
                            // consecutive blocks take consecutive eligible validators (cyclically)
                            let pos = |id: usize| elig.iter().position(|x| x.0 == id).unwrap_or(usize::MAX);
                            for i in 1..views.len() {
                                let (ta, tb) = (turn_of(views[i - 1], s.freq), turn_of(views[i], s.freq));
                                if tb == ta + 1 && pos(leaders[i]) != (pos(leaders[i - 1]) + 1) % elig.len() {
                                    out.oracle_fail("scan/rr-next", "the next block does not have the next eligible validator", op.clone());
                                    break;
                                }
                            }
                            out.count("scan=rr_full_period");
                        }
                    }
                }
                if s.weighted {
                    // exact share: each validator leads exactly the turns whose real hash residue lies in its interval
                    let w: u128 = elig.iter().map(|x| x.1 as u128).sum();
                    let mut want: BTreeMap<usize, u64> = BTreeMap::new();
                    let mut got: BTreeMap<usize, u64> = BTreeMap::new();
                    for (i, &v) in views.iter().enumerate() {
                        let r = keccak(turn_of(v, s.freq)) % BigUint::from(w);
                        let r: u128 = r.to_u64_digits().iter().rev().fold(0u128, |a, d| (a << 64) | *d as u128);
                        let mut acc = 0u128;
                        for (id, wt) in &elig {
                            acc += *wt as u128;
                            if r < acc {
                                *want.entry(*id).or_default() += 1;
                                break;
                            }
                        }
                        *got.entry(leaders[i]).or_default() += 1;
                    }
                    if want != got {
                        out.oracle_fail("scan/weighted-share", &format!("leader counts {got:?} differ from the residue counts {want:?}"), op.clone());
                    }
                    out.count("scan=weighted_share");
                }
                json!({"ok": true, "class": if s.weighted { "scan_weighted" } else { "scan_rr" }, "leaders": leaders})
            }
            _ => json!({"bad_op": true}),
        }
    }
}

fn main() {
    vharness::main_for(&mut C11::new());
}
